"""Obligations, rule registry, known-findings handling, evidence writer."""

from __future__ import annotations

import ast
import hashlib
import json
import os
import re
import time
from dataclasses import dataclass, field
from pathlib import Path
from typing import Any, Callable

from .model import AnalysisError, FuncInfo, Module, Repo, norm_text
from .resolve import Resolver

VERIF = Path(__file__).resolve().parent.parent
KNOWN_FILE = VERIF / "known_findings.json"


@dataclass
class Obligation:
    rule: str  # "C03.R2"
    instance: str  # short stable description of the slot filling
    ok: bool
    site: str = ""  # file:line
    module: str = ""
    function: str = ""
    construct: str = ""  # normalised construct text (key component)
    msg: str = ""  # what is required / what fails
    witness: Any = None  # path witness etc
    known: dict | None = None

    @property
    def key(self) -> str:
        return f"{self.rule}|{self.module}|{self.function}|{self.construct}"

    def short(self) -> dict:
        d = {
            "rule": self.rule,
            "instance": self.instance,
            "verdict": "discharged" if self.ok else ("known" if self.known else "violated"),
            "site": self.site,
        }
        if self.msg:
            d["msg"] = self.msg
        return d


class Ctx:
    """What a rule sees: the repo model, resolver, and obligation sink."""

    def __init__(self, repo: Repo, tier: str = "quick"):
        self.repo = repo
        self.res = Resolver(repo)
        self.tier = tier
        self.obligations: list[Obligation] = []
        self.notes: dict[str, Any] = {}
        self.trusted: list[str] = []
        self.assumptions: list[str] = []
        self._rule = ""

    # -- obligation helpers -------------------------------------------------
    def ob(
        self,
        instance: str,
        ok: bool,
        *,
        at: FuncInfo | Module | None = None,
        node: ast.AST | None = None,
        construct: str | None = None,
        msg: str = "",
        witness: Any = None,
        rule: str | None = None,
    ) -> Obligation:
        module = function = site = ""
        if isinstance(at, FuncInfo):
            module, function = at.module.name, at.qual.split(":", 1)[1]
            line = getattr(node, "lineno", None) or at.node.lineno
            site = f"{at.module.relpath}:{line}"
            if construct is None and node is not None:
                construct = norm_text(node, at.node)
        elif isinstance(at, Module):
            module = at.name
            line = getattr(node, "lineno", 1) if node is not None else 1
            site = f"{at.relpath}:{line}"
            if construct is None and node is not None:
                construct = ast.unparse(node)
        if construct is None:
            construct = instance
        construct = re.sub(r"\s+", " ", construct)[:300]
        o = Obligation(
            rule=rule or self._rule, instance=instance, ok=bool(ok), site=site, module=module,
            function=function, construct=construct, msg=msg, witness=witness,
        )
        self.obligations.append(o)
        return o

    def abstain(self, what: str, *, at: FuncInfo | Module | None = None, why: str = "condition / value form not recognised") -> None:
        """The code at an anchor is written in a form the rule cannot interpret: the rule has no instance there.  Recorded (evidence shows it as
        a discharged obligation marked `abstained`) - never a violation: ambiguity must not raise an alarm."""
        self.notes.setdefault("abstained", []).append(f"{self._rule}: {what} ({why})")
        self.ob(f"abstained: {what}", True, at=at, construct=f"abstained {what}", msg=why)

    def floor(self, what: str, count: int, minimum: int) -> None:
        """Vacuity guard.  `minimum` is the count confirmed by hand on the pinned tree; the armed floor is 60% of
        it (at least 1) so that an ordinary refactoring that merges or removes a few instances is not reported as an
        analysis failure, while a discovery pattern that stops matching (0 or a small fraction) still aborts."""
        armed = max(1, int(minimum * 0.6))
        if count < armed:
            raise AnalysisError(
                f"{self._rule}: instance floor missed for {what}: found {count}, armed floor {armed} (confirmed {minimum} on the pinned tree)"
            )
        self.notes.setdefault("floors", {})[f"{self._rule} {what}"] = {"found": count, "floor": armed, "confirmed": minimum}

    def note(self, key: str, value: Any) -> None:
        self.notes[key] = value

    def trust(self, *items: str) -> None:
        for i in items:
            if i not in self.trusted:
                self.trusted.append(i)

    def assume(self, *items: str) -> None:
        for i in items:
            if i not in self.assumptions:
                self.assumptions.append(i)


RuleFn = Callable[[Ctx], None]
RULES: dict[str, list[tuple[str, RuleFn, str, str]]] = {}  # pid -> [(rule id, fn, tier, doc)]
PROPERTY_INFO: dict[str, dict] = {}


def rule(rule_id: str, tier: str = "quick") -> Callable[[RuleFn], RuleFn]:
    pid = rule_id.split(".")[0]

    def deco(fn: RuleFn) -> RuleFn:
        RULES.setdefault(pid, []).append((rule_id, fn, tier, (fn.__doc__ or "").strip()))
        return fn

    return deco


def share(pid: str, rule_id: str, fn: RuleFn, tier: str = "quick") -> None:
    """Register a rule implemented for another property under this property too."""
    RULES.setdefault(pid, []).append((rule_id, fn, tier, (fn.__doc__ or "").strip()))


def property_info(pid: str, **kw: Any) -> None:
    PROPERTY_INFO[pid] = kw


# ------------------------------------------------------------------ known findings


def load_known() -> list[dict]:
    if not KNOWN_FILE.exists():
        return []
    data = json.loads(KNOWN_FILE.read_text())
    return data.get("findings", [])


def match_known(o: Obligation, known: list[dict], pid: str) -> dict | None:
    for k in known:
        if k.get("status") != "known":
            continue
        if k.get("property") != pid and pid not in k.get("also", []):
            continue
        if k.get("rule") != o.rule and o.rule not in k.get("rules", []):
            continue
        if k.get("module") and k["module"] != o.module:
            continue
        if k.get("function") and k["function"] != o.function:
            continue
        if k.get("construct") and k["construct"] != o.construct:
            continue
        if k.get("instance") and k["instance"] != o.instance:
            continue
        return k
    return None


# ------------------------------------------------------------------ running


def digest_repo(repo: Repo) -> str:
    h = hashlib.sha256()
    for name in sorted(repo.modules):
        h.update(name.encode())
        h.update(repo.modules[name].src.encode())
    return h.hexdigest()[:16]


def run_property(pid: str, tier: str, repo_root: str | None = None, only_rule: str | None = None) -> tuple[int, dict]:
    """Run all rules of a property.  Returns (exit code, evidence dict)."""
    t0 = time.time()
    seed = int(os.environ.get("VERIF_SEED", "0") or 0)
    out_lines: list[str] = []
    repo = Repo(repo_root)
    ctx = Ctx(repo, tier)
    rules = RULES.get(pid, [])
    if not rules:
        raise AnalysisError(f"no rules registered for {pid}")
    rules_run = []
    for rid, fn, rtier, doc in rules:
        if rtier == "thorough" and tier != "thorough":
            continue
        if only_rule and rid != only_rule:
            continue
        ctx._rule = rid
        before = len(ctx.obligations)
        fn(ctx)
        n = len(ctx.obligations) - before
        if n == 0:
            raise AnalysisError(f"{rid}: rule produced no obligation (vacuous)")
        rules_run.append({"rule": rid, "obligations": n, "doc": doc.split("\n")[0]})
    known = load_known()
    violated: list[Obligation] = []
    known_hits: list[Obligation] = []
    for o in ctx.obligations:
        if o.ok:
            continue
        k = match_known(o, known, pid)
        if k:
            o.known = k
            known_hits.append(o)
        else:
            violated.append(o)
    outdir = VERIF / "out" / pid
    replay_paths = []
    if violated:
        outdir.mkdir(parents=True, exist_ok=True)
    for o in violated:
        h = hashlib.sha1(o.key.encode()).hexdigest()[:12]
        p = outdir / f"{o.rule}-{h}.json"
        p.write_text(json.dumps({
            "property": pid, "rule": o.rule, "instance": o.instance, "site": o.site, "module": o.module,
            "function": o.function, "construct": o.construct, "msg": o.msg, "witness": o.witness,
            "repo_root": str(repo.root),
        }, indent=1, default=str))
        replay_paths.append(str(p))
        print(f"  {o.rule} {o.site} [{o.function}] {o.instance}: {o.msg}")
        print(f"VIOLATION property={pid} replay={p}")
    seen_known = set()
    for o in known_hits:
        tag = (o.known.get("id"), o.key)
        if tag in seen_known:
            continue
        seen_known.add(tag)
        print(f"KNOWN-FINDING: property={pid} {o.rule} {o.site} [{o.function}] {o.known.get('id', '')} {o.known.get('what', o.msg)}")
    total = len(ctx.obligations)
    discharged = sum(1 for o in ctx.obligations if o.ok)
    distinct = len({o.key for o in ctx.obligations})
    info = PROPERTY_INFO.get(pid, {})
    samples = []
    per_rule_seen: dict[str, int] = {}
    for o in ctx.obligations:
        c = per_rule_seen.get(o.rule, 0)
        if c < 3 or not o.ok:
            samples.append(o.short())
            per_rule_seen[o.rule] = c + 1
    samples = samples[:80]
    evidence = {
        "property_id": pid,
        "tier": tier,
        "seed": seed,
        "level": "other",
        "coverage": {
            "explanation": info.get("explanation", "")
            + " Static analysis of /repo's current source (Python ast; no repository code is imported or run). "
            "Each obligation is one filling of a rule template by a construct of the repository; "
            "'discharged' means the structural necessary condition holds for that construct.",
            "evaluations": total,
            "distinct_nontrivial": distinct,
            "rule": "one obligation per (rule, repository construct); distinct = distinct (rule, module, function, normalised construct) keys; "
            "non-trivial = the slot was filled by a construct found in the parsed source (rules with zero matches abort with exit 2)",
            "obligations": total,
            "discharged": discharged,
            "known_findings": [
                {"rule": o.rule, "site": o.site, "id": o.known.get("id"), "what": o.known.get("what")} for o in known_hits
            ],
            "violations": [o.short() for o in violated],
            "rules": rules_run,
            "samples": samples,
            "units_analysed": {**repo.stats(), "repo_digest": digest_repo(repo), "repo_root": str(repo.root),
                               "call_resolution": dict(ctx.res.stats)},
            "notes": {k: v for k, v in ctx.notes.items() if not k.startswith("_")},
            "decides": info.get("decides", ""),
            "not_decided": info.get("not_decided", ""),
            "trusted_base": ctx.trusted,
            "checker_cmd": f"./check {pid} --tier {tier}",
            "exhaustive": True,
        },
        "assumptions": ctx.assumptions + info.get("assumptions", []),
        "wall_s": round(time.time() - t0, 3),
        "violations": len(violated),
    }
    print(
        f"[{pid}] tier={tier} rules={len(rules_run)} obligations={total} discharged={discharged} "
        f"known={len(known_hits)} violated={len(violated)} wall={evidence['wall_s']}s"
    )
    return (1 if violated else 0), evidence


def write_evidence(pid: str, evidence: dict) -> Path:
    d = VERIF / "evidence"
    d.mkdir(exist_ok=True)
    p = d / f"{pid}.json"
    p.write_text(json.dumps(evidence, indent=1, default=str) + "\n")
    return p
