"""Self-test of the checker (thorough tier): mutants must be reported, neutral twins must not.

A *mutant* is a small edit of a scratch copy of the repository (made under the system temp
directory, removed immediately afterwards) that still compiles and breaks one rule instance; the
named rule must fire on it.  A *twin* is a behaviour-preserving rewrite (whole-package
``ast.unparse``, which changes every line number and all formatting); the verdicts must equal
those on the unmodified tree.  A failure here is a defect of the checker: ANALYSIS-ERROR, exit 2 -
never a VIOLATION of the repository.
"""

from __future__ import annotations

import ast
import contextlib
import importlib
import io
import os
import pkgutil
import shutil
import tempfile
from concurrent.futures import ProcessPoolExecutor
from pathlib import Path

COPY = ("xsdata", "docs", "pyproject.toml")
TWIN_KINDS = ("unparse", "pad", "rename-locals", "negate-if")


def load_mutants(pid: str) -> list[dict]:
    from . import mutants

    out: list[dict] = []
    for m in pkgutil.iter_modules(mutants.__path__):
        mod = importlib.import_module(f"{mutants.__name__}.{m.name}")
        out += [x for x in getattr(mod, "MUTANTS", []) if pid in x["pids"]]
    return out


def make_copy(src_root: Path) -> Path:
    tmp = Path(tempfile.mkdtemp(prefix="xsa_selftest_"))
    for name in COPY:
        s = src_root / name
        if s.is_dir():
            shutil.copytree(s, tmp / name, ignore=shutil.ignore_patterns("__pycache__", "*.pyc"))
        elif s.exists():
            shutil.copy2(s, tmp / name)
    return tmp


def _run(pid: str, root: Path) -> tuple[int, dict, str]:
    from . import cli, core

    cli.load_rules()
    buf = io.StringIO()
    with contextlib.redirect_stdout(buf):
        try:
            code, ev = core.run_property(pid, "quick", str(root))
        except Exception as exc:  # noqa: BLE001
            return 2, {"error": f"{type(exc).__name__}: {exc}"}, buf.getvalue()
    return code, ev, buf.getvalue()


def _violation_keys(ev: dict) -> list[str]:
    cov = ev.get("coverage", {})
    return sorted(f"{v['rule']}|{v['instance']}" for v in cov.get("violations", []))


def run_mutant(args: tuple[str, dict, str]) -> dict:
    pid, m, src_root = args
    root = make_copy(Path(src_root))
    try:
        edits = m.get("edits") or [{"file": m["file"], "old": m["old"], "new": m["new"]}]
        for e in edits:
            p = root / e["file"]
            text = p.read_text()
            if text.count(e["old"]) != 1:
                return {"id": m["id"], "status": "skipped", "why": f"site selector matches {text.count(e['old'])} times in {e['file']}"}
            text = text.replace(e["old"], e["new"])
            if str(p).endswith(".py"):
                try:
                    compile(text, str(p), "exec")
                except SyntaxError as exc:
                    return {"id": m["id"], "status": "broken-mutant", "why": str(exc)}
            p.write_text(text)
        code, ev, out = _run(pid, root)
        if code == 2:
            return {"id": m["id"], "status": "analysis-error", "why": ev.get("error") or out[-300:]}
        rules = {v["rule"] for v in ev["coverage"]["violations"]}
        want = m.get("rules", {}).get(pid, m["rule"])
        if code == 1 and (want in rules):
            return {"id": m["id"], "status": "detected", "rule": want}
        return {"id": m["id"], "status": "missed", "why": f"exit {code}, rules fired {sorted(rules)}, wanted {want}"}
    finally:
        shutil.rmtree(root, ignore_errors=True)


SEEDED = Path(__file__).resolve().parent.parent / "seeded"
# seeds the static rules do not reach (value-level change, no structural clause): reported, not failed
DOCUMENTED_MISSES: set[str] = set()  # every filed seed is detected by the check of its own property (C06b-gyear-negative-offset-dispatch was the last miss: C06.R9)


def load_seeds(pid: str) -> list[dict]:
    """Independently written property-breaking changes filed under /verif/seeded (see DESIGN.md section 7)."""
    import json

    out = []
    for d in sorted(SEEDED.iterdir()) if SEEDED.is_dir() else []:
        meta, patch = d / "meta.json", d / "patch.diff"
        if meta.exists() and patch.exists() and json.loads(meta.read_text()).get("property") == pid:
            out.append({"id": d.name, "patch": str(patch)})
    return out


def run_seed(args: tuple[str, dict, str]) -> dict:
    import subprocess

    pid, s, src_root = args
    root = make_copy(Path(src_root))
    sid = f"seed:{s['id']}"
    try:
        r = subprocess.run(["git", "apply", "--include=xsdata/*", "--include=docs/*", s["patch"]], cwd=root, capture_output=True, text=True)
        if r.returncode != 0:
            return {"id": sid, "status": "skipped", "why": "patch no longer applies to the current tree: " + r.stderr.strip()[:160]}
        code, ev, out = _run(pid, root)
        if code == 2:
            return {"id": sid, "status": "analysis-error", "why": ev.get("error") or out[-300:]}
        rules = sorted({v["rule"] for v in ev["coverage"]["violations"]})
        if code == 1:
            return {"id": sid, "status": "detected", "rule": ",".join(rules)}
        if s["id"] in DOCUMENTED_MISSES:
            return {"id": sid, "status": "documented-miss", "why": "value-level change outside the structural clauses (DESIGN.md section 7)"}
        return {"id": sid, "status": "missed", "why": "exit 0 on a confirmed property-breaking change"}
    finally:
        shutil.rmtree(root, ignore_errors=True)


class _RenameLocals(ast.NodeTransformer):
    """Behaviour-preserving twin: every plain local variable of every function gets a fresh name."""

    SCOPES = (ast.FunctionDef, ast.AsyncFunctionDef, ast.Lambda, ast.ListComp, ast.SetComp, ast.DictComp, ast.GeneratorExp, ast.ClassDef)

    def __init__(self) -> None:
        self.count = 0

    def _own_nodes(self, fn: ast.AST):
        stack = list(ast.iter_child_nodes(fn))
        while stack:
            n = stack.pop()
            yield n
            if not isinstance(n, self.SCOPES):
                stack.extend(ast.iter_child_nodes(n))

    def _rename_in(self, fn: ast.FunctionDef) -> None:
        params = {a.arg for a in fn.args.posonlyargs + fn.args.args + fn.args.kwonlyargs}
        params |= {a.arg for a in (fn.args.vararg, fn.args.kwarg) if a}
        own = list(self._own_nodes(fn))
        bound = {n.id for n in own if isinstance(n, ast.Name) and isinstance(n.ctx, ast.Store)}
        blocked = set(params)
        for n in own:
            if isinstance(n, (ast.Global, ast.Nonlocal)):
                blocked |= set(n.names)
            elif isinstance(n, ast.ExceptHandler) and n.name:
                blocked.add(n.name)
            elif isinstance(n, ast.alias):
                blocked.add((n.asname or n.name).split(".")[0])
            elif isinstance(n, (ast.MatchAs, ast.MatchStar)) and n.name:
                blocked.add(n.name)
            elif isinstance(n, ast.MatchMapping) and n.rest:
                blocked.add(n.rest)
            elif isinstance(n, (ast.FunctionDef, ast.AsyncFunctionDef, ast.ClassDef)):
                blocked.add(n.name)
            if isinstance(n, self.SCOPES):
                # names bound again inside a nested scope are left alone
                for m in ast.walk(n):
                    if isinstance(m, ast.Name) and isinstance(m.ctx, ast.Store):
                        blocked.add(m.id)
                    elif isinstance(m, ast.arg):
                        blocked.add(m.arg)
                    elif isinstance(m, (ast.Global, ast.Nonlocal)):
                        blocked |= set(m.names)
            if isinstance(n, ast.Call) and isinstance(n.func, ast.Name) and n.func.id in ("locals", "vars", "eval", "exec"):
                return
        mapping = {name: f"{name}_rn" for name in bound - blocked if not name.startswith("__")}
        if not mapping:
            return
        for n in ast.walk(fn):
            if isinstance(n, ast.Name) and n.id in mapping:
                n.id = mapping[n.id]
        self.count += len(mapping)

    def visit_FunctionDef(self, node: ast.FunctionDef) -> ast.AST:
        self.generic_visit(node)
        self._rename_in(node)
        return node

    visit_AsyncFunctionDef = visit_FunctionDef


class _NegateIf(ast.NodeTransformer):
    """Behaviour-preserving twin: `if c: A else: B` becomes `if not c: B else: A` (elif chains are left alone)."""

    def visit_If(self, node: ast.If) -> ast.AST:
        self.generic_visit(node)
        if node.orelse and not (len(node.orelse) == 1 and isinstance(node.orelse[0], ast.If)):
            node.test = ast.UnaryOp(op=ast.Not(), operand=node.test)
            node.body, node.orelse = node.orelse, node.body
        return node


NEUTRAL = Path(__file__).resolve().parent.parent / "neutral"


def load_neutral() -> list[str]:
    """Behaviour-preserving refactorings written by independent agents (see DESIGN.md section 7.3): every check must stay silent on each."""
    return sorted(str(p) for p in NEUTRAL.glob("*/*.diff")) if NEUTRAL.is_dir() else []


def run_neutral(args: tuple[str, str, str]) -> dict:
    import subprocess

    pid, patch, src_root, base = args
    root = make_copy(Path(src_root))
    nid = "neutral:" + "/".join(patch.split("/")[-2:])
    try:
        r = subprocess.run(["git", "apply", "--include=xsdata/*", "--include=docs/*", patch], cwd=root, capture_output=True, text=True)
        if r.returncode != 0:
            return {"id": nid, "status": "skipped", "why": "patch no longer applies to the current tree"}
        base_code, base_keys = base
        code, ev, out = _run(pid, root)
        same = code == base_code and _violation_keys(ev) == base_keys
        return {"id": nid, "status": "same" if same else "differs",
                "why": "" if same else f"exit {code} vs {base_code}; {ev.get('error') or ''} {_violation_keys(ev)[:3]} vs {base_keys[:3]}"}
    finally:
        shutil.rmtree(root, ignore_errors=True)


def run_twin(args: tuple[str, str, str]) -> dict:
    pid, kind, src_root = args
    root = make_copy(Path(src_root))
    try:
        base_code, base_ev, _ = _run(pid, Path(src_root))
        n = 0
        for p in sorted((root / "xsdata").rglob("*.py")):
            src = p.read_text()
            tree = ast.parse(src)
            if kind == "unparse":
                new = ast.unparse(tree) + "\n"
            elif kind == "rename-locals":
                new = ast.unparse(ast.fix_missing_locations(_RenameLocals().visit(tree))) + "\n"
            elif kind == "negate-if":
                new = ast.unparse(ast.fix_missing_locations(_NegateIf().visit(tree))) + "\n"
            elif kind == "pad":
                new = "\n\n\n# padding\n" + src.replace("\n    def ", "\n\n    def ")
            else:
                raise ValueError(kind)
            p.write_text(new)
            n += 1
        code, ev, out = _run(pid, root)
        same = code == base_code and _violation_keys(ev) == _violation_keys(base_ev) and \
            ev.get("coverage", {}).get("obligations") == base_ev.get("coverage", {}).get("obligations")
        return {"id": f"twin-{kind}", "status": "same" if same else "differs", "files": n,
                "why": "" if same else f"exit {code} vs {base_code}; {ev.get('error') or ''} {_violation_keys(ev)} vs {_violation_keys(base_ev)}; "
                f"obligations {ev.get('coverage', {}).get('obligations')} vs {base_ev.get('coverage', {}).get('obligations')}"}
    finally:
        shutil.rmtree(root, ignore_errors=True)


def run_for_property(pid: str, repo_root: str | None = None, jobs: int | None = None) -> dict:
    src_root = str(Path(repo_root or os.environ.get("XSA_REPO") or "/repo").resolve())
    mutants = load_mutants(pid)
    seeds = load_seeds(pid)
    neutral = load_neutral()
    jobs = jobs or min(16, os.cpu_count() or 4)
    results: list[dict] = []
    bc, bev, _ = _run(pid, Path(src_root))
    base = (bc, _violation_keys(bev))
    with ProcessPoolExecutor(max_workers=jobs) as ex:
        futs = [ex.submit(run_mutant, (pid, m, src_root)) for m in mutants]
        futs += [ex.submit(run_seed, (pid, sd, src_root)) for sd in seeds]
        futs += [ex.submit(run_twin, (pid, k, src_root)) for k in TWIN_KINDS]
        futs += [ex.submit(run_neutral, (pid, n, src_root, base)) for n in neutral]
        for f in futs:
            results.append(f.result())
    failed = [r for r in results if r["status"] in ("missed", "differs", "analysis-error", "broken-mutant")]
    summary = {
        "mutants": len(mutants),
        "detected": sum(1 for r in results if r["status"] == "detected" and not r["id"].startswith("seed:")),
        "seeds": len(seeds),
        "seeds_detected": sum(1 for r in results if r["status"] == "detected" and r["id"].startswith("seed:")),
        "seeds_documented_miss": [r["id"] for r in results if r["status"] == "documented-miss"],
        "skipped": [r for r in results if r["status"] == "skipped"],
        "twins": sum(1 for r in results if r["id"].startswith("twin-")),
        "twins_same": sum(1 for r in results if r["status"] == "same" and r["id"].startswith("twin-")),
        "neutral": len(neutral),
        "neutral_same": sum(1 for r in results if r["status"] == "same" and r["id"].startswith("neutral:")),
        "failed": failed,
        "results": results,
    }
    print(f"[{pid}] selftest: {summary['detected']}/{summary['mutants']} mutants detected, {summary['seeds_detected']}/{summary['seeds']} seeded changes detected, "
          f"{summary['twins_same']}/{summary['twins']} twins silent, {summary['neutral_same']}/{summary['neutral']} neutral refactorings silent, {len(summary['skipped'])} skipped, {len(failed)} failed")
    for r in failed:
        print(f"  SELFTEST-FAIL {r['id']}: {r['status']} {r.get('why', '')}")
    return summary


if __name__ == "__main__":
    import sys

    for pid in sys.argv[1:]:
        run_for_property(pid)
