"""E8 - a small Jinja2 lexer: output expressions with their filter chains and lexical context.

Only what the repository's templates use: ``{{ expr|f1|f2(args) }}``, ``{% set x = expr|f %}``, ``{% set x | f %}...{% endset %}``,
``{% if %}``, ``{% for %}``, ``{% include %}``, ``{% with %}``, ``{% filter %}``.  Macros abort the analysis (exit 2).
Context of an output expression in the generated Python text:
  string      - inside an (unclosed) double-quoted literal of the current output line
  identifier  - in a position where the generated text needs a Python identifier / dotted name
  free        - anything else (expressions, whole pre-rendered blocks)
"""

from __future__ import annotations

import re
from dataclasses import dataclass, field

from .model import AnalysisError, Repo

TOKEN = re.compile(r"(\{\{-?.*?-?\}\}|\{%-?.*?-?%\}|\{#.*?#\})", re.S)


@dataclass
class Output:
    expr: str
    filters: list[str]
    context: str
    lineno: int
    raw: str


def template_files(repo: Repo) -> list[tuple[str, str]]:
    d = repo.root / "xsdata" / "formats" / "dataclass" / "templates"
    if not d.is_dir():
        raise AnalysisError(f"anchor vanished: {d}")
    out = [(p.name, p.read_text()) for p in sorted(d.glob("*.jinja2"))]
    if len(out) < 6:
        raise AnalysisError("fewer than 6 templates found")
    return out


def split_pipes(s: str) -> list[str]:
    parts, depth, cur, q = [], 0, "", None
    for ch in s:
        if q:
            cur += ch
            if ch == q:
                q = None
            continue
        if ch in "\"'":
            q = ch
            cur += ch
        elif ch in "([{":
            depth += 1
            cur += ch
        elif ch in ")]}":
            depth -= 1
            cur += ch
        elif ch == "|" and depth == 0:
            parts.append(cur.strip())
            cur = ""
        else:
            cur += ch
    parts.append(cur.strip())
    return parts


def _filter_name(f: str) -> str:
    return re.match(r"[A-Za-z_][A-Za-z_0-9]*", f).group(0) if re.match(r"[A-Za-z_]", f) else f


def outputs(src: str) -> list[Output]:
    if re.search(r"\{%-?\s*macro\b", src):
        raise AnalysisError("jinja macro found: outside the analysed template subset")
    out: list[Output] = []
    setvars: dict[str, list[str]] = {}
    line_text = ""  # generated text of the current output line (raw text only)
    open_quote = False
    lineno = 1
    pieces = TOKEN.split(src)
    for i, piece in enumerate(pieces):
        if not piece:
            continue
        if piece.startswith("{#"):
            lineno += piece.count("\n")
            continue
        if piece.startswith("{%"):
            body = piece[2:-2].strip("-").strip()
            m = re.match(r"set\s+([A-Za-z_][A-Za-z_0-9]*)\s*=\s*(.*)$", body, re.S)
            if m:
                parts = split_pipes(m.group(2))
                base = parts[0]
                fl = [_filter_name(f) for f in parts[1:]]
                # propagate through simple aliases / conditionals that keep the sanitised value
                for v, vf in setvars.items():
                    if re.search(rf"\b{v}\b", base) and not fl and re.fullmatch(rf"(None if .* else )?{v}", base):
                        fl = list(vf)
                setvars[m.group(1)] = fl
            lineno += piece.count("\n")
            continue
        if piece.startswith("{{"):
            body = piece[2:-2].strip("-").strip()
            parts = split_pipes(body)
            expr = parts[0]
            filters = [_filter_name(f) for f in parts[1:]]
            if not filters and expr in setvars:
                filters = list(setvars[expr])
            # what follows on the same line
            nxt = ""
            for p2 in pieces[i + 1:]:
                if p2.startswith("{%") or p2.startswith("{#"):
                    continue
                nxt += p2 if not p2.startswith("{{") else "\x00"
                if "\n" in p2:
                    break
            nxt_line = nxt.split("\n", 1)[0]
            before = line_text
            if open_quote:
                ctx_kind = "string"
            elif re.search(r"(^|\s)class\s+$", before) or re.search(r"(^|\s)(from|import)\s+$", before) or re.search(r"\bimport\s+\($", before):
                ctx_kind = "identifier"
            elif before.strip() == "" and re.match(r"\s*(:|=\s)", nxt_line):
                ctx_kind = "identifier"  # field / member definition line
            elif before.strip() == "" and re.match(r"\s*,\s*$", nxt_line):
                ctx_kind = "identifier"  # import list entry
            else:
                ctx_kind = "free"
            out.append(Output(expr, filters, ctx_kind, lineno, piece))
            line_text += "\x00"
            lineno += piece.count("\n")
            continue
        # raw text
        for ch in piece:
            if ch == "\n":
                lineno += 1
                if not open_quote:
                    line_text = ""
                continue
            line_text += ch
            if ch == '"':
                open_quote = not open_quote
    return out
