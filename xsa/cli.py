"""Runner: ./check <PID> --tier quick|thorough ; ./check --replay <file>."""

from __future__ import annotations

import argparse
import importlib
import json
import os
import pkgutil
import sys
import traceback

from . import core
from .model import AnalysisError


def load_rules() -> None:
    from . import rules

    for m in pkgutil.iter_modules(rules.__path__):
        importlib.import_module(f"{rules.__name__}.{m.name}")


def main(argv: list[str] | None = None) -> int:
    ap = argparse.ArgumentParser(prog="check")
    ap.add_argument("pid", nargs="?")
    ap.add_argument("--tier", default=os.environ.get("VERIF_TIER") or "quick", choices=["quick", "thorough"])
    ap.add_argument("--replay")
    ap.add_argument("--repo", default=None)
    ap.add_argument("--rule", default=None)
    ap.add_argument("--no-evidence", action="store_true")
    ap.add_argument("--list", action="store_true")
    args = ap.parse_args(argv)
    try:
        load_rules()
        if args.list:
            for pid in sorted(core.RULES):
                for rid, _fn, tier, doc in core.RULES[pid]:
                    print(f"{pid} {rid} [{tier}] {doc.splitlines()[0] if doc else ''}")
            return 0
        if args.replay:
            data = json.load(open(args.replay))
            pid = data["property"]
            code, ev = core.run_property(pid, args.tier, args.repo, only_rule=data["rule"])
            hit = [v for v in ev["coverage"]["violations"] if v["rule"] == data["rule"] and v["instance"] == data["instance"]]
            print(f"replay {data['rule']} {data['instance']}: {'still violated' if hit else 'no longer violated'}")
            print(json.dumps(data, indent=1))
            return 1 if hit else 0
        if not args.pid:
            ap.error("property id required")
        code, ev = core.run_property(args.pid, args.tier, args.repo, only_rule=args.rule)
        if args.tier == "thorough" and not args.rule:
            from . import selftest

            st = selftest.run_for_property(args.pid, args.repo)
            ev["coverage"]["selftest"] = st
            if st.get("failed"):
                raise AnalysisError(f"self-test failed: {st['failed']}")
        if not args.no_evidence and not args.rule and not args.repo:
            core.write_evidence(args.pid, ev)
        return code
    except AnalysisError as exc:
        print(f"ANALYSIS-ERROR: {exc}")
        return 2
    except Exception:  # noqa: BLE001
        print("ANALYSIS-ERROR: internal exception")
        traceback.print_exc()
        return 2


if __name__ == "__main__":
    sys.stdout.reconfigure(line_buffering=True)
    sys.exit(main())
