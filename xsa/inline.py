"""Private-helper inlining view.

"Extract method" is the most common behaviour-preserving refactoring; a rule anchored on function F must
not change its verdict because a block of F moved into a private helper.  After loading, every call from F
to an *underscore-private* helper of the same class / module is replaced, in F's syntax tree, by the
helper's body (parameters bound to the argument expressions), so that every rule sees the same code whether
or not the helper was extracted.  Helpers stay addressable as functions of their own as well.

Two forms:

* expression helpers (body = ``return <expr>``) are substituted in place at any call position;
* statement helpers are spliced at statement level::

      x = self._h(a)        ->      if True:              # tagged _xsa_inline = k
                                        p = a             # parameter binding (only when names differ)
                                        ...body...        # `return v` -> `__ret_k = v`  (tagged _xsa_jump = k)
                                    x = __ret_k

  The CFG builder gives the tagged ``if True`` no test node and routes tagged jumps to the end of the block.

Eligible: name starts with one underscore; resolved through ``self.`` / ``cls.`` / ``ClassName.`` to a method that no
subclass overrides, or a bare name to a function of the same module; no decorator other than staticmethod /
classmethod; no ``*args`` / ``**kwargs`` on either side; not recursive; generators only for ``yield from self._h(...)``
statements.
"""

from __future__ import annotations

import ast
import copy
from typing import TYPE_CHECKING

if TYPE_CHECKING:
    from .model import FuncInfo, Repo

MAX_DEPTH = 4
_KNOWN: set[str] | None = None


def known_functions() -> set[str]:
    """Qualified names of the functions of the pinned tree (xsa/known_functions.txt, regenerated when the rules are re-confirmed).
    A function that is not in the list did not exist when the rules were written - typically the product of an "extract method"
    refactoring - and is analysed inlined into its same-class / same-module callers, like an underscore-private helper."""
    global _KNOWN
    if _KNOWN is None:
        from pathlib import Path

        p = Path(__file__).with_name("known_functions.txt")
        _KNOWN = set(p.read_text().split()) if p.exists() else set()
    return _KNOWN
SCOPES = (ast.FunctionDef, ast.AsyncFunctionDef, ast.Lambda, ast.ClassDef)


def _walk_own(node: ast.AST):
    """Walk without entering nested function / class definitions (comprehensions and lambdas are entered)."""
    stack = list(ast.iter_child_nodes(node))
    while stack:
        n = stack.pop()
        yield n
        if not isinstance(n, (ast.FunctionDef, ast.AsyncFunctionDef, ast.ClassDef)):
            stack.extend(ast.iter_child_nodes(n))


def _is_generator(fn: ast.AST) -> bool:
    return any(isinstance(n, (ast.Yield, ast.YieldFrom)) for n in _walk_own(fn))


def _body_without_doc(fn: ast.FunctionDef) -> list[ast.stmt]:
    body = fn.body
    if body and isinstance(body[0], ast.Expr) and isinstance(body[0].value, ast.Constant) and isinstance(body[0].value.value, str):
        body = body[1:]
    return body


def _bound_names(fn: ast.FunctionDef) -> set[str]:
    out = {a.arg for a in [*fn.args.posonlyargs, *fn.args.args, *fn.args.kwonlyargs]}
    for n in _walk_own(fn):
        if isinstance(n, ast.Name) and isinstance(n.ctx, (ast.Store, ast.Del)):
            out.add(n.id)
        elif isinstance(n, ast.ExceptHandler) and n.name:
            out.add(n.name)
        elif isinstance(n, ast.arg):
            out.add(n.arg)
    return out


def _all_names(fn: ast.AST) -> set[str]:
    out: set[str] = set()
    for n in ast.walk(fn):
        if isinstance(n, ast.Name):
            out.add(n.id)
        elif isinstance(n, ast.arg):
            out.add(n.arg)
        elif isinstance(n, ast.ExceptHandler) and n.name:
            out.add(n.name)
    return out


class _Subst(ast.NodeTransformer):
    def __init__(self, mapping: dict[str, ast.expr | str]):
        self.mapping = mapping

    def visit_Name(self, node: ast.Name) -> ast.AST:
        m = self.mapping.get(node.id)
        if m is None:
            return node
        if isinstance(m, str):
            return ast.copy_location(ast.Name(id=m, ctx=node.ctx), node)
        if isinstance(node.ctx, ast.Load):
            return ast.copy_location(copy.deepcopy(m), node)
        return node

    def visit_ExceptHandler(self, node: ast.ExceptHandler) -> ast.AST:
        self.generic_visit(node)
        m = self.mapping.get(node.name or "")
        if isinstance(m, str):
            node.name = m
        return node


def _simple_arg(e: ast.expr) -> bool:
    while isinstance(e, ast.Attribute):
        e = e.value
    return isinstance(e, (ast.Name, ast.Constant))


class Inliner:
    def __init__(self, repo: "Repo"):
        self.repo = repo
        self.counter = 0
        self.done: set[str] = set()
        self.stack: list[str] = []
        self.stats = {"expression": 0, "statement": 0, "callers": 0}
        self.sites: dict[str, int] = {}
        self.introduced: dict[str, set[str]] = {}

    # ------------------------------------------------------------------ resolution
    def _nested_defs(self, fi: "FuncInfo") -> set[str]:
        cache = self.__dict__.setdefault("_nested_cache", {})
        key = id(fi.node)
        if key not in cache:
            cache[key] = {n.name for n in _walk_own(fi.node) if isinstance(n, ast.FunctionDef)}
        return cache[key]

    def _by_method_name(self) -> dict[str, list["FuncInfo"]]:
        if not hasattr(self, "_methods_by_name"):
            idx: dict[str, list[FuncInfo]] = {}
            for h in self.repo.functions.values():
                if h.cls is not None:
                    idx.setdefault(h.name, []).append(h)
            self._methods_by_name = idx
        return self._methods_by_name

    def _helper_for(self, fi: "FuncInfo", call: ast.Call, cm: bool = False) -> "FuncInfo | None":
        f = call.func
        name = f.attr if isinstance(f, ast.Attribute) else (f.id if isinstance(f, ast.Name) else "")
        if not name or name.startswith("__"):
            return None
        private = name.startswith("_")
        if any(isinstance(a, ast.Starred) for a in call.args) or any(k.arg is None for k in call.keywords):
            return None
        h: FuncInfo | None = None
        if isinstance(f, ast.Attribute) and isinstance(f.value, ast.Name):
            recv = f.value.id
            if recv in ("self", "cls") and fi.cls is not None:
                h = fi.cls.find_method(name)
                if h is not None and any(name in sub.methods for sub in fi.cls.all_subclasses()):
                    return None
                if h is not None and h.cls is not None and h.cls is not fi.cls and any(name in sub.methods for sub in h.cls.all_subclasses()):
                    return None
            else:
                q = self.repo.resolve_name(fi.module, recv)
                ci = self.repo.classes.get(q or "")
                if ci is not None:
                    h = ci.find_method(name)
                    if h is not None and not (h.is_staticmethod or h.is_classmethod):
                        return None
                    if h is not None and any(name in sub.methods for sub in ci.all_subclasses()):
                        return None
            if h is None and recv not in ("self", "cls") and self.repo.resolve_name(fi.module, recv) is None:
                # `choice.accepts(...)` on some object: a method name that exists exactly once in the repository and is not part of the pinned
                # tree is a helper extracted onto that object's class
                cands = self._by_method_name().get(name, [])
                if len(cands) == 1 and cands[0].qual not in known_functions() and not (cands[0].is_staticmethod or cands[0].is_classmethod):
                    h = cands[0]
        elif isinstance(f, ast.Name):
            h = self.repo.functions.get(f"{fi.module.name}:{name}")
            if h is None and name in self._nested_defs(fi):
                # a local closure (`def convert(raw): return ...` inside the function) that is only called, never passed around or rebound
                nested = [n for n in _walk_own(fi.node) if isinstance(n, ast.FunctionDef) and n.name == name]
                other_uses = [n for n in ast.walk(fi.node) if isinstance(n, ast.Name) and n.id == name and not any(n is c.func for c in ast.walk(fi.node) if isinstance(c, ast.Call))]
                if len(nested) == 1 and not other_uses and not nested[0].decorator_list and not any(isinstance(x, (ast.Nonlocal, ast.Global)) for x in ast.walk(nested[0])) \
                        and not any(isinstance(c, ast.Call) and isinstance(c.func, ast.Name) and c.func.id == name for c in ast.walk(nested[0])):
                    from .model import FuncInfo as _FI
                    h = _FI(qual=f"{fi.qual}.<locals>.{name}", module=fi.module, cls=None, node=nested[0], name=name)
        if h is None or h.qual == fi.qual or h.qual in self.stack:
            return None
        if not private and h.qual in known_functions():
            return None  # a function of the pinned tree: part of the design the rules were confirmed against, analysed in place
        if isinstance(h.node, ast.AsyncFunctionDef) or h.is_property:
            return None
        is_cm = any(d in ("contextmanager", "contextlib.contextmanager") for d in h.decorators)
        if is_cm != cm:
            return None
        if any(d not in ("staticmethod", "classmethod", "contextmanager", "contextlib.contextmanager") for d in h.decorators):
            return None
        a = h.node.args
        if a.vararg or a.kwarg:
            return None
        return h

    def _bind(self, fi: "FuncInfo", h: "FuncInfo", call: ast.Call) -> dict[str, ast.expr] | None:
        """Parameter name -> argument expression (receiver included)."""
        a = h.node.args
        pos = [*a.posonlyargs, *a.args]
        out: dict[str, ast.expr] = {}
        if h.cls is not None and not h.is_staticmethod:
            if not pos:
                return None
            recv = call.func.value if isinstance(call.func, ast.Attribute) else None
            first = pos[0].arg
            pos = pos[1:]
            if isinstance(recv, ast.Name) and recv.id in ("self", "cls"):
                if h.is_classmethod and recv.id == "self":
                    out[first] = ast.Attribute(value=ast.Name(id="self", ctx=ast.Load()), attr="__class__", ctx=ast.Load())
                else:
                    out[first] = ast.Name(id=recv.id, ctx=ast.Load())
            elif recv is not None:
                out[first] = copy.deepcopy(recv)
            else:
                return None
        if len(call.args) > len(pos):
            return None
        for p, v in zip(pos, call.args):
            out[p.arg] = v
        names = {p.arg for p in [*pos, *a.kwonlyargs]}
        for k in call.keywords:
            if k.arg not in names or k.arg in out:
                return None
            out[k.arg] = k.value
        defaults = h.param_defaults()
        for p in [*pos, *a.kwonlyargs]:
            if p.arg not in out:
                if p.arg not in defaults:
                    return None
                out[p.arg] = defaults[p.arg]
        return out

    # ------------------------------------------------------------------ driver
    def run(self) -> None:
        for fi in list(self.repo.functions.values()):
            self.inline_function(fi)

    def inline_function(self, fi: "FuncInfo", depth: int = 0) -> None:
        if fi.qual in self.done or depth > MAX_DEPTH:
            return
        self.done.add(fi.qual)
        calls = [n for n in _walk_own(fi.node) if isinstance(n, ast.Call)]
        if not any(self._helper_for(fi, c) is not None or self._helper_for(fi, c, cm=True) is not None for c in calls):
            return
        self.stack.append(fi.qual)
        try:
            before = (self.stats["expression"], self.stats["statement"])
            fi.node.body = self._rewrite_block(fi, fi.node.body, depth)
            if (self.stats["expression"], self.stats["statement"]) != before:
                self.stats["callers"] += 1
                ast.fix_missing_locations(fi.node)
                for attr in ("_xsa_cfg", "_xsa_asrc"):
                    if hasattr(fi.node, attr):
                        delattr(fi.node, attr)
        finally:
            self.stack.pop()

    # ------------------------------------------------------------------ expression helpers
    def _expr_helper(self, h: "FuncInfo") -> ast.expr | None:
        body = _body_without_doc(h.node)
        if not body or not isinstance(body[-1], ast.Return) or body[-1].value is None or _is_generator(h.node):
            return None
        # straight-line temporaries followed by one return: fold the temporaries into the returned expression
        temps: dict[str, ast.expr] = {}
        params = {a.arg for a in [*h.node.args.posonlyargs, *h.node.args.args, *h.node.args.kwonlyargs]}
        for st in body[:-1]:
            if isinstance(st, ast.AnnAssign) and isinstance(st.target, ast.Name) and st.value is not None:
                name, value = st.target.id, st.value
            elif isinstance(st, ast.Assign) and len(st.targets) == 1 and isinstance(st.targets[0], ast.Name):
                name, value = st.targets[0].id, st.value
            else:
                return None
            if name in temps or name in params:
                return None
            temps[name] = _Subst(dict(temps)).visit(copy.deepcopy(value))
        return _Subst(dict(temps)).visit(copy.deepcopy(body[-1].value)) if temps else body[-1].value

    def _subst_expressions(self, fi: "FuncInfo", node: ast.AST, depth: int) -> ast.AST:
        """Replace calls to expression helpers inside ``node`` (any position)."""
        inl = self

        class T(ast.NodeTransformer):
            def visit_FunctionDef(self, n):  # do not enter nested defs
                return n

            visit_AsyncFunctionDef = visit_FunctionDef
            visit_ClassDef = visit_FunctionDef

            def visit_Call(self, c: ast.Call) -> ast.AST:
                self.generic_visit(c)
                h = inl._helper_for(fi, c)
                if h is None:
                    return c
                inl.inline_function(h, depth + 1)
                expr = inl._expr_helper(h)
                if expr is None:
                    return c
                bind = inl._bind(fi, h, c)
                if bind is None:
                    return c
                uses: dict[str, int] = {}
                for x in ast.walk(expr):
                    if isinstance(x, ast.Name):
                        uses[x.id] = uses.get(x.id, 0) + 1
                for p, v in bind.items():
                    if uses.get(p, 0) > 1 and not _simple_arg(v):
                        return c
                # names bound inside the helper expression (comprehension variables) must not capture caller names used in the arguments
                inner_bound = {x.id for x in ast.walk(expr) if isinstance(x, ast.Name) and isinstance(x.ctx, ast.Store)} | {x.arg for x in ast.walk(expr) if isinstance(x, ast.arg)}
                arg_names: set[str] = set()
                for v in bind.values():
                    arg_names |= _all_names(v)
                if inner_bound & (arg_names | set(bind)):
                    return c
                new = _Subst(dict(bind)).visit(copy.deepcopy(expr))
                for sub in ast.walk(new):
                    if not hasattr(sub, "_xsa_origin"):
                        sub._xsa_origin = h.qual  # type: ignore[attr-defined]
                inl.stats["expression"] += 1
                inl.sites[h.qual] = inl.sites.get(h.qual, 0) + 1
                return ast.copy_location(new, c)

        return T().visit(node)

    # ------------------------------------------------------------------ statement helpers
    def _stmt_call(self, st: ast.stmt) -> tuple[ast.Call, str] | None:
        """The call of a statement that sits in a spliceable position, with the position kind."""
        if isinstance(st, ast.Expr):
            if isinstance(st.value, ast.Call):
                return st.value, "expr"
            if isinstance(st.value, ast.YieldFrom) and isinstance(st.value.value, ast.Call):
                return st.value.value, "yieldfrom"
            if isinstance(st.value, ast.Yield) and isinstance(st.value.value, ast.Call):
                return st.value.value, "yieldvalue"  # `yield helper(x)`: the helper computes the yielded value
        if isinstance(st, (ast.Assign, ast.AnnAssign, ast.AugAssign, ast.Return)) and isinstance(st.value, ast.Call):
            return st.value, "value"
        if isinstance(st, ast.If):
            t = st.test
            if isinstance(t, ast.UnaryOp) and isinstance(t.op, ast.Not):
                t = t.operand
            if isinstance(t, ast.Call):
                return t, "test"
        if isinstance(st, ast.For) and isinstance(st.iter, ast.Call):
            return st.iter, "forgen"
        if isinstance(st, ast.With) and len(st.items) == 1 and isinstance(st.items[0].context_expr, ast.Call):
            return st.items[0].context_expr, "withcm"
        return None

    def _collector(self, st: ast.stmt) -> tuple[str, str, ast.Call] | None:
        """`x = dict(helper(...))` / list / set / tuple / sorted?? no: only the plain collectors -> (x, collector, helper call)."""
        if isinstance(st, ast.Expr) and isinstance(st.value, ast.Call) and isinstance(st.value.func, ast.Attribute) and st.value.func.attr in ("update", "extend") \
                and isinstance(st.value.func.value, ast.Name) and len(st.value.args) == 1 and not st.value.keywords and isinstance(st.value.args[0], ast.Call):
            # `result.update(helper(...))` / `items.extend(helper(...))`: the yields go into the existing container
            nm = st.value.func.value.id
            if any(isinstance(x, ast.Name) and x.id == nm for x in ast.walk(st.value.args[0])):
                return None
            return nm, "dict+" if st.value.func.attr == "update" else "list+", st.value.args[0]
        if isinstance(st, ast.Assign) and len(st.targets) == 1:
            tgt, v = st.targets[0], st.value
        elif isinstance(st, ast.AnnAssign) and st.value is not None:
            tgt, v = st.target, st.value
        else:
            return None
        if not isinstance(tgt, ast.Name) or not isinstance(v, ast.Call) or not isinstance(v.func, ast.Name) or v.func.id not in ("dict", "list", "set") \
                or len(v.args) != 1 or v.keywords or not isinstance(v.args[0], ast.Call):
            return None
        if any(isinstance(x, ast.Name) and x.id == tgt.id for x in ast.walk(v.args[0])):
            return None
        return tgt.id, v.func.id, v.args[0]

    def _splice(self, fi: "FuncInfo", st: ast.stmt, call: ast.Call, kind: str, depth: int) -> list[ast.stmt] | None:
        h = self._helper_for(fi, call, cm=kind == "withcm")
        if h is None:
            return None
        self.inline_function(h, depth + 1)
        gen = _is_generator(h.node)
        returns_iterable = False
        if kind == "yieldfrom" and not gen:
            # `yield from helper(...)` where the helper is an ordinary function that returns the iterable (`return itertools.chain(...)`):
            # spliced with its final `return E` read as `yield from E`
            hb = _body_without_doc(h.node)
            rets = [n for n in _walk_own(h.node) if isinstance(n, ast.Return)]
            if hb and isinstance(hb[-1], ast.Return) and hb[-1].value is not None and len(rets) == 1:
                returns_iterable = True
        if gen != (kind in ("yieldfrom", "forgen", "collect", "withcm")) and not returns_iterable:
            return None
        if kind == "withcm":
            # `with helper(): BODY` for a @contextmanager helper runs BODY at the helper's single yield
            ys = [n for n in _walk_own(h.node) if isinstance(n, (ast.Yield, ast.YieldFrom))]
            stmt_ys = [n for n in _walk_own(h.node) if isinstance(n, ast.Expr) and isinstance(n.value, ast.Yield)]
            if len(ys) != 1 or len(stmt_ys) != 1:
                return None
        if kind == "collect":
            # `x = dict(helper(...))`: the generator helper's `yield k, v` is `x[k] = v` (list: append, set: add), after `x = {}`
            target_name, collector, _ = self._collector(st)  # type: ignore[misc]
            ys = [n for n in _walk_own(h.node) if isinstance(n, (ast.Yield, ast.YieldFrom))]
            stmt_ys = [n for n in _walk_own(h.node) if isinstance(n, ast.Expr) and isinstance(n.value, ast.Yield) and n.value.value is not None]
            if not ys or len(ys) != len(stmt_ys) or any(isinstance(y, ast.YieldFrom) for y in ys):
                return None
            into = collector.endswith("+")
            collector = collector.rstrip("+")
            if collector == "dict" and not all(isinstance(n.value.value, ast.Tuple) and len(n.value.value.elts) == 2 for n in stmt_ys):  # type: ignore[union-attr]
                return None
            if target_name in _all_names(h.node):
                return None
        if kind == "forgen":
            # `for x in helper(...): BODY` over a lazy generator helper runs BODY at the helper's yield: splice the helper with `yield E` -> `x = E; BODY`
            ys = [n for n in _walk_own(h.node) if isinstance(n, (ast.Yield, ast.YieldFrom))]
            stmt_ys = [n for n in _walk_own(h.node) if isinstance(n, ast.Expr) and isinstance(n.value, ast.Yield) and n.value.value is not None]
            if not ys or len(ys) != len(stmt_ys) or len(ys) > 6 or any(isinstance(y, ast.YieldFrom) for y in ys) \
                    or (len(ys) > 1 and len(ys) * sum(1 for b in st.body for _ in ast.walk(b)) > 600):  # type: ignore[attr-defined]
                return None

            def _tail_loop_shape() -> ast.stmt | None:
                if len(ys) != 1:
                    return None
                """The helper is `<setup>; for/while ...: <...>; yield E` with the yield in tail position of the loop body (nested only in
                ifs): then break / continue / else of the consuming loop mean the same on the helper's loop."""
                hb = _body_without_doc(h.node)
                if not hb or not isinstance(hb[-1], (ast.For, ast.While)) or hb[-1].orelse:
                    return None
                if any(isinstance(x, (ast.Yield, ast.YieldFrom)) for b in hb[:-1] for x in ast.walk(b)):
                    return None
                blk = hb[-1].body
                while True:
                    last = blk[-1]
                    if any(isinstance(x, (ast.Yield, ast.YieldFrom)) for b in blk[:-1] for x in ast.walk(b)):
                        return None
                    if last is stmt_ys[0]:
                        return hb[-1]
                    if isinstance(last, ast.If) and not last.orelse:
                        blk = last.body
                        continue
                    return None

            tail_loop = _tail_loop_shape()
            if st.orelse and tail_loop is None:  # type: ignore[attr-defined]
                return None

            def _loop_level_jumps(stmts: list[ast.stmt]) -> bool:
                for x in stmts:
                    if isinstance(x, (ast.Break, ast.Continue)):
                        return True
                    if isinstance(x, (ast.For, ast.While, ast.AsyncFor, ast.FunctionDef, ast.AsyncFunctionDef, ast.ClassDef)):
                        continue
                    for f_ in ("body", "orelse", "finalbody"):
                        if _loop_level_jumps([y for y in getattr(x, f_, []) or [] if isinstance(y, ast.stmt)]):
                            return True
                    for hd in getattr(x, "handlers", []) or []:
                        if _loop_level_jumps(hd.body):
                            return True
                    for cs in getattr(x, "cases", []) or []:
                        if _loop_level_jumps(cs.body):
                            return True
                return False

            if _loop_level_jumps(st.body) and tail_loop is None:  # type: ignore[attr-defined]
                return None
        bind = self._bind(fi, h, call)
        if bind is None:
            return None
        self.counter += 1
        k = self.counter
        body = copy.deepcopy(_body_without_doc(h.node))
        holder = ast.Module(body=body, type_ignores=[])
        caller_names = _all_names(fi.node) | self.introduced.get(fi.qual, set())  # incl. names brought in by earlier splices into this function
        helper_bound = _bound_names(h.node)
        params = [*h.node.args.posonlyargs, *h.node.args.args, *h.node.args.kwonlyargs]
        ann = {p.arg: p.annotation for p in params}
        stored = {n.id for n in _walk_own(holder) if isinstance(n, ast.Name) and isinstance(n.ctx, (ast.Store, ast.Del))}
        rename: dict[str, ast.expr | str] = {}
        binds: list[ast.stmt] = []
        for p, v in bind.items():
            same = isinstance(v, ast.Name) and v.id == p
            if same and p not in stored:
                continue
            target = p
            if p in caller_names and not same or (same and p in stored):
                target = f"{p}__i{k}"
                rename[p] = target
            tgt = ast.Name(id=target, ctx=ast.Store())
            if ann.get(p) is not None:
                binds.append(ast.AnnAssign(target=tgt, annotation=copy.deepcopy(ann[p]), value=copy.deepcopy(v), simple=1))
            else:
                binds.append(ast.Assign(targets=[tgt], value=copy.deepcopy(v)))
            binds[-1]._xsa_param_bind = True  # type: ignore[attr-defined]
        for name in helper_bound - set(bind):
            if name in caller_names:
                rename[name] = f"{name}__i{k}"
        if rename:
            holder = _Subst(rename).visit(holder)
        self.introduced.setdefault(fi.qual, set()).update({(rename.get(nm, nm) if isinstance(rename.get(nm, nm), str) else nm) for nm in (helper_bound | set(bind))})
        ret_name = f"__ret_{k}"
        as_condition = kind == "test"

        class R(ast.NodeTransformer):
            def visit_FunctionDef(self, n):
                return n

            visit_AsyncFunctionDef = visit_FunctionDef
            visit_ClassDef = visit_FunctionDef
            visit_Lambda = visit_FunctionDef

            def visit_Return(self, r: ast.Return) -> ast.AST:
                if returns_iterable:
                    return ast.copy_location(ast.Expr(value=ast.copy_location(ast.YieldFrom(value=r.value), r)), r)

                def jump(v: ast.expr) -> ast.Assign:
                    a = ast.Assign(targets=[ast.Name(id=ret_name, ctx=ast.Store())], value=v)
                    a._xsa_jump = k  # type: ignore[attr-defined]
                    ast.copy_location(a, r)
                    ast.copy_location(a.targets[0], r)
                    if not hasattr(v, "lineno"):
                        ast.copy_location(v, r)
                    return a

                v = r.value or ast.Constant(value=None)
                if as_condition and not isinstance(v, ast.Constant):
                    # the result is only tested: `return E` is `if E: return True / else: return False`, which keeps the decision in the
                    # control flow (every atomic test of E becomes a test of the caller)
                    return ast.copy_location(ast.If(test=v, body=[jump(ast.Constant(value=True))], orelse=[jump(ast.Constant(value=False))]), r)
                return jump(v)

        holder = R().visit(holder)
        if kind == "forgen":
            loop: ast.For = st  # type: ignore[assignment]

            class Y(ast.NodeTransformer):
                def visit_FunctionDef(self, n):
                    return n

                visit_AsyncFunctionDef = visit_FunctionDef
                visit_ClassDef = visit_FunctionDef
                visit_Lambda = visit_FunctionDef

                def visit_Expr(self, e: ast.Expr):
                    if not (isinstance(e.value, ast.Yield) and e.value.value is not None):
                        return e
                    v = e.value.value
                    tgt = loop.target
                    if isinstance(tgt, ast.Tuple) and isinstance(v, ast.Tuple) and len(tgt.elts) == len(v.elts) and all(isinstance(t, ast.Name) for t in tgt.elts) \
                            and not ({t.id for t in tgt.elts} & {x.id for x in ast.walk(v) if isinstance(x, ast.Name)}):
                        binds_ = [ast.copy_location(ast.Assign(targets=[copy.deepcopy(t)], value=x), e) for t, x in zip(tgt.elts, v.elts)]
                    else:
                        binds_ = [ast.copy_location(ast.Assign(targets=[copy.deepcopy(tgt)], value=v), e)]
                    self.n = getattr(self, "n", 0) + 1
                    return [*binds_, *(loop.body if self.n == 1 else copy.deepcopy(loop.body))]

            holder = Y().visit(holder)
            if loop.orelse:
                # exhaustion of the generator = normal end of the helper's (last) loop
                holder.body[-1].orelse = list(loop.orelse)
        if kind == "withcm":
            with_st: ast.With = st  # type: ignore[assignment]

            class YW(ast.NodeTransformer):
                def visit_FunctionDef(self, n):
                    return n

                visit_AsyncFunctionDef = visit_FunctionDef
                visit_ClassDef = visit_FunctionDef
                visit_Lambda = visit_FunctionDef

                def visit_Expr(self, e: ast.Expr):
                    if not isinstance(e.value, ast.Yield):
                        return e
                    pre: list[ast.stmt] = []
                    tgt = with_st.items[0].optional_vars
                    if tgt is not None:
                        pre = [ast.copy_location(ast.Assign(targets=[copy.deepcopy(tgt)], value=e.value.value or ast.Constant(value=None)), e)]
                        ast.fix_missing_locations(pre[0])
                    return [*pre, *with_st.body]

            holder = YW().visit(holder)
        if kind == "collect":
            class YC(ast.NodeTransformer):
                def visit_FunctionDef(self, n):
                    return n

                visit_AsyncFunctionDef = visit_FunctionDef
                visit_ClassDef = visit_FunctionDef
                visit_Lambda = visit_FunctionDef

                def visit_Expr(self, e: ast.Expr):
                    if not (isinstance(e.value, ast.Yield) and e.value.value is not None):
                        return e
                    v = e.value.value
                    x = ast.Name(id=target_name, ctx=ast.Load())
                    if collector == "dict":
                        new_ = ast.Assign(targets=[ast.Subscript(value=x, slice=v.elts[0], ctx=ast.Store())], value=v.elts[1])  # type: ignore[attr-defined]
                    else:
                        new_ = ast.Expr(value=ast.Call(func=ast.Attribute(value=x, attr="append" if collector == "list" else "add", ctx=ast.Load()), args=[v], keywords=[]))
                    return ast.fix_missing_locations(ast.copy_location(new_, e))

            holder = YC().visit(holder)
        block = ast.If(test=ast.Constant(value=True), body=[*binds, *holder.body] or [ast.Pass()], orelse=[])
        block._xsa_inline = k  # type: ignore[attr-defined]
        block._xsa_helper = h.qual  # type: ignore[attr-defined]
        loop_nodes = {id(x) for b_ in st.body for x in ast.walk(b_)} if kind in ("forgen", "withcm") else set()  # type: ignore[attr-defined]
        for sub in ast.walk(holder):
            if not hasattr(sub, "_xsa_origin") and id(sub) not in loop_nodes:
                sub._xsa_origin = h.qual  # type: ignore[attr-defined]
        ast.copy_location(block, st)
        for b in binds:
            ast.copy_location(b, st)
        out: list[ast.stmt] = [block]
        if kind == "collect" and into:
            pass
        elif kind == "collect":
            empty: ast.expr = ast.Dict(keys=[], values=[]) if collector == "dict" else (ast.List(elts=[], ctx=ast.Load()) if collector == "list" else ast.Call(func=ast.Name(id="set", ctx=ast.Load()), args=[], keywords=[]))
            st.value = ast.copy_location(empty, st.value)  # type: ignore[union-attr]
            ast.fix_missing_locations(st)
            out.insert(0, st)
        elif kind in ("expr", "yieldfrom", "forgen", "withcm"):
            pass
        else:
            has_value = any(isinstance(n, ast.Return) and n.value is not None for n in _walk_own(h.node))
            repl: ast.expr = ast.Name(id=ret_name, ctx=ast.Load()) if has_value else ast.Constant(value=None)
            ast.copy_location(repl, call)
            if kind == "value":
                st.value = repl  # type: ignore[union-attr]
            elif kind == "yieldvalue":
                st.value.value = repl  # type: ignore[union-attr]
            else:
                t = st.test  # type: ignore[union-attr]
                if isinstance(t, ast.UnaryOp):
                    t.operand = repl
                else:
                    st.test = repl  # type: ignore[union-attr]
            out.append(st)
        self.stats["statement"] += 1
        self.sites[h.qual] = self.sites.get(h.qual, 0) + 1
        return out

    def _rewrite_block(self, fi: "FuncInfo", body: list[ast.stmt], depth: int) -> list[ast.stmt]:
        out: list[ast.stmt] = []
        for st in body:
            if isinstance(st, (ast.FunctionDef, ast.AsyncFunctionDef, ast.ClassDef)):
                out.append(st)
                continue
            # 0. `if a and helper(x): body` (no else) is `if a: if helper(x): body`: gives the helper call a statement of its own to be spliced at
            if isinstance(st, ast.If) and not st.orelse and isinstance(st.test, ast.BoolOp) and isinstance(st.test.op, ast.And) and not hasattr(st, "_xsa_inline"):
                def _is_helper_call(v: ast.expr) -> bool:
                    while isinstance(v, ast.UnaryOp) and isinstance(v.op, ast.Not):
                        v = v.operand
                    if not isinstance(v, ast.Call):
                        return False
                    h_ = self._helper_for(fi, v)
                    return h_ is not None and not _is_generator(h_.node) and self._expr_helper(h_) is None

                if any(_is_helper_call(v) for v in st.test.values):
                    inner_body = st.body
                    for v in reversed(st.test.values[1:]):
                        nested = ast.copy_location(ast.If(test=v, body=inner_body, orelse=[]), st)
                        inner_body = [nested]
                    st.test = st.test.values[0]
                    st.body = inner_body
            # 1. expression helpers anywhere in the statement's own expressions
            for field, value in list(ast.iter_fields(st)):
                if isinstance(value, ast.expr):
                    setattr(st, field, self._subst_expressions(fi, value, depth))
                elif isinstance(value, list) and value and isinstance(value[0], ast.expr):
                    setattr(st, field, [self._subst_expressions(fi, v, depth) for v in value])
                elif isinstance(value, list) and value and isinstance(value[0], ast.withitem):
                    for w in value:
                        w.context_expr = self._subst_expressions(fi, w.context_expr, depth)
            # 2. nested blocks
            for field in ("body", "orelse", "finalbody"):
                sub = getattr(st, field, None)
                if isinstance(sub, list) and sub and isinstance(sub[0], ast.stmt):
                    setattr(st, field, self._rewrite_block(fi, sub, depth))
            for hnd in getattr(st, "handlers", []) or []:
                hnd.body = self._rewrite_block(fi, hnd.body, depth)
            for case in getattr(st, "cases", []) or []:
                case.body = self._rewrite_block(fi, case.body, depth)
            # 3. statement-level splice
            col = self._collector(st)
            sc = (col[2], "collect") if col is not None else self._stmt_call(st)
            spliced = self._splice(fi, st, sc[0], sc[1], depth) if sc is not None else None
            if spliced is None and col is not None:
                sc = self._stmt_call(st)
                spliced = self._splice(fi, st, sc[0], sc[1], depth) if sc is not None else None
            if spliced is None:
                # 4. a helper call that is evaluated first inside a larger expression (`self.build_x(a).run(b)`, `f(self.build_x(a), b)`) is
                #    given a temporary of its own, then spliced like any `tmp = helper(...)`
                hoisted = self._hoist_first_call(fi, st)
                if hoisted is not None:
                    pre, st2 = hoisted
                    sp = self._splice(fi, pre, pre.value, "value", depth)
                    if sp is not None:
                        out.extend(sp)
                        out.append(st2)
                        continue
                    # not spliceable after all: undo
                    self._unhoist(st2, pre)
                out.append(st)
            else:
                out.extend(spliced)
        return out

    def _first_evaluated_call(self, e: ast.expr) -> ast.Call | None:
        """The call that runs first when ``e`` is evaluated, if it sits in receiver / first-argument position of the outer call."""
        if not isinstance(e, ast.Call):
            return None
        f = e.func
        # receiver chain: h(...).m(...)  /  h(...).attr.m(...)
        cur = f
        while isinstance(cur, ast.Attribute):
            cur = cur.value
        if isinstance(cur, ast.Call):
            return cur
        if isinstance(cur, ast.Name) or isinstance(f, ast.Attribute):
            for a in e.args:
                if isinstance(a, ast.Call):
                    return a
                if not isinstance(a, (ast.Name, ast.Attribute, ast.Constant)):
                    return None
        return None

    def _hoist_first_call(self, fi: "FuncInfo", st: ast.stmt):
        if isinstance(st, ast.Expr):
            root = st.value
        elif isinstance(st, (ast.Assign, ast.AnnAssign, ast.Return)) and st.value is not None:
            root = st.value
        else:
            return None
        if isinstance(root, (ast.Yield, ast.YieldFrom, ast.Await)):
            return None
        inner = self._first_evaluated_call(root)
        if inner is None:
            return None
        h = self._helper_for(fi, inner)
        if h is None or _is_generator(h.node) or self._expr_helper(h) is not None:
            return None
        self.counter += 1
        name = f"__call_{self.counter}"
        pre = ast.Assign(targets=[ast.Name(id=name, ctx=ast.Store())], value=inner, type_comment=None)
        ast.copy_location(pre, st)
        ast.copy_location(pre.targets[0], st)
        repl = ast.copy_location(ast.Name(id=name, ctx=ast.Load()), inner)

        class T(ast.NodeTransformer):
            def visit_Call(self, c: ast.Call):
                if c is inner:
                    return repl
                return self.generic_visit(c)

        T().visit(st)
        st._xsa_hoisted = (repl, inner)  # type: ignore[attr-defined]
        return pre, st

    def _unhoist(self, st: ast.stmt, pre: ast.Assign) -> None:
        repl, inner = st._xsa_hoisted  # type: ignore[attr-defined]

        class T(ast.NodeTransformer):
            def visit_Name(self, n: ast.Name):
                return inner if n is repl else n

        T().visit(st)


class _IfExpToIf(ast.NodeTransformer):
    """``x = a if c else b`` / ``return a if c else b`` / ``x op= a if c else b`` / ``yield a if c else b`` become if/else
    statements, so that a conditional expression and the equivalent if/else statement are one and the same to every rule
    (the CFG atomises the condition, control dependence applies to each arm)."""

    def __init__(self) -> None:
        self.count = 0

    def _split(self, st: ast.stmt, value: ast.IfExp, make) -> ast.If:
        self.count += 1
        a, b = make(value.body), make(value.orelse)
        new = ast.If(test=value.test, body=[self.visit(ast.copy_location(a, st))], orelse=[self.visit(ast.copy_location(b, st))])
        new._xsa_ifexp = True  # type: ignore[attr-defined]
        return ast.copy_location(new, st)

    def visit_FunctionDef(self, node):
        self.generic_visit(node)
        return node

    def _flatten(self, x):
        return x

    @staticmethod
    def _arg_ifexp(call: ast.expr | None) -> ast.IfExp | None:
        """`f(a, X if c else Y)`: a conditional expression that is an argument of the statement's call, everything evaluated before it being a
        plain name / attribute / constant (so that testing `c` first changes nothing)."""
        if not isinstance(call, ast.Call):
            return None

        def simple(e: ast.expr) -> bool:
            while isinstance(e, ast.Attribute):
                e = e.value
            return isinstance(e, (ast.Name, ast.Constant))

        if not simple(call.func):
            return None
        for a in [*call.args, *[k.value for k in call.keywords]]:
            if isinstance(a, ast.IfExp):
                return a if not any(isinstance(n, (ast.NamedExpr, ast.Yield, ast.YieldFrom, ast.Await)) for n in ast.walk(call)) else None
            if not simple(a):
                return None
        return None

    def _split_arg(self, st: ast.stmt, ife: ast.IfExp) -> ast.If:
        def variant(v: ast.expr) -> ast.stmt:
            class T(ast.NodeTransformer):
                def visit_IfExp(self, n: ast.IfExp):
                    return v if n is ife else self.generic_visit(n)

            # copy everything but the conditional expression itself (kept by identity for the replacement)
            memo = {id(ife): ife}
            new = copy.deepcopy(st, memo)
            return T().visit(new)

        self.count += 1
        a, b = variant(ife.body), variant(ife.orelse)
        new = ast.If(test=ife.test, body=[self.visit(a)], orelse=[self.visit(b)])
        new._xsa_ifexp = True  # type: ignore[attr-defined]
        return ast.copy_location(new, st)

    def visit_Assign(self, st: ast.Assign):
        if isinstance(st.value, ast.IfExp) and not any(isinstance(n, (ast.NamedExpr, ast.Yield, ast.YieldFrom, ast.Await)) for n in ast.walk(st)):
            return self._split(st, st.value, lambda v: ast.Assign(targets=copy.deepcopy(st.targets), value=v))
        ife = self._arg_ifexp(st.value) if all(isinstance(t, ast.Name) for t in st.targets) else None
        if ife is not None:
            return self._split_arg(st, ife)
        return st

    def visit_AnnAssign(self, st: ast.AnnAssign):
        if isinstance(st.value, ast.IfExp) and isinstance(st.target, ast.Name):
            return self._split(st, st.value, lambda v: ast.AnnAssign(target=copy.deepcopy(st.target), annotation=copy.deepcopy(st.annotation), value=v, simple=st.simple))
        return st

    def visit_AugAssign(self, st: ast.AugAssign):
        if isinstance(st.value, ast.IfExp):
            return self._split(st, st.value, lambda v: ast.AugAssign(target=copy.deepcopy(st.target), op=st.op, value=v))
        return st

    def visit_Return(self, st: ast.Return):
        if isinstance(st.value, ast.IfExp):
            return self._split(st, st.value, lambda v: ast.Return(value=v))
        ife = self._arg_ifexp(st.value)
        if ife is not None:
            return self._split_arg(st, ife)
        return st

    def visit_Expr(self, st: ast.Expr):
        if isinstance(st.value, ast.Yield) and isinstance(st.value.value, ast.IfExp):
            return self._split(st, st.value.value, lambda v: ast.Expr(value=ast.Yield(value=v)))
        ife = self._arg_ifexp(st.value)
        if ife is not None:
            return self._split_arg(st, ife)
        return st

    def visit_Lambda(self, node):
        return node


def unroll_display_loops(fn: ast.AST, module_displays: dict[str, ast.expr] | None = None) -> int:
    """``for x in (a, b, c): body`` (the display written in place, or named by a local that is used for nothing else) becomes
    ``x = a; body; x = b; body; x = c; body``: a short fixed sequence written as a loop over a literal and the same sequence written out are
    one and the same to every rule.  Only loops without break / continue / else, a plain name as target and at most 10 items."""
    count = 0
    uses: dict[str, int] = {}
    defs: dict[str, list[ast.Assign]] = {}
    for n in _walk_own(fn):
        if isinstance(n, ast.Name):
            if isinstance(n.ctx, ast.Load):
                uses[n.id] = uses.get(n.id, 0) + 1
            else:
                defs.setdefault(n.id, [])
        if isinstance(n, ast.Assign) and len(n.targets) == 1 and isinstance(n.targets[0], ast.Name):
            defs.setdefault(n.targets[0].id, []).append(n)
        elif isinstance(n, ast.AnnAssign) and isinstance(n.target, ast.Name) and n.value is not None:
            defs.setdefault(n.target.id, []).append(n)
    stores_n: dict[str, int] = {}
    for n in _walk_own(fn):
        if isinstance(n, ast.Name) and isinstance(n.ctx, (ast.Store, ast.Del)):
            stores_n[n.id] = stores_n.get(n.id, 0) + 1

    def display_of(it: ast.expr) -> tuple[ast.expr | None, ast.Assign | None]:
        if isinstance(it, (ast.Tuple, ast.List)):
            return it, None
        if isinstance(it, ast.Name) and module_displays and it.id in module_displays and stores_n.get(it.id, 0) == 0:
            return copy.deepcopy(module_displays[it.id]), None  # a module-level constant tuple / list
        if isinstance(it, ast.Name) and uses.get(it.id, 0) == 1 and stores_n.get(it.id, 0) == 1 and len(defs.get(it.id, [])) == 1 and isinstance(defs[it.id][0].value, (ast.Tuple, ast.List)):
            return defs[it.id][0].value, defs[it.id][0]
        return None, None

    def process(body: list[ast.stmt]) -> list[ast.stmt]:
        nonlocal count
        out: list[ast.stmt] = []
        drop: set[int] = set()
        for st in body:
            for field in ("body", "orelse", "finalbody"):
                sub = getattr(st, field, None)
                if isinstance(sub, list) and sub and isinstance(sub[0], ast.stmt) and not isinstance(st, (ast.FunctionDef, ast.AsyncFunctionDef, ast.ClassDef)):
                    setattr(st, field, process(sub))
            for h in getattr(st, "handlers", []) or []:
                h.body = process(h.body)
            tuple_target = isinstance(st, ast.For) and isinstance(st.target, (ast.Tuple, ast.List)) and all(isinstance(t, ast.Name) for t in st.target.elts)
            if isinstance(st, ast.For) and (isinstance(st.target, ast.Name) or tuple_target) and not st.orelse:
                disp, named = display_of(st.iter)
                if disp is not None and tuple_target and not all(isinstance(e, (ast.Tuple, ast.List)) and len(e.elts) == len(st.target.elts) and not any(isinstance(x, ast.Starred) for x in e.elts)
                                                                  for e in disp.elts):
                    disp = None
                if disp is not None and 0 < len(disp.elts) <= 10 and not any(isinstance(e, ast.Starred) for e in disp.elts) and len(st.body) * len(disp.elts) <= 80 \
                        and not any(isinstance(x, (ast.Break, ast.Continue, ast.Yield, ast.YieldFrom, ast.FunctionDef, ast.Lambda)) for b in st.body for x in ast.walk(b)) \
                        and (named is None or named in body):
                    if named is not None:
                        drop.add(id(named))
                    for e in disp.elts:
                        pairs = list(zip(st.target.elts, e.elts)) if tuple_target else [(st.target, e)]
                        for t_, v_ in pairs:
                            a = ast.Assign(targets=[ast.Name(id=t_.id, ctx=ast.Store())], value=v_, type_comment=None)
                            ast.copy_location(a, st)
                            ast.copy_location(a.targets[0], st)
                            a._xsa_unrolled = True  # type: ignore[attr-defined]
                            out.append(a)
                        body_copy = copy.deepcopy(st.body)
                        # the loop variable is a plain name / attribute / constant in this round: read it as such
                        body_stores = {x.id for b in st.body for x in ast.walk(b) if isinstance(x, ast.Name) and isinstance(x.ctx, (ast.Store, ast.Del))}
                        simple = {t_.id: v_ for t_, v_ in pairs if _simple_arg(v_) and t_.id not in body_stores
                                  and not any(isinstance(x, ast.Name) and x.id in body_stores for x in ast.walk(v_))}
                        if simple and not any(isinstance(x, (ast.Lambda, ast.GeneratorExp, ast.ListComp, ast.SetComp, ast.DictComp)) for b in st.body for x in ast.walk(b)):
                            body_copy = [_Subst({k_: copy.deepcopy(v_) for k_, v_ in simple.items()}).visit(b) for b in body_copy]
                        out.extend(body_copy)
                    count += 1
                    continue
            out.append(st)
        return [s_ for s_ in out if id(s_) not in drop]

    fn.body = process(fn.body)
    return count


def propagate_attr_aliases(fn: ast.AST, names_only: bool = False) -> int:
    """``ctx = self.ns_context`` ... ``ctx.pop()``: a local that merely names an attribute chain (``self.a``, ``self.a.b``, ``param.a``) is
    replaced by the chain itself, so that code written with and without such a temporary is one and the same to every rule.  Only when the
    local is assigned exactly once and only read, the root of the chain is never rebound, and no use of the local can run after the
    attribute was rebound in this function (then the alias and the attribute would name different objects)."""
    if not isinstance(fn, (ast.FunctionDef, ast.AsyncFunctionDef)):
        return 0
    stores_n: dict[str, int] = {}
    for n in _walk_own(fn):
        if isinstance(n, ast.Name) and isinstance(n.ctx, (ast.Store, ast.Del)):
            stores_n[n.id] = stores_n.get(n.id, 0) + 1

    def chain(e: ast.expr) -> str | None:
        parts = []
        while isinstance(e, ast.Attribute):
            parts.append(e.attr)
            e = e.value
        # the root is never rebound - or bound exactly once (a loop target, a single assignment): then alias and chain are read in the
        # same iteration / after the same binding
        if isinstance(e, ast.Name) and parts and stores_n.get(e.id, 0) <= 1:
            return e.id + "." + ".".join(reversed(parts))
        return None

    cands: dict[str, ast.stmt] = {}
    name_alias: set[str] = set()
    param_ann = {a.arg: ast.unparse(a.annotation) for a in [*fn.args.posonlyargs, *fn.args.args, *fn.args.kwonlyargs] if a.annotation is not None}
    params = {a.arg for a in [*fn.args.posonlyargs, *fn.args.args, *fn.args.kwonlyargs]} | ({fn.args.vararg.arg} if fn.args.vararg else set()) | ({fn.args.kwarg.arg} if fn.args.kwarg else set())
    for n in _walk_own(fn):
        tgt = n.targets[0] if isinstance(n, ast.Assign) and len(n.targets) == 1 else (n.target if isinstance(n, ast.AnnAssign) and n.value is not None else None)
        if not isinstance(tgt, ast.Name) or tgt.id in params or stores_n.get(tgt.id, 0) != 1 or hasattr(n, "_xsa_jump") or hasattr(n, "_xsa_unrolled"):
            continue
        if chain(n.value) is not None:
            if not names_only:
                cands[tgt.id] = n
        elif isinstance(n.value, ast.Constant) and not isinstance(n.value.value, (bytes, complex)) and n.value.value is not Ellipsis and hasattr(n, "_xsa_param_bind"):
            # the constant argument of an inlined helper (`low: int = 1`)
            cands[tgt.id] = n
        elif isinstance(n.value, ast.Name) and n.value.id != tgt.id and not (
                isinstance(n, ast.AnnAssign) and ast.unparse(n.annotation).replace(" ", "") in ("int", "float", "bool", "int|None", "float|None")
                and ast.unparse(n.annotation) != param_ann.get(n.value.id)):  # (a numeric annotation is kept unless the source parameter declares the same)
            # a plain copy of another local / parameter (`element = pending`, the bound parameter of an inlined helper): same treatment,
            # provided no use of the copy can run after the original was rebound (checked on the CFG below)
            cands[tgt.id] = n
            name_alias.add(tgt.id)
    if not cands:
        return 0
    # attribute chains (by text) that are rebound / deleted somewhere in the function
    rebound: dict[str, list[ast.AST]] = {}
    for n in _walk_own(fn):
        if isinstance(n, ast.Attribute) and isinstance(n.ctx, (ast.Store, ast.Del)):
            rebound.setdefault(ast.unparse(n), []).append(n)
    from .cfg import build_cfg
    g = None
    done = 0
    for name, st in list(cands.items()):
        text = ast.unparse(st.value)
        prefixes = {text[:i] for i in range(len(text) + 1) if i == len(text) or text[i] == "."}
        hits = [n for t in prefixes for n in rebound.get(t, [])]
        if name in name_alias:
            hits = [n for n in _walk_own(fn) if isinstance(n, ast.Name) and n.id == st.value.id and isinstance(n.ctx, (ast.Store, ast.Del))]
        uses = [n for n in _walk_own(fn) if isinstance(n, ast.Name) and n.id == name and isinstance(n.ctx, ast.Load)]
        if any(isinstance(p, (ast.Lambda, ast.GeneratorExp, ast.ListComp, ast.SetComp, ast.DictComp)) and any(u is x for x in ast.walk(p) for u in uses) for p in _walk_own(fn)):
            pass  # uses inside comprehensions / lambdas evaluate where they are written: still fine for an alias of a stable chain
        if hits:
            if g is None:
                g = build_cfg(fn)
            from .q import node_containing
            hit_nodes = [node_containing(g, h) for h in hits]
            use_nodes = [node_containing(g, u) for u in uses]
            if any(h is None for h in hit_nodes) or any(u is None for u in use_nodes):
                continue
            after = set()
            def_node = node_containing(g, st)
            for h in hit_nodes:
                # (a path that re-executes the alias assignment re-creates the alias: it does not count)
                after |= g.reachable([m for m, _ in g.succ[h.id]], blocked=[def_node.id] if def_node is not None and name in name_alias else [])
            if any(u.id in after for u in use_nodes):
                continue
            if name in name_alias and def_node is not None and not all(g.must_pass(g.entry, u.id, [def_node.id]) for u in use_nodes):
                continue
        # substitute

        class S(ast.NodeTransformer):
            def visit_Name(self, x: ast.Name):
                if x.id == name and isinstance(x.ctx, ast.Load):
                    return ast.copy_location(copy.deepcopy(st.value), x)
                return x

            def visit_FunctionDef(self, x):
                return x if x is not fn else self.generic_visit(x)

            visit_AsyncFunctionDef = visit_FunctionDef
            visit_ClassDef = visit_FunctionDef

        S().visit(fn)

        def drop(body: list[ast.stmt]) -> list[ast.stmt]:
            out = []
            for b in body:
                if b is st:
                    continue
                for field in ("body", "orelse", "finalbody"):
                    sub = getattr(b, field, None)
                    if isinstance(sub, list) and sub and isinstance(sub[0], ast.stmt) and not isinstance(b, (ast.FunctionDef, ast.AsyncFunctionDef, ast.ClassDef)):
                        new = drop(sub)
                        setattr(b, field, new or ([ast.copy_location(ast.Pass(), b)] if field == "body" else []))
                for h in getattr(b, "handlers", []) or []:
                    h.body = drop(h.body) or [ast.copy_location(ast.Pass(), h)]
                out.append(b)
            return out

        fn.body = drop(fn.body) or [ast.copy_location(ast.Pass(), fn)]
        done += 1
        g = None
        for attr in ("_xsa_cfg", "_xsa_asrc", "_xsa_single_defs", "_xsa_defs"):
            if hasattr(fn, attr):
                delattr(fn, attr)
    for attr in ("_xsa_cfg", "_xsa_asrc", "_xsa_single_defs", "_xsa_defs"):
        if hasattr(fn, attr):
            delattr(fn, attr)
    return done


class _YieldFromDisplay(ast.NodeTransformer):
    """``yield from (E for t in it if c)`` (also a list comprehension) becomes the equivalent for-loop of yields, and ``yield from (a, b)``
    / ``[a, b]`` becomes the yields themselves: a generator written either way is one and the same to the event-grammar rules."""

    def __init__(self) -> None:
        self.count = 0

    def visit_FunctionDef(self, node):
        self.generic_visit(node)
        return node

    def visit_Lambda(self, node):
        return node

    def visit_Expr(self, st: ast.Expr):
        v = st.value
        if not isinstance(v, ast.YieldFrom):
            return st
        src = v.value
        inner_from = False
        if isinstance(src, ast.Call) and not src.keywords and ast.unparse(src.func) in ("chain.from_iterable", "itertools.chain.from_iterable") and len(src.args) == 1 \
                and isinstance(src.args[0], (ast.GeneratorExp, ast.ListComp)):
            # yield from chain.from_iterable(G(x) for x in xs)  is  for x in xs: yield from G(x)
            src = src.args[0]
            inner_from = True
        elif isinstance(src, ast.Call) and not src.keywords and ast.unparse(src.func) in ("chain", "itertools.chain") and src.args and not any(isinstance(a, ast.Starred) for a in src.args):
            # yield from chain(a, b)  is  yield from a; yield from b
            self.count += 1
            flat: list[ast.stmt] = []
            for a in src.args:
                r = self.visit_Expr(ast.copy_location(ast.Expr(value=ast.copy_location(ast.YieldFrom(value=a), st)), st))
                flat.extend(r if isinstance(r, list) else [r])
            return flat
        if isinstance(src, (ast.GeneratorExp, ast.ListComp)) and not any(g.is_async for g in src.generators):
            body: list[ast.stmt] = [ast.Expr(value=ast.YieldFrom(value=src.elt) if inner_from else ast.Yield(value=src.elt))]
            for gen in reversed(src.generators):
                for cond in reversed(gen.ifs):
                    body = [ast.If(test=cond, body=body, orelse=[])]
                body = [ast.For(target=gen.target, iter=gen.iter, body=body, orelse=[], type_comment=None)]
            self.count += 1
            out = body[0]
            for n in ast.walk(out):
                if not hasattr(n, "lineno"):
                    ast.copy_location(n, st)
            return ast.copy_location(out, st)
        if isinstance(src, (ast.Tuple, ast.List)) and not any(isinstance(e, ast.Starred) for e in src.elts):
            self.count += 1
            return [ast.copy_location(ast.Expr(value=ast.copy_location(ast.Yield(value=e), st)), st) for e in src.elts] or [ast.copy_location(ast.Pass(), st)]
        return st


class _MatchToIf(ast.NodeTransformer):
    """``match x: case A: ... case B | C: ... case _: ...`` over value / singleton / class patterns becomes the equivalent
    if / elif / else chain (other pattern kinds are left alone), so that both spellings of a dispatch are one to every rule."""

    def __init__(self) -> None:
        self.count = 0

    def _test(self, subj: ast.expr, pat: ast.pattern) -> ast.expr | None | bool:
        """Test expression for a pattern; True = always matches (wildcard); None = unsupported."""
        c = lambda: copy.deepcopy(subj)  # noqa: E731
        if isinstance(pat, ast.MatchValue):
            return ast.Compare(left=c(), ops=[ast.Eq()], comparators=[pat.value])
        if isinstance(pat, ast.MatchSingleton):
            return ast.Compare(left=c(), ops=[ast.Is()], comparators=[ast.Constant(value=pat.value)])
        if isinstance(pat, ast.MatchAs) and pat.pattern is None and pat.name is None:
            return True
        if isinstance(pat, ast.MatchClass) and not pat.patterns and not pat.kwd_patterns:
            return ast.Call(func=ast.Name(id="isinstance", ctx=ast.Load()), args=[c(), pat.cls], keywords=[])
        if isinstance(pat, ast.MatchOr):
            subs = [self._test(subj, p) for p in pat.patterns]
            if any(x is None or x is True for x in subs):
                return None
            if all(isinstance(x, ast.Compare) and isinstance(x.ops[0], ast.Eq) for x in subs):
                return ast.Compare(left=c(), ops=[ast.In()], comparators=[ast.Tuple(elts=[x.comparators[0] for x in subs], ctx=ast.Load())])
            return ast.BoolOp(op=ast.Or(), values=subs)
        return None

    def visit_Match(self, node: ast.Match):
        self.generic_visit(node)
        subj = node.subject
        pre: list[ast.stmt] = []
        if not isinstance(subj, (ast.Name, ast.Attribute, ast.Constant)):
            self.count += 1
            tmp = ast.Name(id=f"__match_{self.count}", ctx=ast.Store())
            pre.append(ast.copy_location(ast.Assign(targets=[tmp], value=subj), node))
            subj = ast.Name(id=tmp.id, ctx=ast.Load())
        arms: list[tuple[ast.expr | bool, list[ast.stmt]]] = []
        for case in node.cases:
            pat = case.pattern
            bind: list[ast.stmt] = []
            if isinstance(pat, ast.MatchAs) and pat.pattern is None and pat.name is not None:
                bind = [ast.Assign(targets=[ast.Name(id=pat.name, ctx=ast.Store())], value=copy.deepcopy(subj))]
                t: ast.expr | bool | None = True
            else:
                t = self._test(subj, pat)
            if t is None:
                return node if not pre else node  # unsupported pattern: keep the match statement
            if case.guard is not None:
                guard = case.guard
                if bind:
                    # `case x if cond(x)`: the capture is the subject itself
                    if any(isinstance(n_, ast.NamedExpr) for n_ in ast.walk(guard)):
                        return node
                    guard = _Subst({pat.name: copy.deepcopy(subj)}).visit(copy.deepcopy(guard))
                t = guard if t is True else ast.BoolOp(op=ast.And(), values=[t, guard])
            arms.append((t, bind + case.body))
        self.count += 1
        orelse: list[ast.stmt] = []
        for t, body in reversed(arms):
            if t is True:
                orelse = body
            else:
                new = ast.If(test=t, body=body, orelse=orelse)
                new._xsa_match = True  # type: ignore[attr-defined]
                ast.copy_location(new, node)
                orelse = [new]
        out = pre + (orelse or [ast.copy_location(ast.Pass(), node)])
        return out if len(out) > 1 else out[0]


class _HoistWalrus(ast.NodeTransformer):
    """``if (x := e) ...:`` becomes ``x = e`` followed by ``if x ...:`` when the named expression is the first thing the test
    evaluates (so the hoist preserves evaluation order)."""

    def __init__(self) -> None:
        self.count = 0

    @staticmethod
    def _first(e: ast.expr) -> ast.NamedExpr | None:
        while True:
            if isinstance(e, ast.NamedExpr):
                return e
            if isinstance(e, ast.UnaryOp):
                e = e.operand
            elif isinstance(e, ast.BoolOp):
                e = e.values[0]
            elif isinstance(e, ast.Compare):
                e = e.left
            elif isinstance(e, ast.Call) and isinstance(e.func, ast.Attribute):
                e = e.func.value
            elif isinstance(e, (ast.Attribute, ast.Subscript)):
                e = e.value
            else:
                return None

    def visit_If(self, node: ast.If):
        self.generic_visit(node)
        w = self._first(node.test)
        if w is None or not isinstance(w.target, ast.Name):
            return node
        self.count += 1
        assign = ast.copy_location(ast.Assign(targets=[ast.Name(id=w.target.id, ctx=ast.Store())], value=w.value), node)

        class R(ast.NodeTransformer):
            def visit_NamedExpr(self, n):
                return ast.copy_location(ast.Name(id=w.target.id, ctx=ast.Load()), n) if n is w else n

        node.test = R().visit(node.test)
        return [assign, node]

    def _simple(self, node):
        self.generic_visit(node)
        v = getattr(node, "value", None)
        if isinstance(v, ast.NamedExpr) and isinstance(v.target, ast.Name) and not (isinstance(node, ast.Assign) and any(isinstance(t, ast.Name) and t.id == v.target.id for t in node.targets)):
            self.count += 1
            assign = ast.copy_location(ast.Assign(targets=[ast.Name(id=v.target.id, ctx=ast.Store())], value=v.value), node)
            node.value = ast.copy_location(ast.Name(id=v.target.id, ctx=ast.Load()), v)
            return [assign, node]
        return node

    visit_Assign = _simple
    visit_Return = _simple
    visit_Expr = _simple

    def visit_Lambda(self, node):
        return node


class _SplitTupleAssign(ast.NodeTransformer):
    """``a, b = x, y`` becomes ``a = x`` then ``b = y`` when no target name occurs in the values (so it is not a swap)."""

    def __init__(self) -> None:
        self.count = 0

    def visit_Assign(self, node: ast.Assign):
        if len(node.targets) == 1 and isinstance(node.targets[0], ast.Tuple) and isinstance(node.value, ast.Tuple) and len(node.targets[0].elts) == len(node.value.elts) \
                and all(isinstance(t, ast.Name) for t in node.targets[0].elts) and not any(isinstance(v, ast.Starred) for v in node.value.elts):
            names = {t.id for t in node.targets[0].elts}
            used = {x.id for v in node.value.elts for x in ast.walk(v) if isinstance(x, ast.Name)}
            if not (names & used) and not any(isinstance(x, (ast.NamedExpr, ast.Yield, ast.Await)) for x in ast.walk(node.value)):
                self.count += 1
                return [ast.copy_location(ast.Assign(targets=[t], value=v), node) for t, v in zip(node.targets[0].elts, node.value.elts)]
        if len(node.targets) == 1 and isinstance(node.targets[0], ast.Tuple) and isinstance(node.value, ast.Tuple) and len(node.targets[0].elts) == len(node.value.elts) \
                and all(isinstance(t, (ast.Name, ast.Attribute, ast.Subscript)) for t in node.targets[0].elts) and not any(isinstance(v, ast.Starred) for v in node.value.elts) \
                and not any(isinstance(x, (ast.NamedExpr, ast.Yield, ast.Await)) for x in ast.walk(node.value)):
            # the general case (attribute / item targets, swaps): the right-hand sides are evaluated first, into temporaries
            self.count += 1
            k = self.count
            pre = [ast.copy_location(ast.Assign(targets=[ast.copy_location(ast.Name(id=f"__tup_{k}_{i}", ctx=ast.Store()), node)], value=v), node) for i, v in enumerate(node.value.elts)]
            post = [ast.copy_location(ast.Assign(targets=[t], value=ast.copy_location(ast.Name(id=f"__tup_{k}_{i}", ctx=ast.Load()), node)), node) for i, t in enumerate(node.targets[0].elts)]
            return pre + post
        return node

    def visit_Lambda(self, node):
        return node


def inline_condition_temps(fn: ast.AST) -> int:
    """``flag = a and not b`` directly followed (only unrelated simple assignments in between) by ``if flag:`` / ``if not flag:`` where the
    flag is used nowhere else: the condition is put back into the test, so that a named condition and an inline one look alike."""
    count = 0
    uses: dict[str, int] = {}
    stores_: dict[str, int] = {}
    for n in ast.walk(fn):
        if isinstance(n, ast.Name):
            if isinstance(n.ctx, ast.Load):
                uses[n.id] = uses.get(n.id, 0) + 1
            else:
                stores_[n.id] = stores_.get(n.id, 0) + 1

    def cond_like(v: ast.expr) -> bool:
        return isinstance(v, (ast.BoolOp, ast.Compare)) or (isinstance(v, ast.UnaryOp) and isinstance(v.op, ast.Not)) or (isinstance(v, ast.Call) and isinstance(v.func, ast.Name) and v.func.id in ("isinstance", "callable", "bool", "any", "all"))

    def process(body: list[ast.stmt]) -> list[ast.stmt]:
        nonlocal count
        i = 0
        while i < len(body):
            st = body[i]
            for field in ("body", "orelse", "finalbody"):
                sub = getattr(st, field, None)
                if isinstance(sub, list) and sub and isinstance(sub[0], ast.stmt) and not isinstance(st, (ast.FunctionDef, ast.AsyncFunctionDef, ast.ClassDef)):
                    setattr(st, field, process(sub))
            for h in getattr(st, "handlers", []) or []:
                h.body = process(h.body)
            if isinstance(st, ast.Assign) and len(st.targets) == 1 and isinstance(st.targets[0], ast.Name) and cond_like(st.value):
                name = st.targets[0].id
                if uses.get(name, 0) == 1 and stores_.get(name, 0) == 1:
                    free = {x.id for x in ast.walk(st.value) if isinstance(x, ast.Name)}
                    j = i + 1
                    while j < len(body) and isinstance(body[j], (ast.Assign, ast.AnnAssign)) and not any(
                            isinstance(x, ast.Name) and isinstance(x.ctx, ast.Store) and x.id in free | {name} for x in ast.walk(body[j])) and not any(
                            isinstance(x, ast.Name) and x.id == name for x in ast.walk(body[j])):
                        j += 1
                    if j < len(body) and isinstance(body[j], ast.If):
                        # the flag may be the whole test, negated, or an operand of an and / or chain of the test
                        value = st.value
                        hit = [False]

                        class S(ast.NodeTransformer):
                            def visit_Name(self, x: ast.Name):
                                if x.id == name and isinstance(x.ctx, ast.Load):
                                    hit[0] = True
                                    return value
                                return x

                            def generic_visit(self, x):
                                # only through boolean structure: BoolOp / not
                                if isinstance(x, (ast.BoolOp,)) or (isinstance(x, ast.UnaryOp) and isinstance(x.op, ast.Not)):
                                    return super().generic_visit(x)
                                return x

                        new_test = S().visit(body[j].test)
                        if hit[0]:
                            body[j].test = new_test
                            del body[i]
                            count += 1
                            continue
            i += 1
        return body

    fn.body = process(fn.body)
    return count


def _apply(transformer: ast.NodeTransformer, body: list[ast.stmt]) -> list[ast.stmt]:
    out: list[ast.stmt] = []
    for st in body:
        r = transformer.visit(st)
        if isinstance(r, list):
            out.extend(r)
        elif r is not None:
            out.append(r)
    return out


def scalarize_tuple_temps(fn: ast.AST) -> int:
    """``pair = (a, b)`` ... ``pair[1]`` ... ``x, y = pair``: a local bound once to a tuple display and only indexed with constants or
    unpacked is replaced by one local per component (``pair__0 = a; pair__1 = b``), so that the components are followed like any other
    value."""
    if not isinstance(fn, (ast.FunctionDef, ast.AsyncFunctionDef)):
        return 0
    parents: dict[int, ast.AST] = {}
    for p_ in [fn, *_walk_own(fn)]:
        for ch in ast.iter_child_nodes(p_):
            parents[id(ch)] = p_
    stores_n: dict[str, list[ast.Name]] = {}
    loads: dict[str, list[ast.Name]] = {}
    for n in _walk_own(fn):
        if isinstance(n, ast.Name):
            (stores_n if isinstance(n.ctx, (ast.Store, ast.Del)) else loads).setdefault(n.id, []).append(n)
    params = {a.arg for a in ast.walk(fn.args) if isinstance(a, ast.arg)}
    count = 0
    for st in list(_walk_own(fn)):
        if not (isinstance(st, ast.Assign) and len(st.targets) == 1 and isinstance(st.targets[0], ast.Name) and isinstance(st.value, ast.Tuple)) or hasattr(st, "_xsa_jump"):
            continue
        name = st.targets[0].id
        elts = st.value.elts
        if name in params or len(stores_n.get(name, [])) != 1 or not loads.get(name) or not elts or any(isinstance(e, ast.Starred) for e in elts):
            continue
        plan = []
        ok = True
        for u in loads[name]:
            par = parents.get(id(u))
            if isinstance(par, ast.Subscript) and par.value is u and isinstance(par.ctx, ast.Load) and isinstance(par.slice, ast.Constant) and isinstance(par.slice.value, int) \
                    and not isinstance(par.slice.value, bool) and -len(elts) <= par.slice.value < len(elts):
                plan.append(("index", par, par.slice.value % len(elts)))
            elif isinstance(par, ast.Assign) and par.value is u and len(par.targets) == 1 and isinstance(par.targets[0], (ast.Tuple, ast.List)) and len(par.targets[0].elts) == len(elts) \
                    and all(isinstance(t, ast.Name) for t in par.targets[0].elts):
                plan.append(("unpack", par, 0))
            else:
                ok = False
                break
        if not ok:
            continue
        comps = [f"{name}__{i}" for i in range(len(elts))]
        new_defs = [ast.copy_location(ast.Assign(targets=[ast.Name(id=c, ctx=ast.Store())], value=e), st) for c, e in zip(comps, elts)]

        def replace_stmt(old: ast.stmt, new: list[ast.stmt]) -> bool:
            holder = parents.get(id(old))
            for field in ("body", "orelse", "finalbody"):
                blk = getattr(holder, field, None)
                if isinstance(blk, list) and any(x is old for x in blk):
                    i = next(i for i, x in enumerate(blk) if x is old)
                    blk[i:i + 1] = new
                    for x in new:
                        parents[id(x)] = holder
                    return True
            return False

        if not replace_stmt(st, new_defs):
            continue
        for kind, node, idx in plan:
            if kind == "index":
                par = parents.get(id(node))
                repl = ast.copy_location(ast.Name(id=comps[idx], ctx=ast.Load()), node)
                for field, value in ast.iter_fields(par):
                    if value is node:
                        setattr(par, field, repl)
                    elif isinstance(value, list):
                        for i, x in enumerate(value):
                            if x is node:
                                value[i] = repl
                parents[id(repl)] = par
            else:
                outs = [ast.copy_location(ast.Assign(targets=[ast.Name(id=t.id, ctx=ast.Store())], value=ast.Name(id=c, ctx=ast.Load())), node) for t, c in zip(node.targets[0].elts, comps)]
                replace_stmt(node, outs)
        count += 1
    if count:
        ast.fix_missing_locations(fn)
        for attr in ("_xsa_cfg", "_xsa_asrc", "_xsa_single_defs", "_xsa_defs"):
            if hasattr(fn, attr):
                delattr(fn, attr)
    return count


def next_to_loops(fn: ast.AST) -> int:
    """``x = next(E for v in ITER if C)`` is ``for v in ITER: if C: x = E; break`` (``else: raise StopIteration``; with a default: ``x = D``
    first); ``return next(...)`` likewise with a return in the loop.  The generator expression may be bound once to a local that only the
    ``next`` call reads.  One ``for`` clause only."""
    if not isinstance(fn, (ast.FunctionDef, ast.AsyncFunctionDef)):
        return 0
    count = 0
    stores_n: dict[str, int] = {}
    loads_n: dict[str, int] = {}
    for n in _walk_own(fn):
        if isinstance(n, ast.Name):
            d = stores_n if isinstance(n.ctx, (ast.Store, ast.Del)) else loads_n
            d[n.id] = d.get(n.id, 0) + 1
    if "next" in stores_n:
        return 0

    def process(body: list[ast.stmt], depth: int, binds: dict[str, tuple[ast.stmt, int, list[ast.stmt]]]) -> list[ast.stmt]:
        nonlocal count
        out: list[ast.stmt] = []
        for st in body:
            if isinstance(st, (ast.FunctionDef, ast.AsyncFunctionDef, ast.ClassDef)):
                out.append(st)
                continue
            if isinstance(st, ast.Assign) and len(st.targets) == 1 and isinstance(st.targets[0], ast.Name) and isinstance(st.value, ast.GeneratorExp) \
                    and stores_n.get(st.targets[0].id) == 1 and loads_n.get(st.targets[0].id) == 1:
                binds[st.targets[0].id] = (st, depth, out)
            v = st.value if isinstance(st, (ast.Assign, ast.Return)) else None
            if isinstance(v, ast.Call) and isinstance(v.func, ast.Name) and v.func.id == "next" and 1 <= len(v.args) <= 2 and not v.keywords \
                    and (isinstance(st, ast.Return) or len(st.targets) == 1):
                ge = v.args[0]
                bind_st = None
                if isinstance(ge, ast.Name) and ge.id in binds and binds[ge.id][1] == depth:
                    bind_st = binds[ge.id]
                    ge = bind_st[0].value
                if isinstance(ge, ast.GeneratorExp) and len(ge.generators) == 1 and not ge.generators[0].is_async \
                        and not any(isinstance(x, (ast.NamedExpr, ast.Yield, ast.YieldFrom, ast.Await)) for x in ast.walk(ge)):
                    comp = ge.generators[0]
                    comp_names = {x.id for x in ast.walk(comp.target) if isinstance(x, ast.Name)}
                    inside = {id(x) for x in ast.walk(ge)}
                    outside = {x.id for x in ast.walk(fn) if isinstance(x, ast.Name) and id(x) not in inside} | {x.arg for x in ast.walk(fn) if isinstance(x, ast.arg)}
                    rename = {nm: f"{nm}__n{count + 1}" for nm in comp_names if nm in outside}
                    elt, target, ifs, it = copy.deepcopy(ge.elt), copy.deepcopy(comp.target), [copy.deepcopy(c) for c in comp.ifs], copy.deepcopy(comp.iter)
                    if rename:
                        sub = _Subst(dict(rename))
                        elt, target, ifs = sub.visit(elt), sub.visit(target), [sub.visit(c) for c in ifs]
                    default = v.args[1] if len(v.args) == 2 else None
                    pre: list[ast.stmt] = []
                    post: list[ast.stmt] = []
                    orelse: list[ast.stmt] = []
                    # exhaustion: kept as what it was - a `next` that finds nothing - so that the exception model treats it as before
                    stop = ast.Expr(value=ast.Call(func=ast.Name(id="next", ctx=ast.Load()), args=[ast.Call(func=ast.Name(id="iter", ctx=ast.Load()), args=[ast.Tuple(elts=[], ctx=ast.Load())], keywords=[])], keywords=[]))
                    stop._xsa_exhausted = True  # type: ignore[attr-defined]
                    if isinstance(st, ast.Return):
                        inner: list[ast.stmt] = [ast.Return(value=elt)]
                        post = [ast.Return(value=default)] if default is not None else [stop]
                    else:
                        inner = [ast.Assign(targets=copy.deepcopy(st.targets), value=elt), ast.Break()]
                        if default is not None:
                            pre = [ast.Assign(targets=copy.deepcopy(st.targets), value=default)]
                        else:
                            orelse = [stop]
                    for c in reversed(ifs):
                        inner = [ast.If(test=c, body=inner, orelse=[])]
                    loop = ast.For(target=target, iter=it, body=inner, orelse=orelse, type_comment=None)
                    new = [*pre, loop, *post]
                    for x in new:
                        ast.copy_location(x, st)
                        ast.fix_missing_locations(x)
                    if bind_st is not None:
                        lst = bind_st[2]
                        lst[:] = [x for x in lst if x is not bind_st[0]]
                    count += 1
                    out.extend(new)
                    continue
            for field in ("body", "orelse", "finalbody"):
                sub_b = getattr(st, field, None)
                if isinstance(sub_b, list) and sub_b and isinstance(sub_b[0], ast.stmt):
                    deeper = depth + 1 if isinstance(st, (ast.For, ast.While)) and field == "body" else depth
                    setattr(st, field, process(sub_b, deeper, binds if deeper == depth else {}))
            for h in getattr(st, "handlers", []) or []:
                h.body = process(h.body, depth, binds)
            out.append(st)
        return out

    fn.body = process(fn.body, 0, {})
    return count


def genexp_loops(fn: ast.AST) -> int:
    """``for x in (E for y in ITER if C): BODY`` - the generator expression written in place or bound once to a local that only the loop
    reads (same loop nesting) - is ``for y in ITER: if C: x = E; BODY``: a lazily filtered loop and the loop with the filter inside are the
    same to every rule.  One ``for`` clause only; the comprehension variable is renamed when the function uses the name elsewhere."""
    if not isinstance(fn, (ast.FunctionDef, ast.AsyncFunctionDef)):
        return 0
    count = 0
    while True:
        stores_n: dict[str, int] = {}
        loads_n: dict[str, int] = {}
        for n in _walk_own(fn):
            if isinstance(n, ast.Name):
                d = stores_n if isinstance(n.ctx, (ast.Store, ast.Del)) else loads_n
                d[n.id] = d.get(n.id, 0) + 1
        changed = False

        def process(body: list[ast.stmt], loop_depth: int, binds: dict[str, tuple[ast.stmt, int, list[ast.stmt]]]) -> list[ast.stmt]:
            nonlocal changed, count
            out: list[ast.stmt] = []
            for st in body:
                if isinstance(st, (ast.FunctionDef, ast.AsyncFunctionDef, ast.ClassDef)):
                    out.append(st)
                    continue
                if isinstance(st, ast.Assign) and len(st.targets) == 1 and isinstance(st.targets[0], ast.Name) and isinstance(st.value, ast.GeneratorExp) \
                        and stores_n.get(st.targets[0].id) == 1 and loads_n.get(st.targets[0].id) == 1:
                    binds[st.targets[0].id] = (st, loop_depth, out)
                if isinstance(st, ast.For) and not changed:
                    ge: ast.GeneratorExp | None = None
                    bind_st = None
                    if isinstance(st.iter, ast.GeneratorExp):
                        ge = st.iter
                    elif isinstance(st.iter, ast.Name) and st.iter.id in binds and binds[st.iter.id][1] == loop_depth:
                        bind_st = binds[st.iter.id]
                        ge = bind_st[0].value  # type: ignore[assignment]
                    if ge is not None and len(ge.generators) == 1 and not ge.generators[0].is_async and not any(isinstance(x, (ast.NamedExpr, ast.Yield, ast.YieldFrom, ast.Await)) for x in ast.walk(ge)):
                        comp = ge.generators[0]
                        comp_names = {x.id for x in ast.walk(comp.target) if isinstance(x, ast.Name)}
                        outside = set()
                        inside = {id(x) for x in ast.walk(ge)}
                        for x in ast.walk(fn):
                            if isinstance(x, ast.Name) and id(x) not in inside:
                                outside.add(x.id)
                            elif isinstance(x, ast.arg):
                                outside.add(x.arg)
                        rename = {nm: f"{nm}__g{count + 1}" for nm in comp_names if nm in outside}
                        if isinstance(ge.elt, ast.Name) and isinstance(comp.target, ast.Name) and ge.elt.id == comp.target.id and isinstance(st.target, ast.Name):
                            # (x for x in ...) consumed as `for t in`: the variable is the loop target
                            if st.target.id == comp.target.id:
                                rename = {}
                            elif not any(isinstance(x, ast.Name) and x.id == st.target.id for x in ast.walk(ge)):
                                rename = {comp.target.id: st.target.id}
                        elt, target, ifs = copy.deepcopy(ge.elt), copy.deepcopy(comp.target), [copy.deepcopy(c) for c in comp.ifs]
                        if rename:
                            sub = _Subst(dict(rename))
                            elt, target, ifs = sub.visit(elt), sub.visit(target), [sub.visit(c) for c in ifs]
                        inner: list[ast.stmt] = [ast.copy_location(ast.Assign(targets=[copy.deepcopy(st.target)], value=elt), st), *st.body]
                        if isinstance(elt, ast.Name) and isinstance(st.target, ast.Name) and elt.id == st.target.id:
                            inner = list(st.body)
                        for c in reversed(ifs):
                            inner = [ast.copy_location(ast.If(test=c, body=inner, orelse=[]), st)]
                        new = ast.copy_location(ast.For(target=target, iter=copy.deepcopy(comp.iter), body=inner, orelse=list(st.orelse), type_comment=None), st)
                        ast.fix_missing_locations(new)
                        if bind_st is not None:
                            lst = bind_st[2]
                            lst[:] = [x for x in lst if x is not bind_st[0]]
                        changed = True
                        count += 1
                        out.append(new)
                        continue
                for field in ("body", "orelse", "finalbody"):
                    sub_b = getattr(st, field, None)
                    if isinstance(sub_b, list) and sub_b and isinstance(sub_b[0], ast.stmt):
                        deeper = loop_depth + 1 if isinstance(st, (ast.For, ast.While)) and field == "body" else loop_depth
                        setattr(st, field, process(sub_b, deeper, binds if deeper == loop_depth else {}))
                for h in getattr(st, "handlers", []) or []:
                    h.body = process(h.body, loop_depth, binds)
                out.append(st)
            return out

        fn.body = process(fn.body, 0, {})
        if not changed:
            break
    if count:
        ast.fix_missing_locations(fn)
    return count


_OPERATOR_CMP = {"is_not": ast.IsNot, "is_": ast.Is, "eq": ast.Eq, "ne": ast.NotEq, "lt": ast.Lt, "le": ast.LtE, "gt": ast.Gt, "ge": ast.GtE}


def _operator_call(c: ast.Call) -> ast.expr:
    """operator.is_not(a, b) is `a is not b` (likewise is_, eq, ne, lt, le, gt, ge; contains(a, b) is `b in a`; not_(a) is `not a`)."""
    f = c.func
    name = f.attr if isinstance(f, ast.Attribute) and isinstance(f.value, ast.Name) and f.value.id == "operator" else (f.id if isinstance(f, ast.Name) and f.id in ("is_not", "is_") else "")
    if c.keywords or any(isinstance(a, ast.Starred) for a in c.args):
        return c
    if name in _OPERATOR_CMP and len(c.args) == 2:
        return ast.Compare(left=c.args[0], ops=[_OPERATOR_CMP[name]()], comparators=[c.args[1]])
    if name == "contains" and len(c.args) == 2:
        return ast.Compare(left=c.args[1], ops=[ast.In()], comparators=[c.args[0]])
    if name == "not_" and len(c.args) == 1:
        return ast.UnaryOp(op=ast.Not(), operand=c.args[0])
    arith = {"mul": ast.Mult, "add": ast.Add, "sub": ast.Sub, "floordiv": ast.FloorDiv, "mod": ast.Mod}
    if name in arith and len(c.args) == 2:
        return ast.BinOp(left=c.args[0], op=arith[name](), right=c.args[1])
    return c


def _getter_of(e: ast.expr | None) -> tuple[str, list[str]] | None:
    """operator.itemgetter("a", "b") / attrgetter("a", "b") with constant string arguments -> (kind, names)."""
    if isinstance(e, ast.Call) and not e.keywords and e.args and all(isinstance(a, ast.Constant) and isinstance(a.value, (str, int)) and not isinstance(a.value, bool) for a in e.args):
        f = e.func
        name = f.attr if isinstance(f, ast.Attribute) and isinstance(f.value, ast.Name) and f.value.id == "operator" else (f.id if isinstance(f, ast.Name) else "")
        if name == "itemgetter":
            return "item", [a.value for a in e.args]  # type: ignore[attr-defined]
        if name == "attrgetter" and all(isinstance(a.value, str) and a.value.isidentifier() for a in e.args):  # type: ignore[attr-defined]
            return "attr", [a.value for a in e.args]  # type: ignore[attr-defined]
    return None


class _GetterCalls(ast.NodeTransformer):
    """`GETTER(x)` for a module-level `GETTER = operator.itemgetter("a", "b")` (or the getter built in place) is `(x["a"], x["b"])`."""

    def __init__(self, getters: dict[str, tuple[str, list[str]]], shadowed: set[str], local_names: set[str] = frozenset()):  # type: ignore[assignment]
        self.getters = getters
        self.shadowed = shadowed
        self.local_names = local_names
        self.local_displays: dict[str, ast.expr] = {}
        self.local_partials: dict[str, ast.Call] = {}
        self.local_callables: dict[str, ast.Call] = {}
        self.module_displays: dict[str, ast.expr] = {}
        self.count = 0
        self.k = 0

    def visit_Compare(self, n: ast.Compare):
        self.generic_visit(n)
        # a == b == 0 (a chain of equalities that ends in a constant) is a == 0 and b == 0
        if len(n.ops) >= 2 and all(isinstance(o, ast.Eq) for o in n.ops) and isinstance(n.comparators[-1], ast.Constant) and isinstance(n.comparators[-1].value, (int, str)) \
                and all(_simple_arg(e) for e in [n.left, *n.comparators[:-1]]):
            k = n.comparators[-1]
            vals = [ast.Compare(left=e, ops=[ast.Eq()], comparators=[copy.deepcopy(k)]) for e in [n.left, *n.comparators[:-1]]]
            self.count += 1
            return ast.fix_missing_locations(ast.copy_location(ast.BoolOp(op=ast.And(), values=vals), n))
        return n

    @staticmethod
    def _apply_operator_callable(f: ast.expr, var: "str | ast.expr") -> ast.expr | None:
        """operator.methodcaller("m", a)(x) is x.m(a); itemgetter(k)(x) is x[k]; attrgetter("a")(x) is x.a."""
        if not isinstance(f, ast.Call):
            return None
        fn_ = f.func
        name = fn_.attr if isinstance(fn_, ast.Attribute) and isinstance(fn_.value, ast.Name) and fn_.value.id == "operator" else (fn_.id if isinstance(fn_, ast.Name) else "")
        x = ast.Name(id=var, ctx=ast.Load()) if isinstance(var, str) else var
        if name == "methodcaller" and f.args and isinstance(f.args[0], ast.Constant) and isinstance(f.args[0].value, str) and f.args[0].value.isidentifier():
            return ast.Call(func=ast.Attribute(value=x, attr=f.args[0].value, ctx=ast.Load()), args=list(f.args[1:]), keywords=list(f.keywords))
        g = _getter_of(f)
        if g is not None and len(g[1]) == 1:
            return ast.Subscript(value=x, slice=ast.Constant(value=g[1][0]), ctx=ast.Load()) if g[0] == "item" else ast.Attribute(value=x, attr=g[1][0], ctx=ast.Load())
        if ast.unparse(fn_) in ("partial", "functools.partial") and f.args and isinstance(f.args[0], (ast.Name, ast.Attribute)) and not any(isinstance(a, ast.Starred) for a in f.args) \
                and not any(k.arg is None for k in f.keywords):
            return _operator_call(ast.Call(func=f.args[0], args=[*f.args[1:], x], keywords=list(f.keywords)))
        return None

    def visit_Assign(self, st: ast.Assign):
        # a, b = map(f, (x, y)) is a, b = f(x), f(y)
        v = st.value
        if len(st.targets) == 1 and isinstance(st.targets[0], (ast.Tuple, ast.List)) and isinstance(v, ast.Call) and isinstance(v.func, ast.Name) and v.func.id == "map" \
                and "map" not in self.local_names and len(v.args) == 2 and not v.keywords and isinstance(v.args[0], (ast.Name, ast.Attribute)) \
                and isinstance(v.args[1], (ast.Tuple, ast.List)) and len(v.args[1].elts) == len(st.targets[0].elts) and not any(isinstance(x, ast.Starred) for x in v.args[1].elts):
            st.value = ast.copy_location(ast.Tuple(elts=[ast.Call(func=copy.deepcopy(v.args[0]), args=[x], keywords=[]) for x in v.args[1].elts], ctx=ast.Load()), v)
            ast.fix_missing_locations(st)
            self.count += 1
        self.generic_visit(st)
        return st

    def visit_Call(self, c: ast.Call):
        self.generic_visit(c)
        g = None
        # map(f, xs) is (f(x) for x in xs); map(lambda v: E, xs) is (E for v in xs); filter(f, xs) is (x for x in xs if f(x))
        kind_ = c.func.id if isinstance(c.func, ast.Name) and c.func.id in ("map", "filter", "filterfalse") else (
            "filterfalse" if ast.unparse(c.func) == "itertools.filterfalse" else None)
        if kind_ is not None and kind_ not in self.local_names and len(c.args) == 2 and not c.keywords \
                and not any(isinstance(a, ast.Starred) for a in c.args):
            f, xs = c.args
            self.k += 1
            var = f"__m{self.k}"
            elt: ast.expr | None = None
            target: ast.expr = ast.Name(id=var, ctx=ast.Store())
            ifs: list[ast.expr] = []
            simple_lambda = isinstance(f, ast.Lambda) and len(f.args.args) == 1 and not (f.args.posonlyargs or f.args.kwonlyargs or f.args.vararg or f.args.kwarg or f.args.defaults)
            applied = self._apply_operator_callable(f, var)
            if applied is not None:
                if kind_ == "map":
                    elt = applied
                else:
                    elt, ifs = ast.Name(id=var, ctx=ast.Load()), [applied]
            elif kind_ == "map":
                if simple_lambda:
                    target = ast.Name(id=f.args.args[0].arg, ctx=ast.Store())
                    elt = f.body
                elif isinstance(f, (ast.Name, ast.Attribute)):
                    elt = ast.Call(func=f, args=[ast.Name(id=var, ctx=ast.Load())], keywords=[])
            else:
                if isinstance(f, ast.Constant) and f.value is None:
                    elt, ifs = ast.Name(id=var, ctx=ast.Load()), [ast.Name(id=var, ctx=ast.Load())]
                elif simple_lambda:
                    target = ast.Name(id=f.args.args[0].arg, ctx=ast.Store())
                    elt, ifs = ast.Name(id=f.args.args[0].arg, ctx=ast.Load()), [f.body]
                elif isinstance(f, (ast.Name, ast.Attribute)):
                    elt, ifs = ast.Name(id=var, ctx=ast.Load()), [ast.Call(func=f, args=[ast.Name(id=var, ctx=ast.Load())], keywords=[])]
            if elt is not None and kind_ == "filterfalse":
                ifs = [ast.UnaryOp(op=ast.Not(), operand=ifs[0])]
            if elt is not None:
                self.count += 1
                if isinstance(f, ast.Name) and (f.id in self.local_partials or f.id in self.local_callables):
                    elt = self.visit(elt)  # the mapped callable is itself a partial application
                    ifs = [self.visit(i) for i in ifs]
                new = ast.GeneratorExp(elt=elt, generators=[ast.comprehension(target=target, iter=xs, ifs=ifs, is_async=0)])
                return ast.fix_missing_locations(ast.copy_location(new, c))
        # any(P(x) for x in (a, b, c)) is P(a) or P(b) or P(c); all(...) is the conjunction
        # map(f, (a, b), (x, y)) over displays of equal length is the display (f(a, x), f(b, y)); sum((p, q, r)) is p + q + r
        def _disp(e: ast.expr) -> ast.expr | None:
            if isinstance(e, ast.Name) and e.id in self.local_displays:
                e = self.local_displays[e.id]
            elif isinstance(e, ast.Name) and e.id in self.module_displays and e.id not in self.local_names:
                e = self.module_displays[e.id]
            return e if isinstance(e, (ast.Tuple, ast.List)) and not any(isinstance(x, ast.Starred) for x in e.elts) else None

        if isinstance(c.func, ast.Name) and c.func.id == "map" and "map" not in self.local_names and len(c.args) == 3 and not c.keywords and isinstance(c.args[0], (ast.Name, ast.Attribute)):
            da, db = _disp(c.args[1]), _disp(c.args[2])
            if da is not None and db is not None and len(da.elts) == len(db.elts) and 1 <= len(da.elts) <= 10 and all(_simple_arg(x) for x in [*da.elts, *db.elts]):
                elts = [_operator_call(ast.Call(func=copy.deepcopy(c.args[0]), args=[copy.deepcopy(x), copy.deepcopy(y)], keywords=[])) for x, y in zip(da.elts, db.elts)]
                self.count += 1
                return ast.fix_missing_locations(ast.copy_location(ast.Tuple(elts=elts, ctx=ast.Load()), c))
        if isinstance(c.func, ast.Name) and c.func.id == "sum" and "sum" not in self.local_names and len(c.args) == 1 and not c.keywords and isinstance(c.args[0], (ast.Tuple, ast.List)) \
                and 1 <= len(c.args[0].elts) <= 10 and not any(isinstance(x, ast.Starred) for x in c.args[0].elts):
            new = c.args[0].elts[0]
            for v in c.args[0].elts[1:]:
                new = ast.BinOp(left=new, op=ast.Add(), right=v)
            self.count += 1
            return ast.fix_missing_locations(ast.copy_location(new, c))
        # (likewise sum(E(x) for x in (a, b, c)) is E(a) + E(b) + E(c), also with tuple targets over a display of tuples)
        if isinstance(c.func, ast.Name) and c.func.id in ("any", "all", "sum") and c.func.id not in self.local_names and len(c.args) == 1 and not c.keywords \
                and isinstance(c.args[0], (ast.GeneratorExp, ast.ListComp)) and len(c.args[0].generators) == 1:
            comp = c.args[0].generators[0]
            disp = comp.iter
            if isinstance(disp, ast.Name) and disp.id in self.local_displays:
                disp = self.local_displays[disp.id]
            maps: list[dict[str, ast.expr]] | None = None
            if isinstance(disp, (ast.Tuple, ast.List)) and 1 <= len(disp.elts) <= 8 and not comp.ifs and not comp.is_async:
                if isinstance(comp.target, ast.Name):
                    maps = [{comp.target.id: e} for e in disp.elts]
                elif isinstance(comp.target, (ast.Tuple, ast.List)) and all(isinstance(t, ast.Name) for t in comp.target.elts) and all(
                        isinstance(e, (ast.Tuple, ast.List)) and len(e.elts) == len(comp.target.elts) and not any(isinstance(x, ast.Starred) for x in e.elts) for e in disp.elts):
                    maps = [{t.id: x for t, x in zip(comp.target.elts, e.elts)} for e in disp.elts]
            if maps is not None:
                uses: dict[str, int] = {}
                for x in ast.walk(c.args[0].elt):
                    if isinstance(x, ast.Name):
                        uses[x.id] = uses.get(x.id, 0) + 1
                # a component that is not a plain name / constant may be substituted only where it is evaluated once
                if not all(_simple_arg(v) or (uses.get(k, 0) <= 1 and not any(isinstance(y, (ast.Call, ast.NamedExpr, ast.Yield, ast.Await)) for y in ast.walk(v))) for m_ in maps for k, v in m_.items()):
                    maps = None
            if maps is not None:
                vals = [_Subst({k: copy.deepcopy(v) for k, v in m_.items()}).visit(copy.deepcopy(c.args[0].elt)) for m_ in maps]
                if c.func.id == "sum":
                    new = vals[0]
                    for v in vals[1:]:
                        new = ast.BinOp(left=new, op=ast.Add(), right=v)
                else:
                    new = vals[0] if len(vals) == 1 else ast.BoolOp(op=ast.Or() if c.func.id == "any" else ast.And(), values=vals)
                    if len(vals) == 1:
                        new = ast.Call(func=ast.Name(id="bool", ctx=ast.Load()), args=[new], keywords=[])
                self.count += 1
                return ast.fix_missing_locations(ast.copy_location(new, c))
        oc = _operator_call(c)
        if oc is not c and not (isinstance(c.func, ast.Name) and c.func.id in self.local_names):
            self.count += 1
            return ast.fix_missing_locations(ast.copy_location(oc, c))
        # p = functools.partial(f, a, k=v) ... p(x) is f(a, x, k=v)
        if isinstance(c.func, ast.Name) and c.func.id in self.local_callables and len(c.args) == 1 and not c.keywords and _simple_arg(c.args[0]):
            applied_ = self._apply_operator_callable(self.local_callables[c.func.id], c.args[0])
            if applied_ is not None:
                self.count += 1
                return ast.fix_missing_locations(ast.copy_location(applied_, c))
        if isinstance(c.func, ast.Name) and c.func.id in self.local_partials and (not any(k.arg is None for k in c.keywords) or not self.local_partials[c.func.id].keywords):
            base = self.local_partials[c.func.id]
            given = {k.arg for k in c.keywords}
            new = ast.Call(func=copy.deepcopy(base.args[0]), args=[*[copy.deepcopy(a) for a in base.args[1:]], *c.args],
                           keywords=[*[copy.deepcopy(k) for k in base.keywords if k.arg not in given], *c.keywords])
            self.count += 1
            return ast.fix_missing_locations(ast.copy_location(new, c))
        if isinstance(c.func, ast.Name) and c.func.id in self.getters and c.func.id not in self.shadowed:
            g = self.getters[c.func.id]
        elif isinstance(c.func, ast.Call):
            g = _getter_of(c.func)
        if g is None or len(c.args) != 1 or c.keywords or not isinstance(c.args[0], (ast.Name, ast.Attribute)):
            return c
        kind, names = g
        def one(nm):
            base = copy.deepcopy(c.args[0])
            if kind == "item":
                return ast.Subscript(value=base, slice=ast.Constant(value=nm), ctx=ast.Load())
            return ast.Attribute(value=base, attr=nm, ctx=ast.Load())
        new = one(names[0]) if len(names) == 1 else ast.Tuple(elts=[one(n) for n in names], ctx=ast.Load())
        self.count += 1
        return ast.fix_missing_locations(ast.copy_location(new, c))


def named_display_yields(fn: ast.AST) -> int:
    """``events = (a, b, c)`` directly followed by ``yield from events`` (the only use of the local) is ``yield from (a, b, c)``."""
    if not isinstance(fn, (ast.FunctionDef, ast.AsyncFunctionDef)):
        return 0
    stores_n: dict[str, int] = {}
    loads_n: dict[str, int] = {}
    for n in _walk_own(fn):
        if isinstance(n, ast.Name):
            d = stores_n if isinstance(n.ctx, (ast.Store, ast.Del)) else loads_n
            d[n.id] = d.get(n.id, 0) + 1
    count = 0

    def process(body: list[ast.stmt]) -> list[ast.stmt]:
        nonlocal count
        out: list[ast.stmt] = []
        i = 0
        while i < len(body):
            st = body[i]
            nxt = body[i + 1] if i + 1 < len(body) else None
            if isinstance(st, ast.Assign) and len(st.targets) == 1 and isinstance(st.targets[0], ast.Name) and isinstance(st.value, (ast.Tuple, ast.List)) \
                    and stores_n.get(st.targets[0].id) == 1 and loads_n.get(st.targets[0].id) == 1 \
                    and isinstance(nxt, ast.Expr) and isinstance(nxt.value, ast.YieldFrom) and isinstance(nxt.value.value, ast.Name) and nxt.value.value.id == st.targets[0].id:
                nxt.value.value = st.value
                out.append(nxt)
                count += 1
                i += 2
                continue
            if not isinstance(st, (ast.FunctionDef, ast.AsyncFunctionDef, ast.ClassDef)):
                for field in ("body", "orelse", "finalbody"):
                    sub = getattr(st, field, None)
                    if isinstance(sub, list) and sub and isinstance(sub[0], ast.stmt):
                        setattr(st, field, process(sub))
                for h in getattr(st, "handlers", []) or []:
                    h.body = process(h.body)
            out.append(st)
            i += 1
        return out

    fn.body = process(fn.body)
    return count


def sink_callable_choice(fn: ast.AST) -> int:
    """``f = self.a if c else self.b`` directly followed by the only use of ``f`` - as the callee of a simple statement ``... f(args) ...`` -
    is ``if c: ... self.a(args) ... else: ... self.b(args) ...``: choosing the bound method first and calling it later is the branch."""
    if not isinstance(fn, (ast.FunctionDef, ast.AsyncFunctionDef)):
        return 0
    stores_n: dict[str, int] = {}
    loads_n: dict[str, int] = {}
    for n in _walk_own(fn):
        if isinstance(n, ast.Name):
            d = stores_n if isinstance(n.ctx, (ast.Store, ast.Del)) else loads_n
            d[n.id] = d.get(n.id, 0) + 1
    count = 0

    def ref(e: ast.expr) -> bool:
        while isinstance(e, ast.Attribute):
            e = e.value
        return isinstance(e, ast.Name)

    def process(body: list[ast.stmt]) -> list[ast.stmt]:
        nonlocal count
        out: list[ast.stmt] = []
        i = 0
        while i < len(body):
            st = body[i]
            nxt = body[i + 1] if i + 1 < len(body) else None
            if isinstance(st, ast.Assign) and len(st.targets) == 1 and isinstance(st.targets[0], ast.Name) and isinstance(st.value, ast.IfExp) and ref(st.value.body) and ref(st.value.orelse) \
                    and stores_n.get(st.targets[0].id) == 1 and loads_n.get(st.targets[0].id) == 1 and isinstance(nxt, (ast.Return, ast.Assign, ast.Expr, ast.AnnAssign)):
                name = st.targets[0].id
                callee = [c for c in ast.walk(nxt) if isinstance(c, ast.Call) and isinstance(c.func, ast.Name) and c.func.id == name]
                if len(callee) == 1 and not any(isinstance(x, (ast.Lambda, ast.GeneratorExp, ast.ListComp, ast.SetComp, ast.DictComp, ast.NamedExpr, ast.Yield, ast.YieldFrom)) for x in ast.walk(nxt)):
                    a = _Subst({name: copy.deepcopy(st.value.body)}).visit(copy.deepcopy(nxt))
                    b = _Subst({name: copy.deepcopy(st.value.orelse)}).visit(copy.deepcopy(nxt))
                    new = ast.copy_location(ast.If(test=st.value.test, body=[a], orelse=[b]), st)
                    ast.fix_missing_locations(new)
                    out.append(new)
                    count += 1
                    i += 2
                    continue
            if not isinstance(st, (ast.FunctionDef, ast.AsyncFunctionDef, ast.ClassDef)):
                for field in ("body", "orelse", "finalbody"):
                    sub = getattr(st, field, None)
                    if isinstance(sub, list) and sub and isinstance(sub[0], ast.stmt):
                        setattr(st, field, process(sub))
                for h in getattr(st, "handlers", []) or []:
                    h.body = process(h.body)
            out.append(st)
            i += 1
        return out

    fn.body = process(fn.body)
    return count


class _ApplyToLoop(ast.NodeTransformer):
    """``collections.apply(items, func)`` (the repository's own `for item in items: func(item)` helper, xsdata.utils.collections.apply) in
    statement position is the loop it abbreviates."""

    def __init__(self, is_apply) -> None:
        self.is_apply = is_apply
        self.count = 0

    def visit_FunctionDef(self, node):
        self.generic_visit(node)
        return node

    def visit_Lambda(self, node):
        return node

    def visit_Expr(self, st: ast.Expr):
        c = st.value
        if isinstance(c, ast.Call) and len(c.args) == 2 and not c.keywords and not any(isinstance(a, ast.Starred) for a in c.args) and self.is_apply(c.func) \
                and isinstance(c.args[1], (ast.Name, ast.Attribute)):
            self.count += 1
            var = f"__a{self.count}"
            call = ast.Call(func=c.args[1], args=[ast.Name(id=var, ctx=ast.Load())], keywords=[])
            loop = ast.For(target=ast.Name(id=var, ctx=ast.Store()), iter=c.args[0], body=[ast.Expr(value=call)], orelse=[], type_comment=None)
            return ast.fix_missing_locations(ast.copy_location(loop, st))
        return st


def normalize_conditionals(repo: "Repo") -> int:
    m, w, t, u, y = _MatchToIf(), _HoistWalrus(), _IfExpToIf(), _SplitTupleAssign(), _YieldFromDisplay()
    extra = 0
    for fi in repo.functions.values():
        before = (m.count, w.count, t.count, u.count, y.count)
        kinds = {type(x) for x in ast.walk(fi.node)}
        names_used = {x.id for x in ast.walk(fi.node) if isinstance(x, ast.Name)}
        fi.node._xsa_kinds = kinds  # type: ignore[attr-defined]
        fi.node._xsa_names = names_used  # type: ignore[attr-defined]
        getters = {k: g for k, v in fi.module.globals.items() if (g := _getter_of(v)) is not None}
        gc = _GetterCalls(getters, _bound_names(fi.node) if getters else set(), _bound_names(fi.node))
        sto: dict[str, int] = {}
        for x in _walk_own(fi.node):
            if isinstance(x, ast.Name) and isinstance(x.ctx, (ast.Store, ast.Del)):
                sto[x.id] = sto.get(x.id, 0) + 1
        gc.local_displays = {x.targets[0].id: x.value for x in _walk_own(fi.node) if isinstance(x, ast.Assign) and len(x.targets) == 1 and isinstance(x.targets[0], ast.Name)
                             and isinstance(x.value, (ast.Tuple, ast.List)) and sto.get(x.targets[0].id) == 1
                             and all(isinstance(e, ast.Name) and sto.get(e.id, 0) <= 1 or not isinstance(e, ast.Name) for e in x.value.elts)
                             and not any(isinstance(y, (ast.Call, ast.NamedExpr)) for e in x.value.elts for y in ast.walk(e))}
        def _partial(v: ast.expr) -> bool:
            return isinstance(v, ast.Call) and ast.unparse(v.func) in ("functools.partial", "partial") and len(v.args) >= 1 and isinstance(v.args[0], (ast.Name, ast.Attribute)) \
                and not any(isinstance(a, ast.Starred) for a in v.args) and not any(k.arg is None for k in v.keywords) \
                and all(_simple_arg(a) and (not isinstance(a, ast.Name) or sto.get(a.id, 0) <= (0 if a.id in _params else 1)) for a in [*v.args[1:], *[k.value for k in v.keywords]])

        _params = {a.arg for a in [*fi.node.args.posonlyargs, *fi.node.args.args, *fi.node.args.kwonlyargs]}
        gc.local_partials = {x.targets[0].id: x.value for x in _walk_own(fi.node) if isinstance(x, ast.Assign) and len(x.targets) == 1 and isinstance(x.targets[0], ast.Name)
                             and sto.get(x.targets[0].id) == 1 and x.targets[0].id not in _params and _partial(x.value)}
        def _opcallable(v: ast.expr) -> bool:
            if not isinstance(v, ast.Call):
                return False
            nm = ast.unparse(v.func)
            if nm in ("operator.methodcaller", "methodcaller"):
                return bool(v.args) and isinstance(v.args[0], ast.Constant) and all(_simple_arg(a) and (not isinstance(a, ast.Name) or sto.get(a.id, 0) <= (0 if a.id in _params else 1))
                                                                                     for a in [*v.args[1:], *[k.value for k in v.keywords]])
            return _getter_of(v) is not None and len(v.args) == 1

        gc.module_displays = {k: v for k, v in fi.module.globals.items() if isinstance(v, (ast.Tuple, ast.List))}
        gc.local_callables = {x.targets[0].id: x.value for x in _walk_own(fi.node) if isinstance(x, ast.Assign) and len(x.targets) == 1 and isinstance(x.targets[0], ast.Name)
                              and sto.get(x.targets[0].id) == 1 and x.targets[0].id not in _params and _opcallable(x.value)}
        fi.node.body = _apply(gc, fi.node.body)
        extra += gc.count
        if gc.count:
            kinds = {type(x) for x in ast.walk(fi.node)}  # map / filter / getters became generator expressions, comparisons ...
            names_used = {x.id for x in ast.walk(fi.node) if isinstance(x, ast.Name)}
        if "apply" in names_used or "collections" in names_used:
            def _is_apply(f: ast.expr, _m=fi.module) -> bool:
                return (repo.resolve_name(_m, ast.unparse(f)) if isinstance(f, (ast.Name, ast.Attribute)) else None) == "xsdata.utils.collections:apply"

            ap = _ApplyToLoop(_is_apply)
            fi.node.body = _apply(ap, fi.node.body)
            extra += ap.count
        if ast.YieldFrom in kinds:
            extra += named_display_yields(fi.node)
        if ast.IfExp in kinds:
            extra += sink_callable_choice(fi.node)
        fi.node.body = _apply(y, fi.node.body)
        fi.node.body = _apply(m, fi.node.body)
        fi.node.body = _apply(w, fi.node.body)
        fi.node.body = _apply(u, fi.node.body)
        c = inline_condition_temps(fi.node)
        if "next" in names_used and ast.GeneratorExp in kinds:
            c += next_to_loops(fi.node)
        if ast.GeneratorExp in kinds and (ast.For in kinds or "next" in names_used):
            c += genexp_loops(fi.node)
        if ast.Tuple in kinds:
            c += scalarize_tuple_temps(fi.node)
        if ast.For in kinds or ast.YieldFrom in kinds:
            c += unroll_display_loops(fi.node, {k: v for k, v in fi.module.globals.items() if isinstance(v, (ast.Tuple, ast.List))})
        c += propagate_attr_aliases(fi.node)
        fi.node.body = _apply(t, fi.node.body)
        fi.node._xsa_kinds = {type(x) for x in ast.walk(fi.node)}  # type: ignore[attr-defined]  (after the rewrites: loops may have appeared)
        if (m.count, w.count, t.count, u.count, y.count) != before or c or gc.count:
            ast.fix_missing_locations(fi.node)
        extra += c
    return m.count + w.count + t.count + u.count + y.count + extra


def lazy_generator_temps(repo: "Repo", fi: "FuncInfo") -> int:
    """``events = self.convert_value(...)`` ... ``yield from events``: a local bound once to a call of a *generator* method and consumed
    only by ``yield from`` statements in mutually exclusive branches (same loop nesting as the binding) runs at the ``yield from``: the call
    is moved there, so that a generator object handed around as a value and the direct ``yield from self.convert_value(...)`` are the same."""
    fn = fi.node
    if fi.cls is None or not isinstance(fn, ast.FunctionDef):
        return 0
    parents: dict[int, ast.AST] = {}
    for p_ in _walk_own(fn):
        for ch in ast.iter_child_nodes(p_):
            parents[id(ch)] = p_
    for ch in ast.iter_child_nodes(fn):
        parents[id(ch)] = fn
    stores_n: dict[str, list[ast.Name]] = {}
    loads: dict[str, list[ast.Name]] = {}
    for n in _walk_own(fn):
        if isinstance(n, ast.Name):
            (stores_n if isinstance(n.ctx, (ast.Store, ast.Del)) else loads).setdefault(n.id, []).append(n)
    params = {a.arg for a in [*fn.args.posonlyargs, *fn.args.args, *fn.args.kwonlyargs]}
    order: dict[int, int] = {}

    def number(n: ast.AST) -> None:
        order[id(n)] = len(order)
        for ch in ast.iter_child_nodes(n):
            if not isinstance(ch, (ast.FunctionDef, ast.AsyncFunctionDef, ast.ClassDef, ast.Lambda)):
                number(ch)

    number(fn)

    def chain_to(n: ast.AST) -> list[ast.AST]:
        out = []
        while id(n) in parents:
            n = parents[id(n)]
            out.append(n)
        return out

    def loop_of(n: ast.AST) -> ast.AST | None:
        return next((a for a in chain_to(n) if isinstance(a, (ast.For, ast.While))), None)

    def arm(if_: ast.If, n: ast.AST) -> str:
        ch = [n, *chain_to(n)]
        below = ch[ch.index(if_) - 1]
        return "body" if any(below is x for x in if_.body) else "orelse"

    count = 0
    for st in list(_walk_own(fn)):
        if not (isinstance(st, ast.Assign) and len(st.targets) == 1 and isinstance(st.targets[0], ast.Name) and isinstance(st.value, ast.Call)) or hasattr(st, "_xsa_jump"):
            continue
        name = st.targets[0].id
        call = st.value
        f = call.func
        if name in params or len(stores_n.get(name, [])) != 1 or not loads.get(name):
            continue
        if not (isinstance(f, ast.Attribute) and isinstance(f.value, ast.Name) and f.value.id in ("self", "cls")):
            continue
        h = fi.cls.find_method(f.attr)
        if h is None or not _is_generator(h.node):
            continue
        # arguments: plain names / attribute chains / constants whose roots are bound at most once (parameters: never)
        ok = True
        for a in [*call.args, *[k.value for k in call.keywords]]:
            e = a
            while isinstance(e, ast.Attribute):
                e = e.value
            if isinstance(e, ast.Constant):
                continue
            # every binding of the root precedes this statement (so nothing rebinds it between the call and its consumption)
            if not isinstance(e, ast.Name) or any(order.get(id(x), 1 << 30) > order[id(st)] for x in stores_n.get(e.id, [])):
                ok = False
        if not ok:
            continue
        uses = loads[name]
        use_stmts = []
        for u in uses:
            yf = parents.get(id(u))
            es = parents.get(id(yf)) if yf is not None else None
            if isinstance(yf, ast.For) and yf.iter is u and len(uses) == 1:
                use_stmts.append(yf)  # `for x in events:` - the only consumer
                continue
            if not (isinstance(yf, ast.YieldFrom) and isinstance(es, ast.Expr)):
                ok = False
                break
            use_stmts.append(es)
        if not ok or any(loop_of(u) is not loop_of(st) for u in use_stmts):
            continue
        # mutually exclusive: every pair of uses sits in different arms of a common `if`
        for i, a in enumerate(use_stmts):
            for b in use_stmts[i + 1:]:
                common = next((x for x in chain_to(a) if isinstance(x, ast.If) and any(x is y for y in chain_to(b))), None)
                if common is None or arm(common, a) == arm(common, b):
                    # not two arms of one `if`: still exclusive when neither use can run after the other without the binding running
                    # again in between (an early return / the jump of a spliced helper separates them)
                    from .cfg import build_cfg
                    for attr in ("_xsa_cfg",):
                        if hasattr(fn, attr):
                            delattr(fn, attr)
                    g_ = build_cfg(fn)
                    na, nb, nd = g_.node_of(a), g_.node_of(b), g_.node_of(st)
                    if na is None or nb is None or nd is None or nb.id in g_.reachable([m for m, _ in g_.succ[na.id]], blocked=[nd.id]) \
                            or na.id in g_.reachable([m for m, _ in g_.succ[nb.id]], blocked=[nd.id]):
                        ok = False
        if not ok:
            continue
        # the binding statement goes away; the call is evaluated at the (single executed) use
        for u in uses:
            if isinstance(parents[id(u)], ast.For):
                parents[id(u)].iter = copy.deepcopy(call)  # type: ignore[union-attr]
            else:
                parents[id(u)].value = copy.deepcopy(call)  # type: ignore[union-attr]
        holder = parents[id(st)]
        for field in ("body", "orelse", "finalbody"):
            blk = getattr(holder, field, None)
            if isinstance(blk, list) and any(x is st for x in blk):
                blk[:] = [x for x in blk if x is not st] or [ast.copy_location(ast.Pass(), st)]
        count += 1
    if count:
        ast.fix_missing_locations(fn)
        for attr in ("_xsa_cfg", "_xsa_asrc"):
            if hasattr(fn, attr):
                delattr(fn, attr)
    return count


def inline_private_helpers(repo: "Repo") -> dict:
    n = normalize_conditionals(repo)
    inl = Inliner(repo)
    lazy0 = 0
    for fi in list(repo.functions.values()):
        kinds = getattr(fi.node, "_xsa_kinds", None)
        if fi.cls is not None and (kinds is None or ast.YieldFrom in kinds or ast.For in kinds):
            lazy0 += lazy_generator_temps(repo, fi)
    inl.run()
    inl.stats["conditional_expressions_split"] = n
    # the parameter bindings of spliced helpers (`element = pending`) are plain copies: propagate them like hand-written aliases
    post = lazy = 0
    for _round in range(2):
        again = []
        for q in list(inl.introduced):
            fi = repo.functions.get(q)
            if fi is not None:
                yy = _YieldFromDisplay()
                fi.node.body = _apply(yy, fi.node.body)
                if yy.count:
                    ast.fix_missing_locations(fi.node)
                    post += yy.count
                post += scalarize_tuple_temps(fi.node)
                post += unroll_display_loops(fi.node, {k: v for k, v in fi.module.globals.items() if isinstance(v, (ast.Tuple, ast.List))})
                post += propagate_attr_aliases(fi.node, names_only=True)
                c = lazy_generator_temps(repo, fi)
                if c:
                    lazy += c
                    again.append(fi)
        if not again:
            break
        # a generator call moved to its `yield from` may now be a spliceable helper call
        for fi in again:
            inl.done.discard(fi.qual)
            inl.inline_function(fi)
    inl.stats["absorbed"] = _drop_absorbed(repo, inl.sites)
    inl.stats["aliases_after_inlining"] = post
    inl.stats["lazy_generator_temps"] = lazy + lazy0
    return inl.stats


def _drop_absorbed(repo: "Repo", sites: dict[str, int]) -> list[str]:
    """A helper that does not exist in the pinned tree and whose every use was inlined is nothing but a part of its callers: it is taken
    out of the model, so that "who may do X" scans see the operation once - in the caller - and not a second time in the helper."""
    known = known_functions()
    cands = {q: repo.functions[q] for q in sites if q not in known and q in repo.functions}
    if not cands:
        return []
    by_name: dict[str, list[str]] = {}
    for q, h in cands.items():
        by_name.setdefault(h.name, []).append(q)
    used: set[str] = set()
    for mod in repo.modules.values():
        skip = {id(h.node) for h in cands.values() if h.module is mod}

        def walk(node: ast.AST):
            for ch in ast.iter_child_nodes(node):
                if id(ch) in skip:
                    continue
                if isinstance(ch, ast.Attribute) and ch.attr in by_name:
                    used.add(ch.attr)
                elif isinstance(ch, ast.Name) and ch.id in by_name and isinstance(ch.ctx, ast.Load):
                    used.add(ch.id)
                elif isinstance(ch, ast.Constant) and isinstance(ch.value, str) and ch.value in by_name:
                    used.add(ch.value)  # getattr(self, "helper")
                walk(ch)

        walk(mod.tree)
    gone = []
    for q, h in cands.items():
        if h.name in used:
            continue
        # a method that overrides / is overridden is part of an interface, not a private piece of its caller
        if h.cls is not None and (any(h.name in c.methods for c in h.cls.mro[1:]) or any(h.name in c.methods for c in h.cls.all_subclasses())):
            continue
        body = h.cls.node.body if h.cls is not None else h.module.tree.body
        if h.node in body:
            body.remove(h.node)
        repo.functions.pop(q, None)
        if h.cls is not None:
            h.cls.methods.pop(h.name, None)
        lst = repo.methods_by_name.get(h.name)
        if lst and h in lst:
            lst.remove(h)
        gone.append(q)
    return sorted(gone)


def origin(repo: "Repo", fi: "FuncInfo", node: ast.AST) -> "FuncInfo":
    """The function a node was written in (the helper, for nodes of an inlined block)."""
    q = getattr(node, "_xsa_origin", None)
    return repo.functions.get(q, fi) if q else fi
