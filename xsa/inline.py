"""Private-helper inlining view.

"Extract method" is the most common behaviour-preserving refactoring; a rule anchored on function F must
not change its verdict because a block of F moved into a private helper.  After loading, every call from F
to an *underscore-private* helper of the same class / module is replaced, in F's syntax tree, by the
helper's body (parameters bound to the argument expressions), so that every rule sees the same code whether
or not the helper was extracted.  Helpers stay addressable as functions of their own as well.

Two forms:

* expression helpers (body = ``return <expr>``) are substituted in place at any call position;
* statement helpers are spliced at statement level::

      x = self._h(a)        ->      if True:              # tagged _xsa_inline = k
                                        p = a             # parameter binding (only when names differ)
                                        ...body...        # `return v` -> `__ret_k = v`  (tagged _xsa_jump = k)
                                    x = __ret_k

  The CFG builder gives the tagged ``if True`` no test node and routes tagged jumps to the end of the block.

Eligible: name starts with one underscore; resolved through ``self.`` / ``cls.`` / ``ClassName.`` to a method that no
subclass overrides, or a bare name to a function of the same module; no decorator other than staticmethod /
classmethod; no ``*args`` / ``**kwargs`` on either side; not recursive; generators only for ``yield from self._h(...)``
statements.
"""

from __future__ import annotations

import ast
import copy
from typing import TYPE_CHECKING

if TYPE_CHECKING:
    from .model import FuncInfo, Repo

MAX_DEPTH = 4
_KNOWN: set[str] | None = None


def known_functions() -> set[str]:
    """Qualified names of the functions of the pinned tree (xsa/known_functions.txt, regenerated when the rules are re-confirmed).
    A function that is not in the list did not exist when the rules were written - typically the product of an "extract method"
    refactoring - and is analysed inlined into its same-class / same-module callers, like an underscore-private helper."""
    global _KNOWN
    if _KNOWN is None:
        from pathlib import Path

        p = Path(__file__).with_name("known_functions.txt")
        _KNOWN = set(p.read_text().split()) if p.exists() else set()
    return _KNOWN
SCOPES = (ast.FunctionDef, ast.AsyncFunctionDef, ast.Lambda, ast.ClassDef)


def _walk_own(node: ast.AST):
    """Walk without entering nested function / class definitions (comprehensions and lambdas are entered)."""
    stack = list(ast.iter_child_nodes(node))
    while stack:
        n = stack.pop()
        yield n
        if not isinstance(n, (ast.FunctionDef, ast.AsyncFunctionDef, ast.ClassDef)):
            stack.extend(ast.iter_child_nodes(n))


def _is_generator(fn: ast.AST) -> bool:
    return any(isinstance(n, (ast.Yield, ast.YieldFrom)) for n in _walk_own(fn))


def _body_without_doc(fn: ast.FunctionDef) -> list[ast.stmt]:
    body = fn.body
    if body and isinstance(body[0], ast.Expr) and isinstance(body[0].value, ast.Constant) and isinstance(body[0].value.value, str):
        body = body[1:]
    return body


def _bound_names(fn: ast.FunctionDef) -> set[str]:
    out = {a.arg for a in [*fn.args.posonlyargs, *fn.args.args, *fn.args.kwonlyargs]}
    for n in _walk_own(fn):
        if isinstance(n, ast.Name) and isinstance(n.ctx, (ast.Store, ast.Del)):
            out.add(n.id)
        elif isinstance(n, ast.ExceptHandler) and n.name:
            out.add(n.name)
        elif isinstance(n, ast.arg):
            out.add(n.arg)
    return out


def _all_names(fn: ast.AST) -> set[str]:
    out: set[str] = set()
    for n in ast.walk(fn):
        if isinstance(n, ast.Name):
            out.add(n.id)
        elif isinstance(n, ast.arg):
            out.add(n.arg)
        elif isinstance(n, ast.ExceptHandler) and n.name:
            out.add(n.name)
    return out


class _Subst(ast.NodeTransformer):
    def __init__(self, mapping: dict[str, ast.expr | str]):
        self.mapping = mapping

    def visit_Name(self, node: ast.Name) -> ast.AST:
        m = self.mapping.get(node.id)
        if m is None:
            return node
        if isinstance(m, str):
            return ast.copy_location(ast.Name(id=m, ctx=node.ctx), node)
        if isinstance(node.ctx, ast.Load):
            return ast.copy_location(copy.deepcopy(m), node)
        return node

    def visit_ExceptHandler(self, node: ast.ExceptHandler) -> ast.AST:
        self.generic_visit(node)
        m = self.mapping.get(node.name or "")
        if isinstance(m, str):
            node.name = m
        return node


def _simple_arg(e: ast.expr) -> bool:
    while isinstance(e, ast.Attribute):
        e = e.value
    return isinstance(e, (ast.Name, ast.Constant))


class Inliner:
    def __init__(self, repo: "Repo"):
        self.repo = repo
        self.counter = 0
        self.done: set[str] = set()
        self.stack: list[str] = []
        self.stats = {"expression": 0, "statement": 0, "callers": 0}
        self.sites: dict[str, int] = {}
        self.introduced: dict[str, set[str]] = {}

    # ------------------------------------------------------------------ resolution
    def _helper_for(self, fi: "FuncInfo", call: ast.Call) -> "FuncInfo | None":
        f = call.func
        name = f.attr if isinstance(f, ast.Attribute) else (f.id if isinstance(f, ast.Name) else "")
        if not name or name.startswith("__"):
            return None
        private = name.startswith("_")
        if any(isinstance(a, ast.Starred) for a in call.args) or any(k.arg is None for k in call.keywords):
            return None
        h: FuncInfo | None = None
        if isinstance(f, ast.Attribute) and isinstance(f.value, ast.Name):
            recv = f.value.id
            if recv in ("self", "cls") and fi.cls is not None:
                h = fi.cls.find_method(name)
                if h is not None and any(name in sub.methods for sub in fi.cls.all_subclasses()):
                    return None
                if h is not None and h.cls is not None and h.cls is not fi.cls and any(name in sub.methods for sub in h.cls.all_subclasses()):
                    return None
            else:
                q = self.repo.resolve_name(fi.module, recv)
                ci = self.repo.classes.get(q or "")
                if ci is not None:
                    h = ci.find_method(name)
                    if h is not None and not (h.is_staticmethod or h.is_classmethod):
                        return None
                    if h is not None and any(name in sub.methods for sub in ci.all_subclasses()):
                        return None
        elif isinstance(f, ast.Name):
            h = self.repo.functions.get(f"{fi.module.name}:{name}")
            if h is None:
                # a local closure (`def convert(raw): return ...` inside the function) that is only called, never passed around or rebound
                nested = [n for n in _walk_own(fi.node) if isinstance(n, ast.FunctionDef) and n.name == name]
                other_uses = [n for n in ast.walk(fi.node) if isinstance(n, ast.Name) and n.id == name and not any(n is c.func for c in ast.walk(fi.node) if isinstance(c, ast.Call))]
                if len(nested) == 1 and not other_uses and not nested[0].decorator_list and not any(isinstance(x, (ast.Nonlocal, ast.Global)) for x in ast.walk(nested[0])) \
                        and not any(isinstance(c, ast.Call) and isinstance(c.func, ast.Name) and c.func.id == name for c in ast.walk(nested[0])):
                    from .model import FuncInfo as _FI
                    h = _FI(qual=f"{fi.qual}.<locals>.{name}", module=fi.module, cls=None, node=nested[0], name=name)
        if h is None or h.qual == fi.qual or h.qual in self.stack:
            return None
        if not private and h.qual in known_functions():
            return None  # a function of the pinned tree: part of the design the rules were confirmed against, analysed in place
        if isinstance(h.node, ast.AsyncFunctionDef) or h.is_property:
            return None
        if any(d not in ("staticmethod", "classmethod") for d in h.decorators):
            return None
        a = h.node.args
        if a.vararg or a.kwarg:
            return None
        return h

    def _bind(self, fi: "FuncInfo", h: "FuncInfo", call: ast.Call) -> dict[str, ast.expr] | None:
        """Parameter name -> argument expression (receiver included)."""
        a = h.node.args
        pos = [*a.posonlyargs, *a.args]
        out: dict[str, ast.expr] = {}
        if h.cls is not None and not h.is_staticmethod:
            if not pos:
                return None
            recv = call.func.value if isinstance(call.func, ast.Attribute) else None
            first = pos[0].arg
            pos = pos[1:]
            if isinstance(recv, ast.Name) and recv.id in ("self", "cls"):
                if h.is_classmethod and recv.id == "self":
                    out[first] = ast.Attribute(value=ast.Name(id="self", ctx=ast.Load()), attr="__class__", ctx=ast.Load())
                else:
                    out[first] = ast.Name(id=recv.id, ctx=ast.Load())
            elif recv is not None:
                out[first] = copy.deepcopy(recv)
            else:
                return None
        if len(call.args) > len(pos):
            return None
        for p, v in zip(pos, call.args):
            out[p.arg] = v
        names = {p.arg for p in [*pos, *a.kwonlyargs]}
        for k in call.keywords:
            if k.arg not in names or k.arg in out:
                return None
            out[k.arg] = k.value
        defaults = h.param_defaults()
        for p in [*pos, *a.kwonlyargs]:
            if p.arg not in out:
                if p.arg not in defaults:
                    return None
                out[p.arg] = defaults[p.arg]
        return out

    # ------------------------------------------------------------------ driver
    def run(self) -> None:
        for fi in list(self.repo.functions.values()):
            self.inline_function(fi)

    def inline_function(self, fi: "FuncInfo", depth: int = 0) -> None:
        if fi.qual in self.done or depth > MAX_DEPTH:
            return
        self.done.add(fi.qual)
        calls = [n for n in _walk_own(fi.node) if isinstance(n, ast.Call)]
        if not any(self._helper_for(fi, c) is not None for c in calls):
            return
        self.stack.append(fi.qual)
        try:
            before = (self.stats["expression"], self.stats["statement"])
            fi.node.body = self._rewrite_block(fi, fi.node.body, depth)
            if (self.stats["expression"], self.stats["statement"]) != before:
                self.stats["callers"] += 1
                ast.fix_missing_locations(fi.node)
                for attr in ("_xsa_cfg", "_xsa_asrc"):
                    if hasattr(fi.node, attr):
                        delattr(fi.node, attr)
        finally:
            self.stack.pop()

    # ------------------------------------------------------------------ expression helpers
    def _expr_helper(self, h: "FuncInfo") -> ast.expr | None:
        body = _body_without_doc(h.node)
        if not body or not isinstance(body[-1], ast.Return) or body[-1].value is None or _is_generator(h.node):
            return None
        # straight-line temporaries followed by one return: fold the temporaries into the returned expression
        temps: dict[str, ast.expr] = {}
        params = {a.arg for a in [*h.node.args.posonlyargs, *h.node.args.args, *h.node.args.kwonlyargs]}
        for st in body[:-1]:
            if isinstance(st, ast.AnnAssign) and isinstance(st.target, ast.Name) and st.value is not None:
                name, value = st.target.id, st.value
            elif isinstance(st, ast.Assign) and len(st.targets) == 1 and isinstance(st.targets[0], ast.Name):
                name, value = st.targets[0].id, st.value
            else:
                return None
            if name in temps or name in params:
                return None
            temps[name] = _Subst(dict(temps)).visit(copy.deepcopy(value))
        return _Subst(dict(temps)).visit(copy.deepcopy(body[-1].value)) if temps else body[-1].value

    def _subst_expressions(self, fi: "FuncInfo", node: ast.AST, depth: int) -> ast.AST:
        """Replace calls to expression helpers inside ``node`` (any position)."""
        inl = self

        class T(ast.NodeTransformer):
            def visit_FunctionDef(self, n):  # do not enter nested defs
                return n

            visit_AsyncFunctionDef = visit_FunctionDef
            visit_ClassDef = visit_FunctionDef

            def visit_Call(self, c: ast.Call) -> ast.AST:
                self.generic_visit(c)
                h = inl._helper_for(fi, c)
                if h is None:
                    return c
                inl.inline_function(h, depth + 1)
                expr = inl._expr_helper(h)
                if expr is None:
                    return c
                bind = inl._bind(fi, h, c)
                if bind is None:
                    return c
                uses: dict[str, int] = {}
                for x in ast.walk(expr):
                    if isinstance(x, ast.Name):
                        uses[x.id] = uses.get(x.id, 0) + 1
                for p, v in bind.items():
                    if uses.get(p, 0) > 1 and not _simple_arg(v):
                        return c
                # names bound inside the helper expression (comprehension variables) must not capture caller names used in the arguments
                inner_bound = {x.id for x in ast.walk(expr) if isinstance(x, ast.Name) and isinstance(x.ctx, ast.Store)} | {x.arg for x in ast.walk(expr) if isinstance(x, ast.arg)}
                arg_names: set[str] = set()
                for v in bind.values():
                    arg_names |= _all_names(v)
                if inner_bound & (arg_names | set(bind)):
                    return c
                new = _Subst(dict(bind)).visit(copy.deepcopy(expr))
                for sub in ast.walk(new):
                    if not hasattr(sub, "_xsa_origin"):
                        sub._xsa_origin = h.qual  # type: ignore[attr-defined]
                inl.stats["expression"] += 1
                inl.sites[h.qual] = inl.sites.get(h.qual, 0) + 1
                return ast.copy_location(new, c)

        return T().visit(node)

    # ------------------------------------------------------------------ statement helpers
    def _stmt_call(self, st: ast.stmt) -> tuple[ast.Call, str] | None:
        """The call of a statement that sits in a spliceable position, with the position kind."""
        if isinstance(st, ast.Expr):
            if isinstance(st.value, ast.Call):
                return st.value, "expr"
            if isinstance(st.value, ast.YieldFrom) and isinstance(st.value.value, ast.Call):
                return st.value.value, "yieldfrom"
        if isinstance(st, (ast.Assign, ast.AnnAssign, ast.AugAssign, ast.Return)) and isinstance(st.value, ast.Call):
            return st.value, "value"
        if isinstance(st, ast.If):
            t = st.test
            if isinstance(t, ast.UnaryOp) and isinstance(t.op, ast.Not):
                t = t.operand
            if isinstance(t, ast.Call):
                return t, "test"
        return None

    def _splice(self, fi: "FuncInfo", st: ast.stmt, call: ast.Call, kind: str, depth: int) -> list[ast.stmt] | None:
        h = self._helper_for(fi, call)
        if h is None:
            return None
        self.inline_function(h, depth + 1)
        gen = _is_generator(h.node)
        if gen != (kind == "yieldfrom"):
            return None
        bind = self._bind(fi, h, call)
        if bind is None:
            return None
        self.counter += 1
        k = self.counter
        body = copy.deepcopy(_body_without_doc(h.node))
        holder = ast.Module(body=body, type_ignores=[])
        caller_names = _all_names(fi.node) | self.introduced.get(fi.qual, set())  # incl. names brought in by earlier splices into this function
        helper_bound = _bound_names(h.node)
        params = [*h.node.args.posonlyargs, *h.node.args.args, *h.node.args.kwonlyargs]
        ann = {p.arg: p.annotation for p in params}
        stored = {n.id for n in _walk_own(holder) if isinstance(n, ast.Name) and isinstance(n.ctx, (ast.Store, ast.Del))}
        rename: dict[str, ast.expr | str] = {}
        binds: list[ast.stmt] = []
        for p, v in bind.items():
            same = isinstance(v, ast.Name) and v.id == p
            if same and p not in stored:
                continue
            target = p
            if p in caller_names and not same or (same and p in stored):
                target = f"{p}__i{k}"
                rename[p] = target
            tgt = ast.Name(id=target, ctx=ast.Store())
            if ann.get(p) is not None:
                binds.append(ast.AnnAssign(target=tgt, annotation=copy.deepcopy(ann[p]), value=copy.deepcopy(v), simple=1))
            else:
                binds.append(ast.Assign(targets=[tgt], value=copy.deepcopy(v)))
        for name in helper_bound - set(bind):
            if name in caller_names:
                rename[name] = f"{name}__i{k}"
        if rename:
            holder = _Subst(rename).visit(holder)
        self.introduced.setdefault(fi.qual, set()).update({(rename.get(nm, nm) if isinstance(rename.get(nm, nm), str) else nm) for nm in (helper_bound | set(bind))})
        ret_name = f"__ret_{k}"
        as_condition = kind == "test"

        class R(ast.NodeTransformer):
            def visit_FunctionDef(self, n):
                return n

            visit_AsyncFunctionDef = visit_FunctionDef
            visit_ClassDef = visit_FunctionDef
            visit_Lambda = visit_FunctionDef

            def visit_Return(self, r: ast.Return) -> ast.AST:
                def jump(v: ast.expr) -> ast.Assign:
                    a = ast.Assign(targets=[ast.Name(id=ret_name, ctx=ast.Store())], value=v)
                    a._xsa_jump = k  # type: ignore[attr-defined]
                    ast.copy_location(a, r)
                    ast.copy_location(a.targets[0], r)
                    if not hasattr(v, "lineno"):
                        ast.copy_location(v, r)
                    return a

                v = r.value or ast.Constant(value=None)
                if as_condition and not isinstance(v, ast.Constant):
                    # the result is only tested: `return E` is `if E: return True / else: return False`, which keeps the decision in the
                    # control flow (every atomic test of E becomes a test of the caller)
                    return ast.copy_location(ast.If(test=v, body=[jump(ast.Constant(value=True))], orelse=[jump(ast.Constant(value=False))]), r)
                return jump(v)

        holder = R().visit(holder)
        block = ast.If(test=ast.Constant(value=True), body=[*binds, *holder.body] or [ast.Pass()], orelse=[])
        block._xsa_inline = k  # type: ignore[attr-defined]
        block._xsa_helper = h.qual  # type: ignore[attr-defined]
        for sub in ast.walk(holder):
            if not hasattr(sub, "_xsa_origin"):
                sub._xsa_origin = h.qual  # type: ignore[attr-defined]
        ast.copy_location(block, st)
        for b in binds:
            ast.copy_location(b, st)
        out: list[ast.stmt] = [block]
        if kind in ("expr", "yieldfrom"):
            pass
        else:
            has_value = any(isinstance(n, ast.Return) and n.value is not None for n in _walk_own(h.node))
            repl: ast.expr = ast.Name(id=ret_name, ctx=ast.Load()) if has_value else ast.Constant(value=None)
            ast.copy_location(repl, call)
            if kind == "value":
                st.value = repl  # type: ignore[union-attr]
            else:
                t = st.test  # type: ignore[union-attr]
                if isinstance(t, ast.UnaryOp):
                    t.operand = repl
                else:
                    st.test = repl  # type: ignore[union-attr]
            out.append(st)
        self.stats["statement"] += 1
        self.sites[h.qual] = self.sites.get(h.qual, 0) + 1
        return out

    def _rewrite_block(self, fi: "FuncInfo", body: list[ast.stmt], depth: int) -> list[ast.stmt]:
        out: list[ast.stmt] = []
        for st in body:
            if isinstance(st, (ast.FunctionDef, ast.AsyncFunctionDef, ast.ClassDef)):
                out.append(st)
                continue
            # 0. `if a and helper(x): body` (no else) is `if a: if helper(x): body`: gives the helper call a statement of its own to be spliced at
            if isinstance(st, ast.If) and not st.orelse and isinstance(st.test, ast.BoolOp) and isinstance(st.test.op, ast.And) and not hasattr(st, "_xsa_inline"):
                def _is_helper_call(v: ast.expr) -> bool:
                    while isinstance(v, ast.UnaryOp) and isinstance(v.op, ast.Not):
                        v = v.operand
                    if not isinstance(v, ast.Call):
                        return False
                    h_ = self._helper_for(fi, v)
                    return h_ is not None and not _is_generator(h_.node) and self._expr_helper(h_) is None

                if any(_is_helper_call(v) for v in st.test.values):
                    inner_body = st.body
                    for v in reversed(st.test.values[1:]):
                        nested = ast.copy_location(ast.If(test=v, body=inner_body, orelse=[]), st)
                        inner_body = [nested]
                    st.test = st.test.values[0]
                    st.body = inner_body
            # 1. expression helpers anywhere in the statement's own expressions
            for field, value in list(ast.iter_fields(st)):
                if isinstance(value, ast.expr):
                    setattr(st, field, self._subst_expressions(fi, value, depth))
                elif isinstance(value, list) and value and isinstance(value[0], ast.expr):
                    setattr(st, field, [self._subst_expressions(fi, v, depth) for v in value])
                elif isinstance(value, list) and value and isinstance(value[0], ast.withitem):
                    for w in value:
                        w.context_expr = self._subst_expressions(fi, w.context_expr, depth)
            # 2. nested blocks
            for field in ("body", "orelse", "finalbody"):
                sub = getattr(st, field, None)
                if isinstance(sub, list) and sub and isinstance(sub[0], ast.stmt):
                    setattr(st, field, self._rewrite_block(fi, sub, depth))
            for hnd in getattr(st, "handlers", []) or []:
                hnd.body = self._rewrite_block(fi, hnd.body, depth)
            for case in getattr(st, "cases", []) or []:
                case.body = self._rewrite_block(fi, case.body, depth)
            # 3. statement-level splice
            sc = self._stmt_call(st)
            spliced = self._splice(fi, st, sc[0], sc[1], depth) if sc is not None else None
            if spliced is None:
                # 4. a helper call that is evaluated first inside a larger expression (`self.build_x(a).run(b)`, `f(self.build_x(a), b)`) is
                #    given a temporary of its own, then spliced like any `tmp = helper(...)`
                hoisted = self._hoist_first_call(fi, st)
                if hoisted is not None:
                    pre, st2 = hoisted
                    sp = self._splice(fi, pre, pre.value, "value", depth)
                    if sp is not None:
                        out.extend(sp)
                        out.append(st2)
                        continue
                    # not spliceable after all: undo
                    self._unhoist(st2, pre)
                out.append(st)
            else:
                out.extend(spliced)
        return out

    def _first_evaluated_call(self, e: ast.expr) -> ast.Call | None:
        """The call that runs first when ``e`` is evaluated, if it sits in receiver / first-argument position of the outer call."""
        if not isinstance(e, ast.Call):
            return None
        f = e.func
        # receiver chain: h(...).m(...)  /  h(...).attr.m(...)
        cur = f
        while isinstance(cur, ast.Attribute):
            cur = cur.value
        if isinstance(cur, ast.Call):
            return cur
        if isinstance(cur, ast.Name) or isinstance(f, ast.Attribute):
            for a in e.args:
                if isinstance(a, ast.Call):
                    return a
                if not isinstance(a, (ast.Name, ast.Attribute, ast.Constant)):
                    return None
        return None

    def _hoist_first_call(self, fi: "FuncInfo", st: ast.stmt):
        if isinstance(st, ast.Expr):
            root = st.value
        elif isinstance(st, (ast.Assign, ast.AnnAssign, ast.Return)) and st.value is not None:
            root = st.value
        else:
            return None
        if isinstance(root, (ast.Yield, ast.YieldFrom, ast.Await)):
            return None
        inner = self._first_evaluated_call(root)
        if inner is None:
            return None
        h = self._helper_for(fi, inner)
        if h is None or _is_generator(h.node) or self._expr_helper(h) is not None:
            return None
        self.counter += 1
        name = f"__call_{self.counter}"
        pre = ast.Assign(targets=[ast.Name(id=name, ctx=ast.Store())], value=inner, type_comment=None)
        ast.copy_location(pre, st)
        ast.copy_location(pre.targets[0], st)
        repl = ast.copy_location(ast.Name(id=name, ctx=ast.Load()), inner)

        class T(ast.NodeTransformer):
            def visit_Call(self, c: ast.Call):
                if c is inner:
                    return repl
                return self.generic_visit(c)

        T().visit(st)
        st._xsa_hoisted = (repl, inner)  # type: ignore[attr-defined]
        return pre, st

    def _unhoist(self, st: ast.stmt, pre: ast.Assign) -> None:
        repl, inner = st._xsa_hoisted  # type: ignore[attr-defined]

        class T(ast.NodeTransformer):
            def visit_Name(self, n: ast.Name):
                return inner if n is repl else n

        T().visit(st)


class _IfExpToIf(ast.NodeTransformer):
    """``x = a if c else b`` / ``return a if c else b`` / ``x op= a if c else b`` / ``yield a if c else b`` become if/else
    statements, so that a conditional expression and the equivalent if/else statement are one and the same to every rule
    (the CFG atomises the condition, control dependence applies to each arm)."""

    def __init__(self) -> None:
        self.count = 0

    def _split(self, st: ast.stmt, value: ast.IfExp, make) -> ast.If:
        self.count += 1
        a, b = make(value.body), make(value.orelse)
        new = ast.If(test=value.test, body=[self.visit(ast.copy_location(a, st))], orelse=[self.visit(ast.copy_location(b, st))])
        new._xsa_ifexp = True  # type: ignore[attr-defined]
        return ast.copy_location(new, st)

    def visit_FunctionDef(self, node):
        self.generic_visit(node)
        return node

    def _flatten(self, x):
        return x

    def visit_Assign(self, st: ast.Assign):
        if isinstance(st.value, ast.IfExp) and not any(isinstance(n, (ast.NamedExpr, ast.Yield, ast.YieldFrom, ast.Await)) for n in ast.walk(st)):
            return self._split(st, st.value, lambda v: ast.Assign(targets=copy.deepcopy(st.targets), value=v))
        return st

    def visit_AnnAssign(self, st: ast.AnnAssign):
        if isinstance(st.value, ast.IfExp) and isinstance(st.target, ast.Name):
            return self._split(st, st.value, lambda v: ast.AnnAssign(target=copy.deepcopy(st.target), annotation=copy.deepcopy(st.annotation), value=v, simple=st.simple))
        return st

    def visit_AugAssign(self, st: ast.AugAssign):
        if isinstance(st.value, ast.IfExp):
            return self._split(st, st.value, lambda v: ast.AugAssign(target=copy.deepcopy(st.target), op=st.op, value=v))
        return st

    def visit_Return(self, st: ast.Return):
        if isinstance(st.value, ast.IfExp):
            return self._split(st, st.value, lambda v: ast.Return(value=v))
        return st

    def visit_Expr(self, st: ast.Expr):
        if isinstance(st.value, ast.Yield) and isinstance(st.value.value, ast.IfExp):
            return self._split(st, st.value.value, lambda v: ast.Expr(value=ast.Yield(value=v)))
        return st

    def visit_Lambda(self, node):
        return node


def unroll_display_loops(fn: ast.AST, module_displays: dict[str, ast.expr] | None = None) -> int:
    """``for x in (a, b, c): body`` (the display written in place, or named by a local that is used for nothing else) becomes
    ``x = a; body; x = b; body; x = c; body``: a short fixed sequence written as a loop over a literal and the same sequence written out are
    one and the same to every rule.  Only loops without break / continue / else, a plain name as target and at most 10 items."""
    count = 0
    uses: dict[str, int] = {}
    defs: dict[str, list[ast.Assign]] = {}
    for n in _walk_own(fn):
        if isinstance(n, ast.Name):
            if isinstance(n.ctx, ast.Load):
                uses[n.id] = uses.get(n.id, 0) + 1
            else:
                defs.setdefault(n.id, [])
        if isinstance(n, ast.Assign) and len(n.targets) == 1 and isinstance(n.targets[0], ast.Name):
            defs.setdefault(n.targets[0].id, []).append(n)
    stores_n: dict[str, int] = {}
    for n in _walk_own(fn):
        if isinstance(n, ast.Name) and isinstance(n.ctx, (ast.Store, ast.Del)):
            stores_n[n.id] = stores_n.get(n.id, 0) + 1

    def display_of(it: ast.expr) -> tuple[ast.expr | None, ast.Assign | None]:
        if isinstance(it, (ast.Tuple, ast.List)):
            return it, None
        if isinstance(it, ast.Name) and module_displays and it.id in module_displays and stores_n.get(it.id, 0) == 0:
            return copy.deepcopy(module_displays[it.id]), None  # a module-level constant tuple / list
        if isinstance(it, ast.Name) and uses.get(it.id, 0) == 1 and stores_n.get(it.id, 0) == 1 and len(defs.get(it.id, [])) == 1 and isinstance(defs[it.id][0].value, (ast.Tuple, ast.List)):
            return defs[it.id][0].value, defs[it.id][0]
        return None, None

    def process(body: list[ast.stmt]) -> list[ast.stmt]:
        nonlocal count
        out: list[ast.stmt] = []
        drop: set[int] = set()
        for st in body:
            for field in ("body", "orelse", "finalbody"):
                sub = getattr(st, field, None)
                if isinstance(sub, list) and sub and isinstance(sub[0], ast.stmt) and not isinstance(st, (ast.FunctionDef, ast.AsyncFunctionDef, ast.ClassDef)):
                    setattr(st, field, process(sub))
            for h in getattr(st, "handlers", []) or []:
                h.body = process(h.body)
            if isinstance(st, ast.For) and isinstance(st.target, ast.Name) and not st.orelse:
                disp, named = display_of(st.iter)
                if disp is not None and 0 < len(disp.elts) <= 10 and not any(isinstance(e, ast.Starred) for e in disp.elts) and len(st.body) * len(disp.elts) <= 80 \
                        and not any(isinstance(x, (ast.Break, ast.Continue, ast.Yield, ast.YieldFrom, ast.FunctionDef, ast.Lambda)) for b in st.body for x in ast.walk(b)) \
                        and (named is None or named in body):
                    if named is not None:
                        drop.add(id(named))
                    for e in disp.elts:
                        a = ast.Assign(targets=[ast.Name(id=st.target.id, ctx=ast.Store())], value=e, type_comment=None)
                        ast.copy_location(a, st)
                        ast.copy_location(a.targets[0], st)
                        a._xsa_unrolled = True  # type: ignore[attr-defined]
                        out.append(a)
                        out.extend(copy.deepcopy(st.body))
                    count += 1
                    continue
            out.append(st)
        return [s_ for s_ in out if id(s_) not in drop]

    fn.body = process(fn.body)
    return count


def propagate_attr_aliases(fn: ast.AST, names_only: bool = False) -> int:
    """``ctx = self.ns_context`` ... ``ctx.pop()``: a local that merely names an attribute chain (``self.a``, ``self.a.b``, ``param.a``) is
    replaced by the chain itself, so that code written with and without such a temporary is one and the same to every rule.  Only when the
    local is assigned exactly once and only read, the root of the chain is never rebound, and no use of the local can run after the
    attribute was rebound in this function (then the alias and the attribute would name different objects)."""
    if not isinstance(fn, (ast.FunctionDef, ast.AsyncFunctionDef)):
        return 0
    stores_n: dict[str, int] = {}
    for n in _walk_own(fn):
        if isinstance(n, ast.Name) and isinstance(n.ctx, (ast.Store, ast.Del)):
            stores_n[n.id] = stores_n.get(n.id, 0) + 1

    def chain(e: ast.expr) -> str | None:
        parts = []
        while isinstance(e, ast.Attribute):
            parts.append(e.attr)
            e = e.value
        # the root is never rebound - or bound exactly once (a loop target, a single assignment): then alias and chain are read in the
        # same iteration / after the same binding
        if isinstance(e, ast.Name) and parts and stores_n.get(e.id, 0) <= 1:
            return e.id + "." + ".".join(reversed(parts))
        return None

    cands: dict[str, ast.stmt] = {}
    name_alias: set[str] = set()
    params = {a.arg for a in [*fn.args.posonlyargs, *fn.args.args, *fn.args.kwonlyargs]} | ({fn.args.vararg.arg} if fn.args.vararg else set()) | ({fn.args.kwarg.arg} if fn.args.kwarg else set())
    for n in _walk_own(fn):
        tgt = n.targets[0] if isinstance(n, ast.Assign) and len(n.targets) == 1 else (n.target if isinstance(n, ast.AnnAssign) and n.value is not None else None)
        if not isinstance(tgt, ast.Name) or tgt.id in params or stores_n.get(tgt.id, 0) != 1 or hasattr(n, "_xsa_jump") or hasattr(n, "_xsa_unrolled"):
            continue
        if chain(n.value) is not None:
            if not names_only:
                cands[tgt.id] = n
        elif isinstance(n.value, ast.Name) and n.value.id != tgt.id and not (
                isinstance(n, ast.AnnAssign) and ast.unparse(n.annotation).replace(" ", "") in ("int", "float", "bool", "int|None", "float|None")):
            # a plain copy of another local / parameter (`element = pending`, the bound parameter of an inlined helper): same treatment,
            # provided no use of the copy can run after the original was rebound (checked on the CFG below)
            cands[tgt.id] = n
            name_alias.add(tgt.id)
    if not cands:
        return 0
    # attribute chains (by text) that are rebound / deleted somewhere in the function
    rebound: dict[str, list[ast.AST]] = {}
    for n in _walk_own(fn):
        if isinstance(n, ast.Attribute) and isinstance(n.ctx, (ast.Store, ast.Del)):
            rebound.setdefault(ast.unparse(n), []).append(n)
    from .cfg import build_cfg
    g = None
    done = 0
    for name, st in list(cands.items()):
        text = ast.unparse(st.value)
        prefixes = {text[:i] for i in range(len(text) + 1) if i == len(text) or text[i] == "."}
        hits = [n for t in prefixes for n in rebound.get(t, [])]
        if name in name_alias:
            hits = [n for n in _walk_own(fn) if isinstance(n, ast.Name) and n.id == st.value.id and isinstance(n.ctx, (ast.Store, ast.Del))]
        uses = [n for n in _walk_own(fn) if isinstance(n, ast.Name) and n.id == name and isinstance(n.ctx, ast.Load)]
        if any(isinstance(p, (ast.Lambda, ast.GeneratorExp, ast.ListComp, ast.SetComp, ast.DictComp)) and any(u is x for x in ast.walk(p) for u in uses) for p in _walk_own(fn)):
            pass  # uses inside comprehensions / lambdas evaluate where they are written: still fine for an alias of a stable chain
        if hits:
            if g is None:
                g = build_cfg(fn)
            from .q import node_containing
            hit_nodes = [node_containing(g, h) for h in hits]
            use_nodes = [node_containing(g, u) for u in uses]
            if any(h is None for h in hit_nodes) or any(u is None for u in use_nodes):
                continue
            after = set()
            def_node = node_containing(g, st)
            for h in hit_nodes:
                # (a path that re-executes the alias assignment re-creates the alias: it does not count)
                after |= g.reachable([m for m, _ in g.succ[h.id]], blocked=[def_node.id] if def_node is not None and name in name_alias else [])
            if any(u.id in after for u in use_nodes):
                continue
            if name in name_alias and def_node is not None and not all(g.must_pass(g.entry, u.id, [def_node.id]) for u in use_nodes):
                continue
        # substitute

        class S(ast.NodeTransformer):
            def visit_Name(self, x: ast.Name):
                if x.id == name and isinstance(x.ctx, ast.Load):
                    return ast.copy_location(copy.deepcopy(st.value), x)
                return x

            def visit_FunctionDef(self, x):
                return x if x is not fn else self.generic_visit(x)

            visit_AsyncFunctionDef = visit_FunctionDef
            visit_ClassDef = visit_FunctionDef

        S().visit(fn)

        def drop(body: list[ast.stmt]) -> list[ast.stmt]:
            out = []
            for b in body:
                if b is st:
                    continue
                for field in ("body", "orelse", "finalbody"):
                    sub = getattr(b, field, None)
                    if isinstance(sub, list) and sub and isinstance(sub[0], ast.stmt) and not isinstance(b, (ast.FunctionDef, ast.AsyncFunctionDef, ast.ClassDef)):
                        new = drop(sub)
                        setattr(b, field, new or ([ast.copy_location(ast.Pass(), b)] if field == "body" else []))
                for h in getattr(b, "handlers", []) or []:
                    h.body = drop(h.body) or [ast.copy_location(ast.Pass(), h)]
                out.append(b)
            return out

        fn.body = drop(fn.body) or [ast.copy_location(ast.Pass(), fn)]
        done += 1
        g = None
        for attr in ("_xsa_cfg", "_xsa_asrc", "_xsa_single_defs", "_xsa_defs"):
            if hasattr(fn, attr):
                delattr(fn, attr)
    for attr in ("_xsa_cfg", "_xsa_asrc", "_xsa_single_defs", "_xsa_defs"):
        if hasattr(fn, attr):
            delattr(fn, attr)
    return done


class _YieldFromDisplay(ast.NodeTransformer):
    """``yield from (E for t in it if c)`` (also a list comprehension) becomes the equivalent for-loop of yields, and ``yield from (a, b)``
    / ``[a, b]`` becomes the yields themselves: a generator written either way is one and the same to the event-grammar rules."""

    def __init__(self) -> None:
        self.count = 0

    def visit_FunctionDef(self, node):
        self.generic_visit(node)
        return node

    def visit_Lambda(self, node):
        return node

    def visit_Expr(self, st: ast.Expr):
        v = st.value
        if not isinstance(v, ast.YieldFrom):
            return st
        src = v.value
        if isinstance(src, (ast.GeneratorExp, ast.ListComp)) and not any(g.is_async for g in src.generators):
            body: list[ast.stmt] = [ast.Expr(value=ast.Yield(value=src.elt))]
            for gen in reversed(src.generators):
                for cond in reversed(gen.ifs):
                    body = [ast.If(test=cond, body=body, orelse=[])]
                body = [ast.For(target=gen.target, iter=gen.iter, body=body, orelse=[], type_comment=None)]
            self.count += 1
            out = body[0]
            for n in ast.walk(out):
                if not hasattr(n, "lineno"):
                    ast.copy_location(n, st)
            return ast.copy_location(out, st)
        if isinstance(src, (ast.Tuple, ast.List)) and not any(isinstance(e, ast.Starred) for e in src.elts):
            self.count += 1
            return [ast.copy_location(ast.Expr(value=ast.copy_location(ast.Yield(value=e), st)), st) for e in src.elts] or [ast.copy_location(ast.Pass(), st)]
        return st


class _MatchToIf(ast.NodeTransformer):
    """``match x: case A: ... case B | C: ... case _: ...`` over value / singleton / class patterns becomes the equivalent
    if / elif / else chain (other pattern kinds are left alone), so that both spellings of a dispatch are one to every rule."""

    def __init__(self) -> None:
        self.count = 0

    def _test(self, subj: ast.expr, pat: ast.pattern) -> ast.expr | None | bool:
        """Test expression for a pattern; True = always matches (wildcard); None = unsupported."""
        c = lambda: copy.deepcopy(subj)  # noqa: E731
        if isinstance(pat, ast.MatchValue):
            return ast.Compare(left=c(), ops=[ast.Eq()], comparators=[pat.value])
        if isinstance(pat, ast.MatchSingleton):
            return ast.Compare(left=c(), ops=[ast.Is()], comparators=[ast.Constant(value=pat.value)])
        if isinstance(pat, ast.MatchAs) and pat.pattern is None and pat.name is None:
            return True
        if isinstance(pat, ast.MatchClass) and not pat.patterns and not pat.kwd_patterns:
            return ast.Call(func=ast.Name(id="isinstance", ctx=ast.Load()), args=[c(), pat.cls], keywords=[])
        if isinstance(pat, ast.MatchOr):
            subs = [self._test(subj, p) for p in pat.patterns]
            if any(x is None or x is True for x in subs):
                return None
            if all(isinstance(x, ast.Compare) and isinstance(x.ops[0], ast.Eq) for x in subs):
                return ast.Compare(left=c(), ops=[ast.In()], comparators=[ast.Tuple(elts=[x.comparators[0] for x in subs], ctx=ast.Load())])
            return ast.BoolOp(op=ast.Or(), values=subs)
        return None

    def visit_Match(self, node: ast.Match):
        self.generic_visit(node)
        subj = node.subject
        pre: list[ast.stmt] = []
        if not isinstance(subj, (ast.Name, ast.Attribute, ast.Constant)):
            self.count += 1
            tmp = ast.Name(id=f"__match_{self.count}", ctx=ast.Store())
            pre.append(ast.copy_location(ast.Assign(targets=[tmp], value=subj), node))
            subj = ast.Name(id=tmp.id, ctx=ast.Load())
        arms: list[tuple[ast.expr | bool, list[ast.stmt]]] = []
        for case in node.cases:
            pat = case.pattern
            bind: list[ast.stmt] = []
            if isinstance(pat, ast.MatchAs) and pat.pattern is None and pat.name is not None:
                bind = [ast.Assign(targets=[ast.Name(id=pat.name, ctx=ast.Store())], value=copy.deepcopy(subj))]
                t: ast.expr | bool | None = True
            else:
                t = self._test(subj, pat)
            if t is None:
                return node if not pre else node  # unsupported pattern: keep the match statement
            if case.guard is not None:
                guard = case.guard
                if bind:
                    # `case x if cond(x)`: the capture is the subject itself
                    if any(isinstance(n_, ast.NamedExpr) for n_ in ast.walk(guard)):
                        return node
                    guard = _Subst({pat.name: copy.deepcopy(subj)}).visit(copy.deepcopy(guard))
                t = guard if t is True else ast.BoolOp(op=ast.And(), values=[t, guard])
            arms.append((t, bind + case.body))
        self.count += 1
        orelse: list[ast.stmt] = []
        for t, body in reversed(arms):
            if t is True:
                orelse = body
            else:
                new = ast.If(test=t, body=body, orelse=orelse)
                new._xsa_match = True  # type: ignore[attr-defined]
                ast.copy_location(new, node)
                orelse = [new]
        out = pre + (orelse or [ast.copy_location(ast.Pass(), node)])
        return out if len(out) > 1 else out[0]


class _HoistWalrus(ast.NodeTransformer):
    """``if (x := e) ...:`` becomes ``x = e`` followed by ``if x ...:`` when the named expression is the first thing the test
    evaluates (so the hoist preserves evaluation order)."""

    def __init__(self) -> None:
        self.count = 0

    @staticmethod
    def _first(e: ast.expr) -> ast.NamedExpr | None:
        while True:
            if isinstance(e, ast.NamedExpr):
                return e
            if isinstance(e, ast.UnaryOp):
                e = e.operand
            elif isinstance(e, ast.BoolOp):
                e = e.values[0]
            elif isinstance(e, ast.Compare):
                e = e.left
            elif isinstance(e, ast.Call) and isinstance(e.func, ast.Attribute):
                e = e.func.value
            elif isinstance(e, (ast.Attribute, ast.Subscript)):
                e = e.value
            else:
                return None

    def visit_If(self, node: ast.If):
        self.generic_visit(node)
        w = self._first(node.test)
        if w is None or not isinstance(w.target, ast.Name):
            return node
        self.count += 1
        assign = ast.copy_location(ast.Assign(targets=[ast.Name(id=w.target.id, ctx=ast.Store())], value=w.value), node)

        class R(ast.NodeTransformer):
            def visit_NamedExpr(self, n):
                return ast.copy_location(ast.Name(id=w.target.id, ctx=ast.Load()), n) if n is w else n

        node.test = R().visit(node.test)
        return [assign, node]

    def _simple(self, node):
        self.generic_visit(node)
        v = getattr(node, "value", None)
        if isinstance(v, ast.NamedExpr) and isinstance(v.target, ast.Name) and not (isinstance(node, ast.Assign) and any(isinstance(t, ast.Name) and t.id == v.target.id for t in node.targets)):
            self.count += 1
            assign = ast.copy_location(ast.Assign(targets=[ast.Name(id=v.target.id, ctx=ast.Store())], value=v.value), node)
            node.value = ast.copy_location(ast.Name(id=v.target.id, ctx=ast.Load()), v)
            return [assign, node]
        return node

    visit_Assign = _simple
    visit_Return = _simple
    visit_Expr = _simple

    def visit_Lambda(self, node):
        return node


class _SplitTupleAssign(ast.NodeTransformer):
    """``a, b = x, y`` becomes ``a = x`` then ``b = y`` when no target name occurs in the values (so it is not a swap)."""

    def __init__(self) -> None:
        self.count = 0

    def visit_Assign(self, node: ast.Assign):
        if len(node.targets) == 1 and isinstance(node.targets[0], ast.Tuple) and isinstance(node.value, ast.Tuple) and len(node.targets[0].elts) == len(node.value.elts) \
                and all(isinstance(t, ast.Name) for t in node.targets[0].elts) and not any(isinstance(v, ast.Starred) for v in node.value.elts):
            names = {t.id for t in node.targets[0].elts}
            used = {x.id for v in node.value.elts for x in ast.walk(v) if isinstance(x, ast.Name)}
            if not (names & used) and not any(isinstance(x, (ast.NamedExpr, ast.Yield, ast.Await)) for x in ast.walk(node.value)):
                self.count += 1
                return [ast.copy_location(ast.Assign(targets=[t], value=v), node) for t, v in zip(node.targets[0].elts, node.value.elts)]
        if len(node.targets) == 1 and isinstance(node.targets[0], ast.Tuple) and isinstance(node.value, ast.Tuple) and len(node.targets[0].elts) == len(node.value.elts) \
                and all(isinstance(t, (ast.Name, ast.Attribute, ast.Subscript)) for t in node.targets[0].elts) and not any(isinstance(v, ast.Starred) for v in node.value.elts) \
                and not any(isinstance(x, (ast.NamedExpr, ast.Yield, ast.Await)) for x in ast.walk(node.value)):
            # the general case (attribute / item targets, swaps): the right-hand sides are evaluated first, into temporaries
            self.count += 1
            k = self.count
            pre = [ast.copy_location(ast.Assign(targets=[ast.copy_location(ast.Name(id=f"__tup_{k}_{i}", ctx=ast.Store()), node)], value=v), node) for i, v in enumerate(node.value.elts)]
            post = [ast.copy_location(ast.Assign(targets=[t], value=ast.copy_location(ast.Name(id=f"__tup_{k}_{i}", ctx=ast.Load()), node)), node) for i, t in enumerate(node.targets[0].elts)]
            return pre + post
        return node

    def visit_Lambda(self, node):
        return node


def inline_condition_temps(fn: ast.AST) -> int:
    """``flag = a and not b`` directly followed (only unrelated simple assignments in between) by ``if flag:`` / ``if not flag:`` where the
    flag is used nowhere else: the condition is put back into the test, so that a named condition and an inline one look alike."""
    count = 0
    uses: dict[str, int] = {}
    stores_: dict[str, int] = {}
    for n in ast.walk(fn):
        if isinstance(n, ast.Name):
            if isinstance(n.ctx, ast.Load):
                uses[n.id] = uses.get(n.id, 0) + 1
            else:
                stores_[n.id] = stores_.get(n.id, 0) + 1

    def cond_like(v: ast.expr) -> bool:
        return isinstance(v, (ast.BoolOp, ast.Compare)) or (isinstance(v, ast.UnaryOp) and isinstance(v.op, ast.Not)) or (isinstance(v, ast.Call) and isinstance(v.func, ast.Name) and v.func.id in ("isinstance", "callable", "bool", "any", "all"))

    def process(body: list[ast.stmt]) -> list[ast.stmt]:
        nonlocal count
        i = 0
        while i < len(body):
            st = body[i]
            for field in ("body", "orelse", "finalbody"):
                sub = getattr(st, field, None)
                if isinstance(sub, list) and sub and isinstance(sub[0], ast.stmt) and not isinstance(st, (ast.FunctionDef, ast.AsyncFunctionDef, ast.ClassDef)):
                    setattr(st, field, process(sub))
            for h in getattr(st, "handlers", []) or []:
                h.body = process(h.body)
            if isinstance(st, ast.Assign) and len(st.targets) == 1 and isinstance(st.targets[0], ast.Name) and cond_like(st.value):
                name = st.targets[0].id
                if uses.get(name, 0) == 1 and stores_.get(name, 0) == 1:
                    free = {x.id for x in ast.walk(st.value) if isinstance(x, ast.Name)}
                    j = i + 1
                    while j < len(body) and isinstance(body[j], (ast.Assign, ast.AnnAssign)) and not any(
                            isinstance(x, ast.Name) and isinstance(x.ctx, ast.Store) and x.id in free | {name} for x in ast.walk(body[j])) and not any(
                            isinstance(x, ast.Name) and x.id == name for x in ast.walk(body[j])):
                        j += 1
                    if j < len(body) and isinstance(body[j], ast.If):
                        # the flag may be the whole test, negated, or an operand of an and / or chain of the test
                        value = st.value
                        hit = [False]

                        class S(ast.NodeTransformer):
                            def visit_Name(self, x: ast.Name):
                                if x.id == name and isinstance(x.ctx, ast.Load):
                                    hit[0] = True
                                    return value
                                return x

                            def generic_visit(self, x):
                                # only through boolean structure: BoolOp / not
                                if isinstance(x, (ast.BoolOp,)) or (isinstance(x, ast.UnaryOp) and isinstance(x.op, ast.Not)):
                                    return super().generic_visit(x)
                                return x

                        new_test = S().visit(body[j].test)
                        if hit[0]:
                            body[j].test = new_test
                            del body[i]
                            count += 1
                            continue
            i += 1
        return body

    fn.body = process(fn.body)
    return count


def _apply(transformer: ast.NodeTransformer, body: list[ast.stmt]) -> list[ast.stmt]:
    out: list[ast.stmt] = []
    for st in body:
        r = transformer.visit(st)
        if isinstance(r, list):
            out.extend(r)
        elif r is not None:
            out.append(r)
    return out


def normalize_conditionals(repo: "Repo") -> int:
    m, w, t, u, y = _MatchToIf(), _HoistWalrus(), _IfExpToIf(), _SplitTupleAssign(), _YieldFromDisplay()
    extra = 0
    for fi in repo.functions.values():
        before = (m.count, w.count, t.count, u.count, y.count)
        fi.node.body = _apply(y, fi.node.body)
        fi.node.body = _apply(m, fi.node.body)
        fi.node.body = _apply(w, fi.node.body)
        fi.node.body = _apply(u, fi.node.body)
        c = inline_condition_temps(fi.node)
        c += unroll_display_loops(fi.node, {k: v for k, v in fi.module.globals.items() if isinstance(v, (ast.Tuple, ast.List))})
        c += propagate_attr_aliases(fi.node)
        fi.node.body = _apply(t, fi.node.body)
        if (m.count, w.count, t.count, u.count, y.count) != before or c:
            ast.fix_missing_locations(fi.node)
        extra += c
    return m.count + w.count + t.count + u.count + y.count + extra


def inline_private_helpers(repo: "Repo") -> dict:
    n = normalize_conditionals(repo)
    inl = Inliner(repo)
    inl.run()
    inl.stats["conditional_expressions_split"] = n
    inl.stats["absorbed"] = _drop_absorbed(repo, inl.sites)
    # the parameter bindings of spliced helpers (`element = pending`) are plain copies: propagate them like hand-written aliases
    post = 0
    for q in inl.introduced:
        fi = repo.functions.get(q)
        if fi is not None:
            post += propagate_attr_aliases(fi.node, names_only=True)
    inl.stats["aliases_after_inlining"] = post
    return inl.stats


def _drop_absorbed(repo: "Repo", sites: dict[str, int]) -> list[str]:
    """A helper that does not exist in the pinned tree and whose every use was inlined is nothing but a part of its callers: it is taken
    out of the model, so that "who may do X" scans see the operation once - in the caller - and not a second time in the helper."""
    known = known_functions()
    cands = {q: repo.functions[q] for q in sites if q not in known and q in repo.functions}
    if not cands:
        return []
    by_name: dict[str, list[str]] = {}
    for q, h in cands.items():
        by_name.setdefault(h.name, []).append(q)
    used: set[str] = set()
    for mod in repo.modules.values():
        skip = {id(h.node) for h in cands.values() if h.module is mod}

        def walk(node: ast.AST):
            for ch in ast.iter_child_nodes(node):
                if id(ch) in skip:
                    continue
                if isinstance(ch, ast.Attribute) and ch.attr in by_name:
                    used.add(ch.attr)
                elif isinstance(ch, ast.Name) and ch.id in by_name and isinstance(ch.ctx, ast.Load):
                    used.add(ch.id)
                elif isinstance(ch, ast.Constant) and isinstance(ch.value, str) and ch.value in by_name:
                    used.add(ch.value)  # getattr(self, "helper")
                walk(ch)

        walk(mod.tree)
    gone = []
    for q, h in cands.items():
        if h.name in used:
            continue
        # a method that overrides / is overridden is part of an interface, not a private piece of its caller
        if h.cls is not None and (any(h.name in c.methods for c in h.cls.mro[1:]) or any(h.name in c.methods for c in h.cls.all_subclasses())):
            continue
        body = h.cls.node.body if h.cls is not None else h.module.tree.body
        if h.node in body:
            body.remove(h.node)
        repo.functions.pop(q, None)
        if h.cls is not None:
            h.cls.methods.pop(h.name, None)
        lst = repo.methods_by_name.get(h.name)
        if lst and h in lst:
            lst.remove(h)
        gone.append(q)
    return sorted(gone)


def origin(repo: "Repo", fi: "FuncInfo", node: ast.AST) -> "FuncInfo":
    """The function a node was written in (the helper, for nodes of an inlined block)."""
    q = getattr(node, "_xsa_origin", None)
    return repo.functions.get(q, fi) if q else fi
