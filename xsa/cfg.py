"""E3 - statement-level control-flow graph with atomised branch conditions.

Nodes are simple statements, the headers of compound statements, and the *atomic*
sub-conditions of ``if``/``while``/``assert`` tests (``and``/``or``/``not`` are compiled into
edges, so control dependence on one flag inside a compound condition is exact).

Exceptional edges: every statement inside a ``try`` body (or a ``with suppress(...)`` body) has
an ``exc`` edge to the handlers (or to the statement after the ``with``); an explicit ``raise``
goes to the innermost handlers or to the RAISE exit.  Implicit exceptions outside ``try`` are
not edges: path queries speak about normal completion unless stated otherwise.

All path queries are reachability questions with nodes / edges removed, which is exact on the
graph (no dominator-tree approximations).
"""

from __future__ import annotations

import ast
import copy
from dataclasses import dataclass, field
from typing import Callable, Iterable, Iterator

from .model import walk_no_nested


@dataclass
class Node:
    id: int
    kind: str  # entry exit raise stmt test for with except match case
    ast: ast.AST | None = None  # the statement, test atom, handler, pattern
    stmt: ast.stmt | None = None  # enclosing statement
    in_loop: int = 0

    @property
    def lineno(self) -> int:
        return getattr(self.ast, "lineno", 0) or getattr(self.stmt, "lineno", 0)

    def __hash__(self) -> int:
        return self.id


Edge = tuple[int, int, str]
PATH_SENSITIVE_REACH = None  # set by xsa.q (reach_env): reachability that tracks the None-ness / truthiness of flag-like locals


class CFG:
    def __init__(self, fn: ast.AST):
        self.fn = fn
        self.nodes: list[Node] = []
        self.succ: dict[int, list[tuple[int, str]]] = {}
        self.pred: dict[int, list[tuple[int, str]]] = {}
        self.entry = self._new("entry").id
        self.exit = self._new("exit").id  # normal return / fall off the end
        self.raise_exit = self._new("raise").id  # exception leaves the function
        self._owner: dict[int, int] = {}  # id(ast node) -> cfg node id
        self._stmt_node: dict[int, int] = {}  # id(stmt) -> first cfg node id

    # construction -------------------------------------------------------------
    def _new(self, kind: str, node: ast.AST | None = None, stmt: ast.stmt | None = None) -> Node:
        n = Node(len(self.nodes), kind, node, stmt)
        self.nodes.append(n)
        self.succ[n.id] = []
        self.pred[n.id] = []
        return n

    def _edge(self, a: int, b: int, label: str = "") -> None:
        if (b, label) not in self.succ[a]:
            self.succ[a].append((b, label))
            self.pred[b].append((a, label))

    def _own(self, cfg_node: Node, *asts: ast.AST | None) -> None:
        for a in asts:
            if a is None:
                continue
            self._owner.setdefault(id(a), cfg_node.id)
            for sub in walk_no_nested(a):
                self._owner.setdefault(id(sub), cfg_node.id)

    # queries ------------------------------------------------------------------
    def node(self, i: int) -> Node:
        return self.nodes[i]

    def node_of(self, astnode: ast.AST) -> Node | None:
        """The CFG node evaluating this AST node (statement or sub-expression)."""
        i = self._owner.get(id(astnode))
        if i is None:
            i = self._stmt_node.get(id(astnode))
        return None if i is None else self.nodes[i]

    def reachable(
        self,
        src: Iterable[int],
        blocked: Iterable[int] = (),
        blocked_edges: Iterable[Edge] = (),
        forward: bool = True,
        labels: Callable[[str], bool] | None = None,
    ) -> set[int]:
        blocked_s = set(blocked)
        be = set(blocked_edges)
        adj = self.succ if forward else self.pred
        seen: set[int] = set()
        stack = [s for s in src if s not in blocked_s]
        while stack:
            n = stack.pop()
            if n in seen:
                continue
            seen.add(n)
            for m, lab in adj[n]:
                if m in blocked_s or m in seen:
                    continue
                if labels is not None and not labels(lab):
                    continue
                e = (n, m, lab) if forward else (m, n, lab)
                if e in be:
                    continue
                stack.append(m)
        return seen

    def must_pass(self, frm: int, to: int, through: Iterable[int], normal_only: bool = False) -> bool:
        """Every path frm -> to contains a node of ``through`` (vacuously true if none)."""
        through = set(through)
        if frm in through or to in through:
            return True
        lab = (lambda l: l != "exc") if normal_only else None
        return to not in self.reachable([frm], blocked=through, labels=lab)

    def dominates(self, a: int, b: int) -> bool:
        return self.must_pass(self.entry, b, {a})

    def is_reachable(self, a: int, b: int) -> bool:
        return b in self.reachable([a])

    def live_nodes(self) -> set[int]:
        return self.reachable([self.entry])

    def branch_edges(self, test_node: int) -> dict[str, list[int]]:
        out: dict[str, list[int]] = {}
        for m, lab in self.succ[test_node]:
            out.setdefault(lab, []).append(m)
        return out

    def only_if(self, target: int, test_node: int, polarity: bool) -> bool:
        """``target`` executes only on paths where ``test_node`` last evaluated to polarity.

        Exact formulation: removing the ``polarity`` out-edges of the test makes the target
        unreachable from entry.
        """
        lab = "true" if polarity else "false"
        be = [(test_node, m, l) for m, l in self.succ[test_node] if l == lab]
        if not be:
            return False
        if PATH_SENSITIVE_REACH is not None:
            # flag-like locals (result slots of inlined helpers, found = False / True) are followed along the path: a branch that
            # contradicts what the path assigned is not a way to reach the target
            return target not in PATH_SENSITIVE_REACH(self, None, be)
        return target not in self.reachable([self.entry], blocked_edges=be)

    def reach_assuming(self, decide: Callable[[Node], bool | None]) -> set[int]:
        """Nodes reachable from entry when every atomic test for which ``decide`` returns True / False only takes
        that out-edge (partial evaluation of a dispatch: robust against if/else orientation, nesting and ordering)."""
        be: list[Edge] = []
        for n in self.nodes:
            if n.kind != "test":
                continue
            d = decide(n)
            if d is None:
                continue
            drop = "false" if d else "true"
            be += [(n.id, m, l) for m, l in self.succ[n.id] if l == drop]
        if PATH_SENSITIVE_REACH is not None:
            return PATH_SENSITIVE_REACH(self, None, be)
        return self.reachable([self.entry], blocked_edges=be)

    def stmts(self) -> Iterator[Node]:
        for n in self.nodes:
            if n.kind not in ("entry", "exit", "raise"):
                yield n

    def find(self, pred: Callable[[Node], bool]) -> list[Node]:
        return [n for n in self.nodes if pred(n)]

    def exits_normal(self) -> list[int]:
        return [p for p, _ in self.pred[self.exit]]

    def returns(self) -> list[Node]:
        return [n for n in self.nodes if isinstance(n.ast, ast.Return) and n.kind == "stmt"]


class _Ctx:
    __slots__ = ("handlers", "loop_head", "loop_after", "finally_", "suppress_after")

    def __init__(self) -> None:
        self.handlers: list[list[int]] = []  # stack of handler-entry lists (innermost last)
        self.loop_head: list[int] = []
        self.loop_after: list[list[int]] = []  # collectors of break sources
        self.finally_: list[int] = []


def _is_const_true(e: ast.expr) -> bool:
    return isinstance(e, ast.Constant) and bool(e.value) is True


def _is_const_false(e: ast.expr) -> bool:
    if isinstance(e, ast.Constant):
        return not bool(e.value)
    return isinstance(e, ast.Name) and e.id == "TYPE_CHECKING"


def _condition_temps(fn: ast.AST) -> dict[str, ast.expr]:
    """Locals that name a condition: assigned exactly once, by a plain assignment of a boolean combination / negation / comparison /
    ``bool(...)``, from operands that are themselves assigned at most once in the function (so the value a later test sees is the
    value of the condition where it was named).  Tests on such a local are compiled as the condition itself."""
    if isinstance(fn, ast.Lambda):
        return {}
    stores: dict[str, int] = {}
    attr_stores: set[str] = set()
    cands: dict[str, ast.expr] = {}

    def walk(node: ast.AST):
        for ch in ast.iter_child_nodes(node):
            if isinstance(ch, (ast.FunctionDef, ast.AsyncFunctionDef, ast.ClassDef, ast.Lambda)):
                continue
            yield ch
            yield from walk(ch)

    for n in walk(fn):
        if isinstance(n, ast.Name) and isinstance(n.ctx, (ast.Store, ast.Del)):
            stores[n.id] = stores.get(n.id, 0) + 1
        elif isinstance(n, ast.Attribute) and isinstance(n.ctx, (ast.Store, ast.Del)):
            attr_stores.add(n.attr)
        if isinstance(n, ast.Assign) and len(n.targets) == 1 and isinstance(n.targets[0], ast.Name) and not hasattr(n, "_xsa_jump"):
            v = n.value
            if isinstance(v, (ast.BoolOp, ast.Compare)) or (isinstance(v, ast.UnaryOp) and isinstance(v.op, ast.Not)) or (
                    isinstance(v, ast.Call) and isinstance(v.func, ast.Name) and v.func.id == "bool" and len(v.args) == 1) or (
                    isinstance(v, ast.Call) and isinstance(v.func, ast.Name) and v.func.id in ("isinstance", "callable", "hasattr", "issubclass") and not v.keywords
                    and not any(isinstance(x, ast.Call) for a in v.args for x in ast.walk(a))):
                cands[n.targets[0].id] = v
    args = getattr(fn, "args", None)
    if args is not None:
        for a in [*args.posonlyargs, *args.args, *args.kwonlyargs, *([args.vararg] if args.vararg else []), *([args.kwarg] if args.kwarg else [])]:
            stores[a.arg] = stores.get(a.arg, 0) + 1  # a parameter is bound on entry: one more assignment means it can change
    out = {}
    for name, v in cands.items():
        if stores.get(name, 0) != 1:
            continue
        ok = True
        for x in ast.walk(v):
            if isinstance(x, ast.Name) and (stores.get(x.id, 0) > 1 or x.id == name):
                ok = False
            elif isinstance(x, ast.Attribute) and x.attr in attr_stores:
                ok = False
            elif isinstance(x, (ast.NamedExpr, ast.Await, ast.Yield, ast.YieldFrom)):
                ok = False
        if ok:
            out[name] = v
    return out


class Builder:
    def __init__(self, fn: ast.AST):
        self.g = CFG(fn)
        self.exc_targets: list[list[int]] = []  # innermost last; each a list of node ids
        self.loops: list[tuple[int, list[int]]] = []  # (head id, break sources)
        self.finals: list[Node] = []
        self.inline_jumps: list[tuple[int, list[int]]] = []
        self.cond_temps = _condition_temps(fn)

    # each _stmt returns the list of "dangling" (node id, label) pairs that flow to the next stmt
    def build(self) -> CFG:
        g = self.g
        body = g.fn.body if not isinstance(g.fn, ast.Lambda) else [ast.Return(value=g.fn.body)]
        outs = self._block(body, [(g.entry, "")])
        for n, lab in outs:
            g._edge(n, g.exit, lab)
        return g

    def _exc_to(self, n: int) -> None:
        g = self.g
        if self.exc_targets:
            for t in self.exc_targets[-1]:
                g._edge(n, t, "exc")

    def _raise_to(self, n: int) -> None:
        g = self.g
        if self.exc_targets:
            for t in self.exc_targets[-1]:
                g._edge(n, t, "exc")
        else:
            g._edge(n, g.raise_exit, "exc")

    def _block(self, body: list[ast.stmt], ins: list[tuple[int, str]]) -> list[tuple[int, str]]:
        cur = ins
        for st in body:
            cur = self._stmt(st, cur)
        return cur

    def _connect(self, ins: list[tuple[int, str]], n: int) -> None:
        for a, lab in ins:
            self.g._edge(a, n, lab)

    def _cond(self, test: ast.expr, ins: list[tuple[int, str]], stmt: ast.stmt) -> tuple[list[tuple[int, str]], list[tuple[int, str]]]:
        """Compile a condition; returns (true_outs, false_outs)."""
        g = self.g
        if isinstance(test, ast.BoolOp) and isinstance(test.op, ast.And):
            t_ins = ins
            false_all: list[tuple[int, str]] = []
            for v in test.values:
                t_ins, f = self._cond(v, t_ins, stmt)
                false_all.extend(f)
            return t_ins, false_all
        if isinstance(test, ast.BoolOp) and isinstance(test.op, ast.Or):
            f_ins = ins
            true_all: list[tuple[int, str]] = []
            for v in test.values:
                t, f_ins = self._cond(v, f_ins, stmt)
                true_all.extend(t)
            return true_all, f_ins
        if isinstance(test, ast.UnaryOp) and isinstance(test.op, ast.Not):
            t, f = self._cond(test.operand, ins, stmt)
            return f, t
        if isinstance(test, ast.Call) and isinstance(test.func, ast.Name) and test.func.id == "bool" and len(test.args) == 1 and not test.keywords:
            return self._cond(test.args[0], ins, stmt)
        if isinstance(test, ast.Name) and test.id in self.cond_temps:
            # a named condition (``flag = a and not b`` ... ``if flag:``) is compiled like the condition itself
            value = copy.deepcopy(self.cond_temps[test.id])
            for x in ast.walk(value):
                x._xsa_cond_temp = test.id
            return self._cond(value, ins, stmt)
        n = g._new("test", test, stmt)
        g._own(n, test)
        self._connect(ins, n.id)
        if self.exc_targets:
            self._exc_to(n.id)
        if _is_const_true(test):
            return [(n.id, "true")], []
        if _is_const_false(test):
            return [], [(n.id, "false")]
        return [(n.id, "true")], [(n.id, "false")]

    def _simple(self, st: ast.stmt, ins: list[tuple[int, str]], kind: str = "stmt") -> Node:
        g = self.g
        n = g._new(kind, st, st)
        g._stmt_node[id(st)] = n.id
        self._connect(ins, n.id)
        return n

    def _stmt(self, st: ast.stmt, ins: list[tuple[int, str]]) -> list[tuple[int, str]]:
        g = self.g
        if not ins:
            # unreachable code: still build nodes (so node_of works) but disconnected
            pass
        if isinstance(st, (ast.FunctionDef, ast.AsyncFunctionDef, ast.ClassDef)):
            n = self._simple(st, ins)
            return [(n.id, "")]
        if isinstance(st, ast.If) and hasattr(st, "_xsa_inline"):
            # body of an inlined private helper (xsa.inline): no test node; tagged jumps leave through the block end
            first_before = len(g.nodes)
            self.inline_jumps.append((st._xsa_inline, []))
            outs = self._block(st.body, ins)
            jumps = self.inline_jumps.pop()[1]
            g._stmt_node[id(st)] = first_before if first_before < len(g.nodes) else g.entry
            return outs + [(j, "") for j in jumps]
        if isinstance(st, ast.Assign) and hasattr(st, "_xsa_jump"):
            n = self._simple(st, ins)
            g._own(n, st)
            if self.exc_targets:
                self._exc_to(n.id)
            for k, coll in reversed(self.inline_jumps):
                if k == st._xsa_jump:
                    coll.append(n.id)
                    return []
            return [(n.id, "")]
        if isinstance(st, ast.If):
            first_before = len(g.nodes)
            t, f = self._cond(st.test, ins, st)
            g._stmt_node[id(st)] = first_before if first_before < len(g.nodes) else g.entry
            outs = self._block(st.body, t)
            outs2 = self._block(st.orelse, f) if st.orelse else f
            return outs + outs2
        if isinstance(st, ast.While):
            head_marker = len(g.nodes)
            # placeholder join node so that continue/back edges have a target
            join = g._new("stmt", None, st)
            join.kind = "loop"
            g._stmt_node[id(st)] = join.id
            self._connect(ins, join.id)
            t, f = self._cond(st.test, [(join.id, "")], st)
            breaks: list[int] = []
            self.loops.append((join.id, breaks))
            outs = self._block(st.body, t)
            self.loops.pop()
            for a, lab in outs:
                g._edge(a, join.id, lab)
            after = self._block(st.orelse, f) if st.orelse else f
            return after + [(b, "break") for b in breaks]
        if isinstance(st, (ast.For, ast.AsyncFor)):
            n = self._simple(st, ins, "for")
            g._own(n, st.iter, st.target)
            if self.exc_targets:
                self._exc_to(n.id)
            breaks = []
            self.loops.append((n.id, breaks))
            outs = self._block(st.body, [(n.id, "iter")])
            self.loops.pop()
            for a, lab in outs:
                g._edge(a, n.id, lab)
            it = st.iter
            endless = isinstance(it, ast.Call) and not it.keywords and (
                (ast.unparse(it.func) in ("count", "itertools.count") and len(it.args) <= 2)
                or (ast.unparse(it.func) in ("cycle", "itertools.cycle", "repeat", "itertools.repeat") and len(it.args) == 1))
            if endless:
                # itertools.count() / cycle(x) / repeat(x) never run out: the loop is left only by break / return / raise
                return [(b, "break") for b in breaks]
            done = [(n.id, "done")]
            after = self._block(st.orelse, done) if st.orelse else done
            return after + [(b, "break") for b in breaks]
        if isinstance(st, (ast.With, ast.AsyncWith)):
            n = self._simple(st, ins, "with")
            for item in st.items:
                g._own(n, item.context_expr, item.optional_vars)
            if self.exc_targets:
                self._exc_to(n.id)
            suppress = any(_is_suppress(item.context_expr) for item in st.items)
            if suppress:
                after_join = g._new("stmt", None, st)
                after_join.kind = "join"
                self.exc_targets.append([after_join.id])
                outs = self._block(st.body, [(n.id, "")])
                self.exc_targets.pop()
                for a, lab in outs:
                    g._edge(a, after_join.id, lab)
                return [(after_join.id, "")]
            return self._block(st.body, [(n.id, "")])
        if isinstance(st, (ast.Try, getattr(ast, "TryStar", ast.Try))):
            marker = g._new("stmt", None, st)
            marker.kind = "try"
            g._stmt_node[id(st)] = marker.id
            self._connect(ins, marker.id)
            handler_nodes: list[Node] = []
            for h in st.handlers:
                hn = g._new("except", h, st)
                if h.type is not None:
                    g._own(hn, h.type)
                handler_nodes.append(hn)
            fin_entry: Node | None = None
            if st.finalbody:
                fin_entry = g._new("stmt", None, st)
                fin_entry.kind = "finally"
            targets = [h.id for h in handler_nodes]
            if fin_entry is not None:
                targets.append(fin_entry.id)
            if not targets:
                targets = self.exc_targets[-1] if self.exc_targets else [g.raise_exit]
            # a handler list that does not catch everything lets exceptions continue outward
            catches_all = any(
                h.type is None or ast.unparse(h.type) in ("Exception", "BaseException") for h in st.handlers
            )
            outer = self.exc_targets[-1] if self.exc_targets else [g.raise_exit]
            body_targets = list(targets)
            if not catches_all and fin_entry is None:
                body_targets += outer
            self.exc_targets.append(body_targets)
            outs = self._block(st.body, [(marker.id, "")])
            self.exc_targets.pop()
            outs = self._block(st.orelse, outs) if st.orelse else outs
            all_outs = list(outs)
            # handlers run with the outer exception context (or finally)
            if fin_entry is not None:
                self.exc_targets.append([fin_entry.id])
            for hn, h in zip(handler_nodes, st.handlers):
                all_outs += self._block(h.body, [(hn.id, "")])
            if fin_entry is not None:
                self.exc_targets.pop()
                for a, lab in all_outs:
                    g._edge(a, fin_entry.id, lab)
                fouts = self._block(st.finalbody, [(fin_entry.id, "")])
                # after finally: continue normally, or re-raise outward
                for a, lab in fouts:
                    for t in outer:
                        g._edge(a, t, "exc")
                self.finals.append(fin_entry)
                return fouts
            return all_outs
        if isinstance(st, ast.Match):
            n = self._simple(st, ins, "match")
            g._own(n, st.subject)
            outs: list[tuple[int, str]] = []
            fall = [(n.id, "case")]
            exhaustive = False
            for case in st.cases:
                cn = g._new("case", case.pattern, st)
                if case.guard is not None:
                    g._own(cn, case.guard)
                self._connect(fall, cn.id)
                outs += self._block(case.body, [(cn.id, "match")])
                fall = [(cn.id, "nomatch")]
                if case.guard is None and isinstance(case.pattern, ast.MatchAs) and case.pattern.pattern is None:
                    exhaustive = True
                    fall = []
            return outs + ([] if exhaustive else fall)
        if isinstance(st, ast.Return):
            n = self._simple(st, ins)
            g._own(n, st.value)
            if self.exc_targets:
                self._exc_to(n.id)
            # return inside try/finally goes through finally; approximated by direct exit
            g._edge(n.id, g.exit, "return")
            return []
        if isinstance(st, ast.Raise):
            n = self._simple(st, ins)
            g._own(n, st.exc, st.cause)
            self._raise_to(n.id)
            return []
        if isinstance(st, ast.Expr) and hasattr(st, "_xsa_exhausted"):
            # the exhaustion marker of a `next(<generator expression>)` rewritten as a loop: raises StopIteration, never falls through
            n = self._simple(st, ins)
            g._own(n, st.value)
            self._raise_to(n.id)
            return []
        if isinstance(st, ast.Break):
            n = self._simple(st, ins)
            if self.loops:
                self.loops[-1][1].append(n.id)
            return []
        if isinstance(st, ast.Continue):
            n = self._simple(st, ins)
            if self.loops:
                g._edge(n.id, self.loops[-1][0], "continue")
            return []
        if isinstance(st, ast.Assert):
            first_before = len(g.nodes)
            t, f = self._cond(st.test, ins, st)
            g._stmt_node[id(st)] = first_before
            for a, lab in f:
                fail = g._new("stmt", st, st)
                fail.kind = "assert_fail"
                g._edge(a, fail.id, lab)
                self._raise_to(fail.id)
            return t
        # simple statement
        n = self._simple(st, ins)
        g._own(n, st)
        if self.exc_targets:
            self._exc_to(n.id)
        return [(n.id, "")]


def _is_suppress(e: ast.expr) -> bool:
    if isinstance(e, ast.Call):
        f = e.func
        name = f.attr if isinstance(f, ast.Attribute) else getattr(f, "id", "")
        return name == "suppress"
    return False


def build_cfg(fn: ast.AST) -> CFG:
    g = getattr(fn, "_xsa_cfg", None)
    if g is None:
        g = Builder(fn).build()
        fn._xsa_cfg = g  # type: ignore[attr-defined]
    return g


# ------------------------------------------------------------------ convenience


def calls_in(node: ast.AST) -> list[ast.Call]:
    """Calls inside a node, not descending into nested defs, in source order."""
    out = [n for n in walk_no_nested(node) if isinstance(n, ast.Call)]
    if isinstance(node, ast.Call):
        out.append(node)
    out.sort(key=lambda c: (c.lineno, c.col_offset))
    return out


def call_name(call: ast.Call) -> str:
    f = call.func
    if isinstance(f, ast.Attribute):
        return f.attr
    if isinstance(f, ast.Name):
        return f.id
    return ""


def header_exprs(st: ast.AST) -> list[ast.AST]:
    """The expressions a CFG node of this statement evaluates itself (not nested bodies)."""
    if isinstance(st, (ast.For, ast.AsyncFor)):
        return [st.iter, st.target]
    if isinstance(st, (ast.With, ast.AsyncWith)):
        return [x for item in st.items for x in (item.context_expr, item.optional_vars) if x is not None]
    if isinstance(st, ast.Match):
        return [st.subject]
    if isinstance(st, (ast.If, ast.While)):
        return [st.test]
    if isinstance(st, (ast.Try, ast.FunctionDef, ast.AsyncFunctionDef, ast.ClassDef)):
        return []
    return [st]


def node_calls(n: Node) -> list[ast.Call]:
    """Calls evaluated by the CFG node itself."""
    if n.ast is None:
        return []
    if n.kind == "test":
        return calls_in(n.ast)
    if n.kind in ("except", "case", "assert_fail"):
        return []
    out: list[ast.Call] = []
    for e in header_exprs(n.ast):
        out.extend(calls_in(e))
    return out
