"""E2 - annotation-driven type inference and call resolution (class-hierarchy analysis).

Type descriptors are tuples:
  ("inst", class_qual)      instance of a repo class
  ("type", class_qual)      the repo class object
  ("mod", module_name)      a repo module
  ("func", func_qual)       a repo function / bound method object
  ("ext", dotted)           an external object (module, function, class) e.g. "json.load"
  ("extinst", dotted)       an instance of an external class e.g. "builtins.dict"
Inference returns a list of candidates; empty list = unknown.
"""

from __future__ import annotations

import ast
import builtins
from dataclasses import dataclass, field

from .model import ClassInfo, FuncInfo, Module, Repo, dotted_name, walk_no_nested

T = tuple

BUILTIN_NAMES = set(dir(builtins))
CONTAINER_ANN = {
    "list": "builtins.list", "List": "builtins.list", "Sequence": "builtins.list", "Iterable": "builtins.list",
    "Iterator": "builtins.iterator", "Generator": "builtins.iterator",
    "MutableSequence": "builtins.list", "Collection": "builtins.list",
    "dict": "builtins.dict", "Dict": "builtins.dict", "Mapping": "builtins.dict", "MutableMapping": "builtins.dict",
    "defaultdict": "builtins.dict", "DefaultDict": "builtins.dict", "OrderedDict": "builtins.dict",
    "set": "builtins.set", "Set": "builtins.set", "frozenset": "builtins.frozenset", "FrozenSet": "builtins.frozenset",
    "tuple": "builtins.tuple", "Tuple": "builtins.tuple",
    "str": "builtins.str", "bytes": "builtins.bytes", "int": "builtins.int", "float": "builtins.float",
    "bool": "builtins.bool", "Decimal": "decimal.Decimal", "Path": "pathlib.Path", "object": "builtins.object",
    "deque": "collections.deque",
}


@dataclass
class Resolved:
    call: ast.Call
    funcs: list[FuncInfo] = field(default_factory=list)
    ctors: list[ClassInfo] = field(default_factory=list)
    externals: list[str] = field(default_factory=list)
    unresolved: bool = False
    name: str = ""
    by_name: bool = False  # resolved only by method-name over-approximation

    @property
    def exact(self) -> bool:
        return not self.unresolved and not self.by_name


class Resolver:
    def __init__(self, repo: Repo):
        self.repo = repo
        self._env_cache: dict[str, dict[str, list[T]]] = {}
        self._attr_cache: dict[tuple[str, str], list[T]] = {}
        self._call_cache: dict[int, Resolved] = {}
        self.stats = {"calls": 0, "exact": 0, "by_name": 0, "external": 0, "unresolved": 0}

    # ------------------------------------------------------------ annotations
    def ann_types(self, mod: Module, ann: ast.expr | None, elem: bool = False) -> list[T]:
        """Types denoted by an annotation.  With elem=True return the element type of a container."""
        if ann is None:
            return []
        if isinstance(ann, ast.Constant) and isinstance(ann.value, str):
            try:
                ann = ast.parse(ann.value, mode="eval").body
            except SyntaxError:
                return []
        if isinstance(ann, ast.Constant) and ann.value is None:
            return []
        if isinstance(ann, ast.BinOp) and isinstance(ann.op, ast.BitOr):
            return self.ann_types(mod, ann.left, elem) + self.ann_types(mod, ann.right, elem)
        if isinstance(ann, ast.Subscript):
            head = dotted_name(ann.value) or ""
            short = head.split(".")[-1]
            args = ann.slice.elts if isinstance(ann.slice, ast.Tuple) else [ann.slice]
            if short in ("Optional", "Final", "ClassVar", "Annotated"):
                return self.ann_types(mod, args[0], elem)
            if short == "Union":
                out: list[T] = []
                for a in args:
                    out += self.ann_types(mod, a, elem)
                return out
            if short in ("type", "Type"):
                if elem:
                    return []
                return [("type", t[1]) for t in self.ann_types(mod, args[0]) if t[0] == "inst"]
            if short in CONTAINER_ANN:
                if elem:
                    if CONTAINER_ANN[short] == "builtins.dict":
                        return self.ann_types(mod, args[-1]) if len(args) == 2 else []
                    if short in ("tuple", "Tuple") and len(args) > 1 and not (
                        isinstance(args[-1], ast.Constant) and args[-1].value is Ellipsis
                    ):
                        return []
                    return self.ann_types(mod, args[0])
                return [("extinst", CONTAINER_ANN[short])]
            if short == "Callable":
                return []
            # generic repo class Foo[T]
            return self.ann_types(mod, ann.value, elem)
        if elem:
            return []
        name = dotted_name(ann)
        if name is None:
            return []
        short = name.split(".")[-1]
        r = self.repo.resolve_name(mod, name)
        if r and r in self.repo.classes:
            return [("inst", r)]
        if short in CONTAINER_ANN and (r is None or not r.startswith("xsdata")):
            return [("extinst", CONTAINER_ANN[short])]
        if r and ":" not in r and r not in self.repo.modules:
            if short in ("Any", "T", "Self", "Callable", "TypeVar"):
                return []
            return [("extinst", r)]
        return []

    # ------------------------------------------------------------ attributes
    def attr_types(self, ci: ClassInfo, attr: str, elem: bool = False) -> list[T]:
        key = (ci.qual, attr + ("[]" if elem else ""))
        if key in self._attr_cache:
            return self._attr_cache[key]
        self._attr_cache[key] = []  # recursion guard
        out: list[T] = []
        for c in ci.mro:
            if attr in c.methods:
                m = c.methods[attr]
                if m.is_property:
                    out = self.ann_types(m.module, m.node.returns, elem)
                elif not elem:
                    out = [("func", m.qual)]
                break
            if attr in c.ann:
                out = self.ann_types(c.module, c.ann[attr], elem)
                if out:
                    break
            # self.attr = <param> / self.attr: T = ... in any method (init first)
            found = self._self_assign_types(c, attr, elem)
            if found:
                out = found
                break
            if attr in c.attrs and not elem:
                # class-level constant: infer from value in a fake context
                out = self._expr_types_static(c.module, c.attrs[attr])
                if out:
                    break
        self._attr_cache[key] = out
        return out

    def _self_assign_types(self, c: ClassInfo, attr: str, elem: bool) -> list[T]:
        order = sorted(c.methods.values(), key=lambda m: (m.name not in ("__init__", "__post_init__"), m.node.lineno))
        for m in order:
            for n in walk_no_nested(m.node):
                tgt = val = ann = None
                if isinstance(n, ast.AnnAssign):
                    tgt, val, ann = n.target, n.value, n.annotation
                elif isinstance(n, ast.Assign) and len(n.targets) == 1:
                    tgt, val = n.targets[0], n.value
                if (
                    isinstance(tgt, ast.Attribute)
                    and tgt.attr == attr
                    and isinstance(tgt.value, ast.Name)
                    and tgt.value.id == "self"
                ):
                    if ann is not None:
                        t = self.ann_types(m.module, ann, elem)
                        if t:
                            return t
                    if val is not None:
                        t = self.expr_types(m, val, elem=elem)
                        if t:
                            return t
        return []

    def _expr_types_static(self, mod: Module, e: ast.expr) -> list[T]:
        if isinstance(e, ast.Call):
            name = dotted_name(e.func)
            if name:
                r = self.repo.resolve_name(mod, name)
                if r in self.repo.classes:
                    return [("inst", r)]
        return self._literal_types(e)

    @staticmethod
    def _literal_types(e: ast.expr) -> list[T]:
        if isinstance(e, (ast.Dict, ast.DictComp)):
            return [("extinst", "builtins.dict")]
        if isinstance(e, (ast.List, ast.ListComp)):
            return [("extinst", "builtins.list")]
        if isinstance(e, (ast.Set, ast.SetComp)):
            return [("extinst", "builtins.set")]
        if isinstance(e, ast.Tuple):
            return [("extinst", "builtins.tuple")]
        if isinstance(e, ast.JoinedStr):
            return [("extinst", "builtins.str")]
        if isinstance(e, ast.GeneratorExp):
            return [("extinst", "builtins.iterator")]
        if isinstance(e, ast.Constant):
            if isinstance(e.value, bool):
                return [("extinst", "builtins.bool")]
            if isinstance(e.value, str):
                return [("extinst", "builtins.str")]
            if isinstance(e.value, bytes):
                return [("extinst", "builtins.bytes")]
            if isinstance(e.value, int):
                return [("extinst", "builtins.int")]
            if isinstance(e.value, float):
                return [("extinst", "builtins.float")]
        return []

    # ------------------------------------------------------------ local env
    def env(self, fi: FuncInfo) -> dict[str, list[T]]:
        if fi.qual in self._env_cache:
            return self._env_cache[fi.qual]
        env: dict[str, list[T]] = {}
        self._env_cache[fi.qual] = env
        mod = fi.module
        a = fi.node.args
        pos = [*a.posonlyargs, *a.args]
        for i, arg in enumerate([*pos, *a.kwonlyargs]):
            if i == 0 and fi.cls is not None and arg in pos and not fi.is_staticmethod:
                env[arg.arg] = [("type", fi.cls.qual)] if (fi.is_classmethod or fi.name == "__new__" or fi.name == "__init_subclass__") else [("inst", fi.cls.qual)]
                continue
            env[arg.arg] = self.ann_types(mod, arg.annotation)
            env[arg.arg + "[]"] = self.ann_types(mod, arg.annotation, elem=True)
        if a.vararg:
            env[a.vararg.arg] = [("extinst", "builtins.tuple")]
            env[a.vararg.arg + "[]"] = self.ann_types(mod, a.vararg.annotation)
        if a.kwarg:
            env[a.kwarg.arg] = [("extinst", "builtins.dict")]
        # two passes of flow-insensitive assignment typing
        for _ in range(2):
            for n in walk_no_nested(fi.node):
                if isinstance(n, ast.AnnAssign) and isinstance(n.target, ast.Name):
                    env[n.target.id] = self.ann_types(mod, n.annotation)
                    env[n.target.id + "[]"] = self.ann_types(mod, n.annotation, elem=True)
                elif isinstance(n, ast.Assign):
                    for tgt in n.targets:
                        self._bind(fi, env, tgt, n.value)
                elif isinstance(n, ast.NamedExpr):
                    self._bind(fi, env, n.target, n.value)
                elif isinstance(n, (ast.For, ast.AsyncFor)):
                    self._bind_elem(fi, env, n.target, n.iter)
                elif isinstance(n, ast.comprehension):
                    self._bind_elem(fi, env, n.target, n.iter)
                elif isinstance(n, (ast.With, ast.AsyncWith)):
                    for item in n.items:
                        if isinstance(item.optional_vars, ast.Name):
                            self._add(env, item.optional_vars.id, self.expr_types(fi, item.context_expr, env=env))
        return env

    @staticmethod
    def _add(env: dict[str, list[T]], name: str, types: list[T]) -> None:
        cur = env.setdefault(name, [])
        for t in types:
            if t not in cur:
                cur.append(t)

    def _bind(self, fi: FuncInfo, env: dict[str, list[T]], tgt: ast.expr, val: ast.expr) -> None:
        if isinstance(tgt, ast.Name):
            self._add(env, tgt.id, self.expr_types(fi, val, env=env))
            self._add(env, tgt.id + "[]", self.expr_types(fi, val, env=env, elem=True))
        elif isinstance(tgt, (ast.Tuple, ast.List)) and isinstance(val, (ast.Tuple, ast.List)) and len(tgt.elts) == len(val.elts):
            for t, v in zip(tgt.elts, val.elts):
                self._bind(fi, env, t, v)

    def _bind_elem(self, fi: FuncInfo, env: dict[str, list[T]], tgt: ast.expr, it: ast.expr) -> None:
        if isinstance(tgt, ast.Name):
            self._add(env, tgt.id, self.expr_types(fi, it, env=env, elem=True))
        elif isinstance(tgt, ast.Tuple) and isinstance(it, ast.Call):
            # for i, x in enumerate(xs) / for k, v in d.items()
            name = dotted_name(it.func) or (it.func.attr if isinstance(it.func, ast.Attribute) else "")
            if name == "enumerate" and it.args and len(tgt.elts) == 2 and isinstance(tgt.elts[1], ast.Name):
                self._add(env, tgt.elts[0].id if isinstance(tgt.elts[0], ast.Name) else "_", [("extinst", "builtins.int")])
                self._add(env, tgt.elts[1].id, self.expr_types(fi, it.args[0], env=env, elem=True))
            elif isinstance(it.func, ast.Attribute) and it.func.attr == "items" and len(tgt.elts) == 2 and isinstance(tgt.elts[1], ast.Name):
                self._add(env, tgt.elts[1].id, self.expr_types(fi, it.func.value, env=env, elem=True))

    # ------------------------------------------------------------ expressions
    def expr_types(self, fi: FuncInfo, e: ast.expr | None, env: dict[str, list[T]] | None = None, elem: bool = False) -> list[T]:
        if e is None:
            return []
        if env is None:
            env = self.env(fi)
        mod = fi.module
        if isinstance(e, ast.Name):
            if elem:
                if e.id + "[]" in env:
                    return env[e.id + "[]"]
                return []
            if e.id in env and env[e.id]:
                return env[e.id]
            if e.id in env:
                return []
            return self._global_types(mod, e.id)
        if isinstance(e, ast.Attribute):
            base = self.expr_types(fi, e.value, env)
            out: list[T] = []
            for t in base:
                if t[0] == "inst" and t[1] in self.repo.classes:
                    out += self.attr_types(self.repo.classes[t[1]], e.attr, elem)
                elif t[0] == "type" and t[1] in self.repo.classes:
                    ci = self.repo.classes[t[1]]
                    m = ci.find_method(e.attr)
                    if m and not elem:
                        out.append(("func", m.qual))
                    else:
                        nested = f"{t[1]}.{e.attr}"
                        if nested in self.repo.classes and not elem:
                            out.append(("type", nested))
                        else:
                            fa = ci.find_attr(e.attr)
                            if fa and not elem:
                                # Enum member / class constant
                                if any(b.split(".")[-1] in ("Enum", "IntEnum", "Flag") for b in ci.ext_bases):
                                    out.append(("inst", ci.qual))
                                else:
                                    out += self._expr_types_static(fa[0].module, fa[1])
                            elif e.attr in ("__class__",):
                                out.append(("type", t[1]))
                elif t[0] == "mod":
                    if not elem:
                        out += self._global_types(self.repo.modules[t[1]], e.attr)
                elif t[0] == "ext" and not elem:
                    out.append(("ext", f"{t[1]}.{e.attr}"))
                elif t[0] == "extinst" and not elem:
                    out.append(("ext", f"{t[1]}.{e.attr}"))
            if e.attr == "__class__" and not elem:
                out += [("type", t[1]) for t in base if t[0] == "inst"]
            return _uniq(out)
        if isinstance(e, ast.Call):
            return self._call_types(fi, e, env, elem)
        if isinstance(e, ast.Subscript):
            if elem:
                return []
            return self.expr_types(fi, e.value, env, elem=True)
        if isinstance(e, ast.IfExp):
            return _uniq(self.expr_types(fi, e.body, env, elem) + self.expr_types(fi, e.orelse, env, elem))
        if isinstance(e, ast.BoolOp):
            out = []
            for v in e.values:
                out += self.expr_types(fi, v, env, elem)
            return _uniq(out)
        if isinstance(e, ast.NamedExpr):
            return self.expr_types(fi, e.value, env, elem)
        if isinstance(e, ast.Await):
            return self.expr_types(fi, e.value, env, elem)
        if isinstance(e, ast.Starred):
            return self.expr_types(fi, e.value, env, elem)
        if elem:
            if isinstance(e, (ast.List, ast.Tuple, ast.Set)) and e.elts:
                out = []
                for x in e.elts:
                    out += self.expr_types(fi, x, env)
                return _uniq(out)
            if isinstance(e, (ast.ListComp, ast.SetComp, ast.GeneratorExp)):
                return self.expr_types(fi, e.elt, env)
            if isinstance(e, ast.BinOp):
                return _uniq(self.expr_types(fi, e.left, env, True) + self.expr_types(fi, e.right, env, True))
            return []
        if isinstance(e, ast.BinOp):
            lt = self.expr_types(fi, e.left, env)
            if isinstance(e.op, ast.Mod) and any(t == ("extinst", "builtins.str") for t in lt):
                return [("extinst", "builtins.str")]
            return lt or self.expr_types(fi, e.right, env)
        if isinstance(e, ast.Compare):
            return [("extinst", "builtins.bool")]
        return self._literal_types(e)

    def _global_types(self, mod: Module, name: str) -> list[T]:
        r = self.repo.resolve_name(mod, name)
        if r is None:
            if name in BUILTIN_NAMES:
                return [("ext", f"builtins.{name}")]
            return []
        if r in self.repo.classes:
            return [("type", r)]
        if r in self.repo.functions:
            return [("func", r)]
        if r in self.repo.modules:
            return [("mod", r)]
        if ":" in r:
            m, g = r.split(":", 1)
            gm = self.repo.modules.get(m)
            if gm and g in gm.globals:
                if g in gm.global_ann:
                    t = self.ann_types(gm, gm.global_ann[g])
                    if t:
                        return t
                return self._expr_types_static(gm, gm.globals[g])
            return []
        return [("ext", r)]

    def _call_types(self, fi: FuncInfo, e: ast.Call, env: dict[str, list[T]], elem: bool) -> list[T]:
        ft = self.expr_types(fi, e.func, env)
        out: list[T] = []
        for t in ft:
            if t[0] == "type":
                if not elem:
                    out.append(("inst", t[1]))
            elif t[0] == "func":
                f = self.repo.functions.get(t[1])
                if f is not None:
                    out += self.ann_types(f.module, f.node.returns, elem)
            elif t[0] == "ext":
                d = t[1]
                short = d.split(".")[-1]
                if d.startswith("builtins."):
                    if short in ("list", "sorted", "reversed"):
                        out += self.expr_types(fi, e.args[0], env, elem=True) if (elem and e.args) else ([] if elem else [("extinst", "builtins.list")])
                    elif short in ("dict", "set", "frozenset", "tuple", "str", "int", "float", "bool", "bytes") and not elem:
                        out.append(("extinst", d))
                    elif short in ("tuple", "set", "frozenset", "iter") and elem and e.args:
                        out += self.expr_types(fi, e.args[0], env, elem=True)
                    elif short in ("next",) and e.args and not elem:
                        out += self.expr_types(fi, e.args[0], env, elem=True)
                    elif short == "type" and len(e.args) == 1 and not elem:
                        out += [("type", x[1]) for x in self.expr_types(fi, e.args[0], env) if x[0] == "inst"]
                    elif short == "super" and not elem:
                        if fi.cls is not None:
                            out.append(("super", fi.cls.qual))
                    elif short in ("enumerate", "zip", "map", "filter") and not elem:
                        out.append(("extinst", "builtins.iterator"))
                    elif short == "getattr" and not elem:
                        pass
                    elif short == "cast":
                        pass
                elif d == "typing.cast" and len(e.args) == 2:
                    out += self.ann_types(fi.module, e.args[0], elem)
                elif d in ("copy.copy", "copy.deepcopy", "dataclasses.replace") and e.args:
                    out += self.expr_types(fi, e.args[0], env, elem)
                elif d.startswith("builtins.dict.") or d.startswith("builtins.list.") or d.startswith("builtins.str."):
                    recv = e.func.value if isinstance(e.func, ast.Attribute) else None
                    if short in ("get", "pop", "setdefault") and d.startswith("builtins.dict.") and recv is not None and not elem:
                        out += self.expr_types(fi, recv, env, elem=True)
                    elif short in ("values",) and recv is not None:
                        out += self.expr_types(fi, recv, env, elem=True) if elem else [("extinst", "builtins.list")]
                    elif short in ("copy",) and recv is not None:
                        out += self.expr_types(fi, recv, env, elem)
                    elif short in ("pop",) and d.startswith("builtins.list.") and recv is not None and not elem:
                        out += self.expr_types(fi, recv, env, elem=True)
                    elif d.startswith("builtins.str.") and not elem:
                        if short in ("split", "rsplit", "splitlines", "partition", "rpartition"):
                            out.append(("extinst", "builtins.list"))
                        elif short in ("startswith", "endswith", "isdigit", "isspace"):
                            out.append(("extinst", "builtins.bool"))
                        elif short in ("find", "index", "count"):
                            out.append(("extinst", "builtins.int"))
                        elif short in ("encode",):
                            out.append(("extinst", "builtins.bytes"))
                        else:
                            out.append(("extinst", "builtins.str"))
                    elif d.startswith("builtins.str.") and elem and short in ("split", "rsplit", "splitlines"):
                        out.append(("extinst", "builtins.str"))
                elif not elem:
                    # external class constructor heuristics: CamelCase last component
                    if short[:1].isupper():
                        out.append(("extinst", d))
        return _uniq(out)

    # ------------------------------------------------------------ calls
    def resolve_call(self, fi: FuncInfo, call: ast.Call) -> Resolved:
        key = id(call)
        if key in self._call_cache:
            return self._call_cache[key]
        res = self._resolve_call(fi, call)
        self._call_cache[key] = res
        self.stats["calls"] += 1
        if res.unresolved:
            self.stats["unresolved"] += 1
        elif res.by_name:
            self.stats["by_name"] += 1
        elif res.externals and not res.funcs and not res.ctors:
            self.stats["external"] += 1
        else:
            self.stats["exact"] += 1
        return res

    def _resolve_call(self, fi: FuncInfo, call: ast.Call) -> Resolved:
        f = call.func
        name = f.attr if isinstance(f, ast.Attribute) else (f.id if isinstance(f, ast.Name) else "")
        res = Resolved(call=call, name=name)
        env = self.env(fi)
        types: list[T] = []
        if isinstance(f, ast.Attribute):
            base = self.expr_types(fi, f.value, env)
            for t in base:
                if t[0] == "inst" and t[1] in self.repo.classes:
                    ci = self.repo.classes[t[1]]
                    m = ci.find_method(f.attr)
                    if m is not None and not m.is_property:
                        self._add_func(res, m)
                        recv_is_self = isinstance(f.value, ast.Name) and f.value.id in ("self", "cls")
                        # class-hierarchy analysis: overriding subclasses
                        for sub in ci.all_subclasses():
                            if f.attr in sub.methods:
                                self._add_func(res, sub.methods[f.attr])
                    else:
                        # callable attribute (field holding a function / class)
                        for at in self.attr_types(ci, f.attr):
                            self._add_type_target(res, at)
                        if not (res.funcs or res.ctors or res.externals):
                            for at in self._field_default_types(ci, f.attr):
                                self._add_type_target(res, at)
                        if not (res.funcs or res.ctors or res.externals):
                            for sub in ci.all_subclasses():
                                if f.attr in sub.methods:
                                    self._add_func(res, sub.methods[f.attr])
                elif t[0] == "type" and t[1] in self.repo.classes:
                    ci = self.repo.classes[t[1]]
                    m = ci.find_method(f.attr)
                    if m is not None:
                        self._add_func(res, m)
                        if isinstance(f.value, ast.Name) and f.value.id == "cls":
                            for sub in ci.all_subclasses():
                                if f.attr in sub.methods:
                                    self._add_func(res, sub.methods[f.attr])
                    else:
                        nested = f"{t[1]}.{f.attr}"
                        if nested in self.repo.classes:
                            res.ctors.append(self.repo.classes[nested])
                elif t[0] == "super" and t[1] in self.repo.classes:
                    ci = self.repo.classes[t[1]]
                    found = False
                    for c in ci.mro[1:]:
                        if f.attr in c.methods:
                            self._add_func(res, c.methods[f.attr])
                            found = True
                            break
                    if not found:
                        for b in ci.ext_bases:
                            res.externals.append(f"{b}.{f.attr}")
                elif t[0] == "mod":
                    for gt in self._global_types(self.repo.modules[t[1]], f.attr):
                        self._add_type_target(res, gt)
                elif t[0] in ("ext", "extinst"):
                    res.externals.append(f"{t[1]}.{f.attr}")
                elif t[0] == "func":
                    res.externals.append(f"function.{f.attr}")
            if not (res.funcs or res.ctors or res.externals):
                # name-based over-approximation for may-analyses
                cands = [m for m in self.repo.methods_by_name.get(f.attr, []) if m.cls is not None]
                if cands:
                    res.funcs = cands
                    res.by_name = True
                else:
                    res.externals.append(f"?.{f.attr}")
        elif isinstance(f, ast.Name):
            if f.id in env and env[f.id]:
                for t in env[f.id]:
                    self._add_type_target(res, t)
            elif f.id in env:
                res.unresolved = True
            else:
                for t in self._global_types(fi.module, f.id):
                    self._add_type_target(res, t)
                if not (res.funcs or res.ctors or res.externals):
                    # nested function defined in this function?
                    for n in walk_no_nested(fi.node):
                        if isinstance(n, (ast.FunctionDef, ast.AsyncFunctionDef)) and n.name == f.id:
                            res.externals.append(f"local.{f.id}")
                    if not res.externals:
                        res.unresolved = True
        elif isinstance(f, ast.Call):
            # super().__init__ handled above via Attribute; f()(...) : type of inner call result
            for t in self.expr_types(fi, f, env):
                self._add_type_target(res, t)
            if not (res.funcs or res.ctors or res.externals):
                res.unresolved = True
        elif isinstance(f, ast.Subscript):
            # table dispatch: TABLE[key](...)
            targets = self._table_values(fi, f.value)
            for t in targets:
                self._add_type_target(res, t)
            if not (res.funcs or res.ctors or res.externals):
                res.unresolved = True
        else:
            res.unresolved = True
        return res

    def _field_default_types(self, ci: ClassInfo, attr: str) -> list[T]:
        """A callable stored in a (dataclass) field: resolve through its default value."""
        fa = ci.find_attr(attr)
        if fa is None:
            return []
        owner, val = fa
        if isinstance(val, ast.Call) and (dotted_name(val.func) or "").split(".")[-1] == "field":
            for k in val.keywords:
                if k.arg == "default":
                    val = k.value
                    break
            else:
                return []
        name = dotted_name(val)
        if name is None:
            return []
        return self._global_types(owner.module, name.split(".")[0]) if "." not in name else self._dotted_types(owner.module, name)

    def _dotted_types(self, mod: Module, name: str) -> list[T]:
        r = self.repo.resolve_name(mod, name)
        if r is None:
            return []
        if r in self.repo.classes:
            return [("type", r)]
        if r in self.repo.functions:
            return [("func", r)]
        if r in self.repo.modules:
            return [("mod", r)]
        if ":" in r:
            return []
        return [("ext", r)]

    def _table_values(self, fi: FuncInfo, e: ast.expr) -> list[T]:
        """Values of a dict literal bound to a local/global/class attribute used as dispatch."""
        node: ast.expr | None = None
        if isinstance(e, ast.Name):
            for n in walk_no_nested(fi.node):
                if isinstance(n, ast.Assign) and any(isinstance(t, ast.Name) and t.id == e.id for t in n.targets):
                    node = n.value
            if node is None and e.id in fi.module.globals:
                node = fi.module.globals[e.id]
        elif isinstance(e, ast.Attribute) and isinstance(e.value, ast.Name) and e.value.id in ("self", "cls") and fi.cls:
            fa = fi.cls.find_attr(e.attr)
            if fa:
                node = fa[1]
        out: list[T] = []
        if isinstance(node, ast.Dict):
            for v in node.values:
                out += self.expr_types(fi, v)
        return out

    def _add_func(self, res: Resolved, m: FuncInfo) -> None:
        if m not in res.funcs:
            res.funcs.append(m)

    def _add_type_target(self, res: Resolved, t: T) -> None:
        if t[0] == "func" and t[1] in self.repo.functions:
            self._add_func(res, self.repo.functions[t[1]])
        elif t[0] == "type" and t[1] in self.repo.classes:
            ci = self.repo.classes[t[1]]
            if ci not in res.ctors:
                res.ctors.append(ci)
        elif t[0] == "ext":
            if t[1] not in res.externals:
                res.externals.append(t[1])
        elif t[0] == "inst" and t[1] in self.repo.classes:
            m = self.repo.classes[t[1]].find_method("__call__")
            if m:
                self._add_func(res, m)
        elif t[0] == "extinst":
            res.externals.append(f"{t[1]}.__call__")

    def ctor_funcs(self, ci: ClassInfo) -> list[FuncInfo]:
        out = []
        for name in ("__new__", "__init__", "__post_init__"):
            m = ci.find_method(name)
            if m:
                out.append(m)
        return out

    def callees(self, fi: FuncInfo, include_by_name: bool = True) -> list[tuple[ast.Call, Resolved]]:
        out = []
        for n in walk_no_nested(fi.node):
            if isinstance(n, ast.Call):
                out.append((n, self.resolve_call(fi, n)))
        return out

    def callee_funcs(self, fi: FuncInfo, include_by_name: bool = True) -> set[FuncInfo]:
        out: set[FuncInfo] = set()
        for _, r in self.callees(fi):
            if r.by_name and not include_by_name:
                continue
            out.update(r.funcs)
            for c in r.ctors:
                out.update(self.ctor_funcs(c))
        # properties accessed as attributes
        env = self.env(fi)
        for n in walk_no_nested(fi.node):
            if isinstance(n, ast.Attribute) and isinstance(n.ctx, ast.Load):
                for t in self.expr_types(fi, n.value, env):
                    if t[0] == "inst" and t[1] in self.repo.classes:
                        ci = self.repo.classes[t[1]]
                        m = ci.find_method(n.attr)
                        if m is not None and m.is_property:
                            out.add(m)
                            for sub in ci.all_subclasses():
                                if n.attr in sub.methods:
                                    out.add(sub.methods[n.attr])
        return out

    def reachable_funcs(self, roots: list[FuncInfo], include_by_name: bool = True) -> dict[FuncInfo, FuncInfo | None]:
        """Call-graph closure; value = a caller through which the function was first reached."""
        parent: dict[FuncInfo, FuncInfo | None] = {r: None for r in roots}
        stack = list(roots)
        while stack:
            f = stack.pop()
            for g in self.callee_funcs(f, include_by_name):
                if g not in parent:
                    parent[g] = f
                    stack.append(g)
        return parent


def _uniq(xs: list[T]) -> list[T]:
    out: list[T] = []
    for x in xs:
        if x not in out:
            out.append(x)
    return out
