"""E4 - interprocedural may-raise analysis.

Sources of exceptions: explicit ``raise``, ``assert``, calls (resolved through E2), a table of
fallible externals.  Subtracted: what enclosing ``except`` handlers / ``suppress`` catch, using
the builtin hierarchy of the running interpreter plus the repository's exception classes and a
small table of external exception classes.

Implicit exceptions of primitive operations (subscripts, attribute access on None, arithmetic)
are outside the model; that boundary is printed with every result.
"""

from __future__ import annotations

import ast
import re
import builtins
from dataclasses import dataclass, field

from .cfg import calls_in
from .core import Ctx
from .inline import origin as _origin
from .model import ClassInfo, FuncInfo, dotted_name, walk_no_nested
from .q import unparse
from .resolve import Resolved

# external exception classes -> their bases (short names)
EXT_EXC_BASES = {
    "JSONDecodeError": ["ValueError"],
    "binascii.Error": ["ValueError"],
    "Error": ["ValueError"],  # binascii.Error as referenced by short name
    "InvalidOperation": ["ArithmeticError"],
    "ParseError": ["SyntaxError"],
    "XMLSyntaxError": ["SyntaxError"],
    "XIncludeError": ["Exception"],
    "FatalIncludeError": ["SyntaxError"],
    "ExpatError": ["Exception"],
    "PackageNotFoundError": ["ImportError"],
}

# fallible externals: dotted -> exceptions (assuming *document-derived* arguments)
EXTERNAL_RAISES: dict[str, set[str]] = {
    "builtins.int": {"ValueError", "TypeError"},
    "builtins.float": {"ValueError", "TypeError"},
    "builtins.complex": {"ValueError", "TypeError"},
    "decimal.Decimal": {"InvalidOperation", "TypeError", "ValueError"},
    "builtins.dict": {"TypeError", "ValueError"},
    "builtins.bytes": {"TypeError", "ValueError"},
    "builtins.next": {"StopIteration"},
    "builtins.chr": {"ValueError"},
    "builtins.getattr": set(),
    "binascii.unhexlify": {"binascii.Error"},
    "binascii.hexlify": {"TypeError"},
    "base64.b64decode": {"binascii.Error"},
    "base64.b64encode": {"TypeError"},
    "base64.b16encode": {"TypeError"},
    "datetime.datetime.strptime": {"ValueError"},
    "datetime.datetime": {"ValueError", "TypeError"},
    "datetime.date": {"ValueError", "TypeError"},
    "datetime.time": {"ValueError", "TypeError"},
    "datetime.timedelta": {"TypeError", "OverflowError"},
    "datetime.timezone": {"ValueError"},
    "json.load": {"JSONDecodeError", "UnicodeDecodeError"},
    "json.loads": {"JSONDecodeError", "UnicodeDecodeError"},
    # expat also reports an unknown declared encoding as LookupError and a multi-byte one as a bare ValueError (raised while iterating)
    "xml.etree.ElementTree.iterparse": {"ParseError", "LookupError", "ValueError"},
    "xml.etree.ElementTree.parse": {"ParseError"},
    "xml.etree.ElementTree.fromstring": {"ParseError"},
    "xml.etree.ElementInclude.include": {"ParseError", "FatalIncludeError", "OSError"},
    "lxml.etree.iterparse": {"XMLSyntaxError"},
    "lxml.etree.parse": {"XMLSyntaxError", "OSError"},
    "lxml.etree.fromstring": {"XMLSyntaxError"},
    "lxml.etree.iterwalk": set(),
    "builtins.bytes.decode": {"UnicodeDecodeError"},
    "builtins.str.index": {"ValueError"},
    "builtins.list.index": {"ValueError"},
    "builtins.list.remove": {"ValueError"},
    "operator.attrgetter": set(),
    "importlib.import_module": {"ImportError"},
    "builtins.open": {"OSError"},
    "pathlib.Path.read_text": {"OSError", "UnicodeDecodeError"},
    "pathlib.Path.read_bytes": {"OSError"},
    "urllib.request.urlopen": {"OSError", "ValueError"},
}
# arguments of a proven kind narrow the set: (callee, kind of first arg) -> raises
NARROW_BY_ARG = {
    ("builtins.int", "builtins.str"): {"ValueError"},
    ("builtins.float", "builtins.str"): {"ValueError"},
    ("decimal.Decimal", "builtins.str"): {"InvalidOperation"},
    ("builtins.int", "builtins.int"): set(),
    ("builtins.int", "builtins.bool"): set(),
    ("builtins.float", "builtins.int"): set(),
    ("builtins.float", "builtins.float"): set(),
    ("builtins.bytes", "builtins.bytes"): set(),
    ("builtins.dict", "builtins.dict"): set(),
    ("base64.b64encode", "builtins.bytes"): set(),
    ("base64.b16encode", "builtins.bytes"): set(),
    ("binascii.hexlify", "builtins.bytes"): set(),
}


def builtin_bases(name: str) -> list[str]:
    obj = getattr(builtins, name, None)
    if isinstance(obj, type) and issubclass(obj, BaseException):
        return [c.__name__ for c in obj.__mro__[1:] if c is not object]
    return []


class ExcHierarchy:
    def __init__(self, ctx: Ctx):
        self.repo = ctx.repo
        self._cache: dict[str, set[str]] = {}

    def ancestors(self, name: str) -> set[str]:
        """All ancestor short names including itself."""
        if name in self._cache:
            return self._cache[name]
        out = {name, name.split(".")[-1]}
        self._cache[name] = out
        short = name.split(".")[-1]
        bb = builtin_bases(short)
        if bb:
            out.update(bb)
        elif short in EXT_EXC_BASES or name in EXT_EXC_BASES:
            for b in EXT_EXC_BASES.get(name, EXT_EXC_BASES.get(short, [])):
                out |= self.ancestors(b)
        else:
            for ci in self.repo.class_by_name.get(short, []):
                for c in ci.mro:
                    out.add(c.name)
                for b in ci.ext_bases:
                    out |= self.ancestors(b.split(".")[-1])
        out.add("BaseException")
        return out

    def catches(self, handler: str, exc: str) -> bool:
        h = handler.split(".")[-1]
        if handler in ("binascii.Error",):
            h = "binascii.Error"
        anc = self.ancestors(exc)
        return h in anc or handler in anc


@dataclass
class RaiseSite:
    node: ast.AST
    exc_name: str
    kind: str  # raise | assert
    reraise: bool = False
    caught_locally: bool = False
    abstract: bool = False


def _exc_class_name(e: ast.expr | None) -> str:
    if e is None:
        return ""
    if isinstance(e, ast.Call):
        e = e.func
    d = dotted_name(e)
    return d.split(".")[-1] if d else "?"


@dataclass
class Guard:
    """One enclosing protection of a node: handler types of a try, or a suppress()."""
    types: list[str]
    try_node: ast.AST
    handlers: list[ast.ExceptHandler] = field(default_factory=list)


class FuncExc:
    """Per-function syntactic facts for the exception analysis."""

    def __init__(self, fi: FuncInfo):
        self.fi = fi
        self.parents: dict[int, tuple[ast.AST, str]] = {}
        self._index(fi.node)

    def _index(self, root: ast.AST) -> None:
        stack = [root]
        while stack:
            n = stack.pop()
            for fld, val in ast.iter_fields(n):
                vals = val if isinstance(val, list) else [val]
                for v in vals:
                    if isinstance(v, ast.AST):
                        if isinstance(v, (ast.FunctionDef, ast.AsyncFunctionDef, ast.ClassDef, ast.Lambda)) and n is not root:
                            self.parents[id(v)] = (n, fld)
                            continue
                        self.parents[id(v)] = (n, fld)
                        stack.append(v)

    def guards(self, node: ast.AST) -> list[Guard]:
        """Enclosing guards, innermost first."""
        out: list[Guard] = []
        cur = node
        while id(cur) in self.parents:
            par, fld = self.parents[id(cur)]
            if isinstance(par, ast.Try) and fld == "body":
                types: list[str] = []
                for h in par.handlers:
                    types += _handler_types(h)
                out.append(Guard(types, par, par.handlers))
            elif isinstance(par, (ast.With, ast.AsyncWith)) and fld == "body":
                for item in par.items:
                    ce = item.context_expr
                    if isinstance(ce, ast.Call) and (dotted_name(ce.func) or "").split(".")[-1] == "suppress":
                        out.append(Guard([_dn(a) for a in ce.args], par))
            cur = par
        return out

    def enclosing_handler(self, node: ast.AST) -> ast.ExceptHandler | None:
        cur = node
        while id(cur) in self.parents:
            par, fld = self.parents[id(cur)]
            if isinstance(par, ast.ExceptHandler):
                return par
            cur = par
        return None


def _dn(e: ast.expr) -> str:
    d = dotted_name(e)
    if d is None:
        return "?"
    if d.endswith("binascii.Error"):
        return "binascii.Error"
    return d.split(".")[-1]


def _handler_types(h: ast.ExceptHandler) -> list[str]:
    if h.type is None:
        return ["BaseException"]
    if isinstance(h.type, ast.Tuple):
        return [_dn(e) for e in h.type.elts]
    return [_dn(h.type)]


def explicit_raises(ctx: Ctx, fi: FuncInfo) -> list[RaiseSite]:
    hier = _hier(ctx)
    fx = FuncExc(fi)
    out: list[RaiseSite] = []
    for n in walk_no_nested(fi.node):
        if isinstance(n, ast.Raise):
            if n.exc is None:
                out.append(RaiseSite(n, "(re-raise)", "raise", reraise=True))
                continue
            name = _exc_class_name(n.exc)
            h = fx.enclosing_handler(n)
            rr = isinstance(n.exc, ast.Name) and h is not None and h.name == n.exc.id
            site = RaiseSite(n, name, "raise", reraise=rr)
            site.caught_locally = any(any(hier.catches(t, name) for t in g.types) for g in fx.guards(n))
            if name == "NotImplementedError":
                site.abstract = True
            out.append(site)
    return out


def _hier(ctx: Ctx) -> ExcHierarchy:
    h = ctx.notes.get("_hier")
    if h is None:
        h = ExcHierarchy(ctx)
        ctx.notes["_hier"] = h
    return h


@dataclass
class Origin:
    func: str
    site: str
    what: str
    via: "Origin | None" = None

    def leaf(self) -> "Origin":
        o = self
        while o.via is not None:
            o = o.via
        return o

    def chain(self) -> list[str]:
        out = []
        o: Origin | None = self
        while o is not None and len(out) < 25:
            out.append(f"{o.func} @{o.site}: {o.what}")
            o = o.via
        return out


MAX_ORIGINS = 6


def _add(d: dict[str, list[Origin]], exc: str, o: Origin) -> bool:
    """Record origin o for exc unless an origin with the same leaf is already known (or the cap is reached)."""
    cur = d.setdefault(exc, [])
    lf = o.leaf()
    key = (lf.func, lf.what)
    for x in cur:
        xl = x.leaf()
        if (xl.func, xl.what) == key:
            return False
    if len(cur) >= MAX_ORIGINS:
        return False
    cur.append(o)
    return True


class MayRaise:
    """Least fixpoint of escaping exception classes per function."""

    def __init__(self, ctx: Ctx, *, assert_ok: "callable | None" = None, infeasible: "callable | None" = None,
                 str_input: "callable | None" = None, user_callables: dict[str, set[str]] | None = None, extra_external: dict[str, set[str]] | None = None,
                 skip_modules: tuple[str, ...] = ("xsdata.codegen", "xsdata.utils.testing", "xsdata.cli")):
        self.ctx = ctx
        self.hier = _hier(ctx)
        self.res = ctx.res
        self.assert_ok = assert_ok or (lambda fi, node: False)
        self.str_input = str_input or (lambda fi, call: False)
        self.infeasible = infeasible or (lambda fi, node, exc: False)
        self.external = dict(EXTERNAL_RAISES)
        if extra_external:
            self.external.update(extra_external)
        self.skip_modules = skip_modules
        self.sets: dict[str, dict[str, list[Origin]]] = {}  # func -> exc -> origins with distinct leaves (capped)
        self.unmodelled: set[str] = set()
        self._fx: dict[str, FuncExc] = {}
        self._effects: dict[str, list] = {}

    # -- effects of one function -------------------------------------------------------
    def _function_effects(self, fi: FuncInfo) -> list[tuple[ast.AST, str, object]]:
        if fi.qual in self._effects:
            return self._effects[fi.qual]
        eff: list[tuple[ast.AST, str, object]] = []
        for n in walk_no_nested(fi.node):
            if isinstance(n, ast.Raise):
                eff.append((n, "raise", None))
            elif isinstance(n, ast.Assert):
                eff.append((n, "assert", None))
            elif isinstance(n, ast.Call):
                eff.append((n, "call", self.res.resolve_call(fi, n)))
            elif isinstance(n, ast.Attribute) and isinstance(n.ctx, ast.Load):
                props = self._property_targets(fi, n)
                if props:
                    eff.append((n, "prop", props))
        self._effects[fi.qual] = eff
        return eff

    def _property_targets(self, fi: FuncInfo, n: ast.Attribute) -> list[FuncInfo]:
        out: list[FuncInfo] = []
        for t in self.res.expr_types(fi, n.value):
            if t[0] == "inst" and t[1] in self.ctx.repo.classes:
                ci = self.ctx.repo.classes[t[1]]
                m = ci.find_method(n.attr)
                if m is not None and m.is_property:
                    out.append(m)
                    for sub in ci.all_subclasses():
                        if n.attr in sub.methods and sub.methods[n.attr].is_property:
                            out.append(sub.methods[n.attr])
        return out

    def _call_raises(self, fi: FuncInfo, call: ast.Call, r: Resolved) -> dict[str, list[Origin]]:
        out: dict[str, list[Origin]] = {}
        site = f"{fi.module.relpath}:{call.lineno}"
        for f in r.funcs:
            if f.module.name.startswith(self.skip_modules):
                continue
            if f.is_abstract and r.by_name:
                continue
            for exc, orgs in self.sets.get(f.qual, {}).items():
                for org in orgs:
                    _add(out, exc, Origin(fi.qual, site, f"call {unparse(call.func)}() -> {f.qual.split(':')[1]}", org))
        for c in r.ctors:
            for f in self.res.ctor_funcs(c):
                for exc, orgs in self.sets.get(f.qual, {}).items():
                    for org in orgs:
                        _add(out, exc, Origin(fi.qual, site, f"construct {c.name}", org))
        if (r.unresolved or not (r.funcs or r.ctors or r.externals)) and any(k.arg is None for k in call.keywords) \
                and self._is_type_valued(fi, call.func):
            # dynamic construction with **kwargs of an unknown class: wrong/missing keyword -> TypeError
            _add(out, "TypeError", Origin(fi.qual, site, f"{unparse(call.func)}(**...) of a class known only at run time"))
        for d in r.externals:
            raises = self._external_raises(fi, call, d)
            for exc in raises:
                _add(out, exc, Origin(fi.qual, site, f"external {d}({', '.join(unparse(a) for a in call.args[:2])})"))
        return out

    @staticmethod
    def _is_type_valued(fi: FuncInfo, f: ast.expr) -> bool:
        if isinstance(f, ast.Name):
            for a in fi.params:
                if a.arg == f.id and a.annotation is not None and unparse(a.annotation).startswith(("type", "Type")):
                    return True
        return False

    def _isinstance_kind(self, fi: FuncInfo, call: ast.Call, arg: ast.expr) -> str | None:
        """Kind of ``arg`` established by an isinstance test that dominates the call."""
        from .cfg import build_cfg

        g = build_cfg(fi.node)
        n = g.node_of(call)
        if n is None:
            return None
        txt = unparse(arg)
        for t in g.nodes:
            if t.kind == "test" and isinstance(t.ast, ast.Call) and unparse(t.ast.func) == "isinstance" and len(t.ast.args) == 2 \
                    and unparse(t.ast.args[0]) == txt and isinstance(t.ast.args[1], ast.Name):
                if g.only_if(n.id, t.id, True):
                    return f"builtins.{t.ast.args[1].id}"
        return None

    def _declared_dict_attr(self, fi: FuncInfo, arg: ast.expr) -> bool:
        """``arg`` is (a local copy of) an attribute of some object - ``node.ns_map`` - i.e. program state, not a value taken from the
        input document.  The model does not type attribute state (it does not report AttributeError on ``node.ns_map.copy()`` either), so
        ``dict(node.ns_map)`` is, like ``node.ns_map.copy()``, taken to copy a mapping."""
        from .q import single_defs

        e = arg
        for _ in range(3):
            if isinstance(e, ast.Name):
                d = single_defs(fi.node).get(e.id)
                if d is None:
                    break
                e = d
        return isinstance(e, ast.Attribute) and isinstance(e.ctx, ast.Load)

    def _yields_pairs(self, fi: FuncInfo, arg: ast.expr) -> bool:
        """``arg`` is an iterable of 2-tuple displays: a comprehension / generator expression of pairs, zip(a, b), or a call to a generator
        function of the repository whose every yield is a 2-tuple display."""
        def pair(e: ast.expr | None) -> bool:
            return isinstance(e, ast.Tuple) and len(e.elts) == 2 and not any(isinstance(x, ast.Starred) for x in e.elts)

        if isinstance(arg, (ast.GeneratorExp, ast.ListComp, ast.SetComp)):
            return pair(arg.elt)
        if isinstance(arg, ast.Call) and isinstance(arg.func, ast.Name) and arg.func.id == "zip" and len(arg.args) == 2 and all(k.arg == "strict" for k in arg.keywords):
            return True
        if isinstance(arg, ast.Call):
            r = self.res.resolve_call(fi, arg)
            if not r.exact or not r.funcs or r.ctors or r.externals:
                return False
            for f in r.funcs:
                ys = [y for y in walk_no_nested(f.node) if isinstance(y, (ast.Yield, ast.YieldFrom))]
                if not ys or not all(isinstance(y, ast.Yield) and pair(y.value) for y in ys):
                    return False
            return True
        return False

    def _external_raises(self, fi: FuncInfo, call: ast.Call, d: str) -> set[str]:
        key = d
        if key not in self.external:
            self.unmodelled.add(d)
            return set()
        raises = self.external[key]
        if self.str_input(_origin(self.ctx.repo, fi, call), call):
            return NARROW_BY_ARG.get((key, "builtins.str"), raises)
        if key == "builtins.next" and len(call.args) >= 2:
            return set()  # next(it, default) never raises StopIteration
        if key == "builtins.dict" and call.args and (isinstance(call.args[0], (ast.Dict, ast.DictComp)) or (
                isinstance(call.args[0], ast.Call) and isinstance(call.args[0].func, ast.Attribute) and call.args[0].func.attr in ("items", "copy"))):
            return set()  # dict(mapping.items()) / dict(mapping.copy()) / dict({...}) cannot fail on shape
        if key == "builtins.dict" and len(call.args) == 1 and self._yields_pairs(fi, call.args[0]):
            return set()  # dict(<pairs>): every item is a 2-tuple display
        if key == "builtins.dict" and len(call.args) == 1 and self._declared_dict_attr(fi, call.args[0]):
            return set()  # dict(node.ns_map): attribute state, copied like node.ns_map.copy()
        if call.args:
            k = self._isinstance_kind(fi, call, call.args[0])
            if k and (key, k) in NARROW_BY_ARG:
                return NARROW_BY_ARG[(key, k)]
            for t in self.res.expr_types(fi, call.args[0]):
                if t[0] == "extinst" and (key, t[1]) in NARROW_BY_ARG:
                    return NARROW_BY_ARG[(key, t[1])]
        elif key in ("builtins.dict", "builtins.bytes", "builtins.int", "builtins.float", "decimal.Decimal"):
            return set()
        return raises

    def _filter(self, fi: FuncInfo, node: ast.AST, raised: dict[str, list[Origin]]) -> dict[str, list[Origin]]:
        """Subtract what enclosing guards of ``node`` catch."""
        fx = self._fx.setdefault(fi.qual, FuncExc(fi))
        for g in fx.guards(node):
            if not raised:
                break
            raised = {e: o for e, o in raised.items() if not any(self.hier.catches(t, e) for t in g.types)}
        return raised

    def _caught_by_handler(self, fi: FuncInfo, h: ast.ExceptHandler) -> dict[str, list[Origin]]:
        """Exceptions that may flow into handler h (for bare re-raise)."""
        fx = self._fx.setdefault(fi.qual, FuncExc(fi))
        par, _ = fx.parents[id(h)]
        assert isinstance(par, ast.Try)
        types = _handler_types(h)
        body_raised: dict[str, list[Origin]] = {}
        for st in par.body:
            for sub in [st, *walk_no_nested(st)]:
                for e, orgs in self._node_raises(fi, sub, inner_try=par).items():
                    for o in orgs:
                        _add(body_raised, e, o)
        return {e: o for e, o in body_raised.items() if any(self.hier.catches(t, e) for t in types)}

    def _node_raises(self, fi: FuncInfo, n: ast.AST, inner_try: ast.Try | None = None) -> dict[str, list[Origin]]:
        """Raw exceptions produced at node n (before guard subtraction beyond inner_try)."""
        site = f"{fi.module.relpath}:{getattr(n, 'lineno', 0)}"
        out: dict[str, list[Origin]] = {}
        if isinstance(n, ast.Raise):
            if n.exc is None:
                fx = self._fx.setdefault(fi.qual, FuncExc(fi))
                h = fx.enclosing_handler(n)
                if h is not None:
                    for e, orgs in self._caught_by_handler(fi, h).items():
                        for o in orgs:
                            _add(out, e, o)
            else:
                name = _exc_class_name(n.exc)
                fx = self._fx.setdefault(fi.qual, FuncExc(fi))
                h = fx.enclosing_handler(n)
                if isinstance(n.exc, ast.Name) and h is not None and h.name == n.exc.id:
                    for e, orgs in self._caught_by_handler(fi, h).items():
                        for o in orgs:
                            _add(out, e, o)
                elif name == "NotImplementedError" and (fi.is_abstract or self._all_subclasses_override(fi)):
                    pass
                elif not self.infeasible(_origin(self.ctx.repo, fi, n), n, name):
                    _add(out, name, Origin(fi.qual, site, f"raise {name}"))
        elif isinstance(n, ast.Assert):
            if not self.assert_ok(_origin(self.ctx.repo, fi, n), n):
                _add(out, "AssertionError", Origin(fi.qual, site, f"assert {unparse(n.test)[:60]}"))
        elif isinstance(n, ast.Call):
            r = self.res.resolve_call(fi, n)
            for e, orgs in self._call_raises(fi, n, r).items():
                if not self.infeasible(_origin(self.ctx.repo, fi, n), n, e):
                    for o in orgs:
                        _add(out, e, o)
        elif isinstance(n, ast.Attribute) and isinstance(n.ctx, ast.Load):
            for m in self._property_targets(fi, n):
                for e, orgs in self.sets.get(m.qual, {}).items():
                    for o in orgs:
                        _add(out, e, Origin(fi.qual, site, f"property {n.attr}", o))
        return out

    def _all_subclasses_override(self, fi: FuncInfo) -> bool:
        if fi.cls is None:
            return False
        subs = fi.cls.subclasses
        return bool(subs) and all(fi.name in s.methods or any(fi.name in c.methods for c in s.mro if c is not fi.cls and c.is_subclass_of(fi.cls.qual)) for s in subs)

    # -- fixpoint ----------------------------------------------------------------------------
    def solve(self, roots: list[FuncInfo]) -> None:
        reach = list(self.res.reachable_funcs(roots, include_by_name=True))
        reach = [f for f in reach if not f.module.name.startswith(self.skip_modules)]
        self.reach = reach
        for f in reach:
            self.sets.setdefault(f.qual, {})
        changed = True
        rounds = 0
        while changed:
            changed = False
            rounds += 1
            if rounds > 60:
                raise RuntimeError("may-raise fixpoint did not converge")
            for f in reach:
                cur = self.sets[f.qual]
                new: dict[str, list[Origin]] = {}
                for n, kind, payload in self._function_effects(f):
                    raised = self._node_raises(f, n)
                    if raised:
                        raised = self._filter(f, n, raised)
                        for e, orgs in raised.items():
                            for o in orgs:
                                _add(new, e, o)
                for e, orgs in new.items():
                    for o in orgs:
                        if _add(cur, e, o):
                            changed = True
        self.rounds = rounds

    def escaping(self, fi: FuncInfo) -> dict[str, list[Origin]]:
        return self.sets.get(fi.qual, {})
