"""xsa - repository-specific static analysis for tefra/xsdata.

Everything in this package is standard library only and never imports or
executes a line of the analysed repository; it reads source files under the
repository root (default /repo, override with XSA_REPO for scratch copies).
"""

__all__ = ["model", "resolve", "cfg", "core"]
