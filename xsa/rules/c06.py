"""C06 - date, time, duration and period types (structural clauses)."""

from __future__ import annotations

import ast
import re

from ..cfg import build_cfg, calls_in, node_calls
from ..core import Ctx, property_info, rule
from ..model import AnalysisError, ClassInfo, FuncInfo, const_str, walk_no_nested
from ..q import A, stores, unparse

DT = "xsdata.models.datatype"
DATES = "xsdata.utils.dates"

property_info(
    "C06",
    explanation="Decides structural necessary conditions of exact date/time handling: every from_string validates the components its "
    "format parses before constructing; the ordering key of time/dateTime values is an exact integer; every format directive has a "
    "scanner branch and the arity of every unpacking equals what the scanner yields; the duration regex groups match their unpacking; "
    "call arguments bind components to the parameters of the same name; range tables equal the XSD / ISO 8601 tables.",
    decides="validate-before-construct on all CFG paths, numeric kind of the comparison key, directive/arity/group agreement, "
    "argument-name agreement, range-table equality with the specification",
    not_decided="that every XSD-valid lexical form parses to the right components and prints back for all values (value-level); "
    "leap-year arithmetic inside calendar.isleap / datetime",
)

DATE_DIRS = set("Ymd")
TIME_DIRS = set("HMS")


def _date_formats(ctx: Ctx) -> dict[str, str]:
    df = ctx.repo.cls(f"{DT}:DateFormat")
    out = {}
    for name, val in df.attrs.items():
        s = const_str(val)
        if s is not None:
            out[name] = s
    if len(out) < 8:
        raise AnalysisError(f"C06: expected 8 DateFormat constants, found {len(out)}")
    return out


def _directives(fmt: str) -> list[str]:
    return re.findall(r"%(.)", fmt)


def _parse_calls(fi: FuncInfo) -> list[tuple[ast.Call, str]]:
    out = []
    for c in calls_in(fi.node):
        if isinstance(c.func, ast.Name) and c.func.id == "parse_date_args" and len(c.args) == 2:
            a = c.args[1]
            if isinstance(a, ast.Attribute) and isinstance(a.value, ast.Name) and a.value.id == "DateFormat":
                out.append((c, a.attr))
            else:
                out.append((c, "?"))
    return out


@rule("C06.R1")
def validate_before_construct(ctx: Ctx) -> None:
    """Every path from a from_string / _parse_period entry to the constructor passes validate_date / validate_time as its format requires."""
    fmts = _date_formats(ctx)
    sites = []
    for cq in ("XmlDate", "XmlDateTime", "XmlTime"):
        sites.append(ctx.repo.func(f"{DT}:{cq}.from_string"))
    sites.append(ctx.repo.func(f"{DT}:XmlPeriod._parse_period"))
    for fi in sites:
        pcs = _parse_calls(fi)
        if not pcs:
            raise AnalysisError(f"C06.R1: no parse_date_args call in {fi.qual}")
        dirs: set[str] = set()
        for _, name in pcs:
            if name not in fmts:
                ctx.ob(f"{fi.qual.split(':')[1]}: format constant {name} known", False, at=fi, construct=f"format {name}", msg="format is not a DateFormat constant")
                continue
            dirs |= set(_directives(fmts[name]))
        g = build_cfg(fi.node)
        rets = [n for n in g.returns() if isinstance(n.ast.value, ast.Call)]
        for need, fn_name, comps in (("date", "validate_date", DATE_DIRS), ("time", "validate_time", TIME_DIRS)):
            if not (dirs & comps):
                continue
            vnodes = [n for n in g.stmts() if any(isinstance(c.func, ast.Name) and c.func.id == fn_name for c in node_calls(n))]
            ok = bool(vnodes) and bool(rets) and all(g.must_pass(g.entry, r.id, [v.id for v in vnodes], normal_only=True) for r in rets)
            ctx.ob(f"{fi.qual.split(':')[1]}: {fn_name}() on every path to the constructor (format has {need} components)", ok, at=fi,
                   construct=f"{fn_name} before construct",
                   msg=f"a string that denotes no real {need} (e.g. 2021-02-30, 25:61:00) is accepted: no {fn_name}() call dominates the constructor")
            # the validated values are the parsed components (argument-name agreement is R6)
            for v in vnodes:
                for c in node_calls(v):
                    if isinstance(c.func, ast.Name) and c.func.id == fn_name:
                        ctx.ob(f"{fi.qual.split(':')[1]}: {fn_name} receives {len(c.args)} components", len(c.args) == (3 if need == "date" else 4), at=fi, node=c,
                               msg="wrong number of components validated")


# ---------------------------------------------------------------------------- numeric kind


def _const_kind(ctx: Ctx, mod, name: str) -> str:
    v = mod.globals.get(name)
    if isinstance(v, ast.Constant):
        if isinstance(v.value, bool):
            return "int"
        if isinstance(v.value, int):
            return "int"
        if isinstance(v.value, float):
            return "float"
    if isinstance(v, ast.UnaryOp) and isinstance(v.operand, ast.Constant):
        return "int" if isinstance(v.operand.value, int) else "float"
    if isinstance(v, ast.BinOp):
        return _kind(ctx, None, v, mod, {})
    return "unknown"


def _kind(ctx: Ctx, fi: FuncInfo | None, e: ast.expr, mod, env: dict[str, str], depth: int = 0) -> str:
    """Three-point lattice int < float < unknown for arithmetic expressions."""
    if depth > 12:
        return "unknown"
    if isinstance(e, ast.Constant):
        if isinstance(e.value, (bool, int)):
            return "int"
        if isinstance(e.value, float):
            return "float"
        return "unknown"
    if isinstance(e, ast.UnaryOp) and isinstance(e.op, (ast.USub, ast.UAdd)):
        return _kind(ctx, fi, e.operand, mod, env, depth + 1)
    if isinstance(e, ast.BinOp):
        if isinstance(e.op, ast.Div):
            return "float"
        if isinstance(e.op, (ast.Add, ast.Sub, ast.Mult, ast.FloorDiv, ast.Mod, ast.Pow, ast.LShift, ast.RShift)):
            l, r = _kind(ctx, fi, e.left, mod, env, depth + 1), _kind(ctx, fi, e.right, mod, env, depth + 1)
            if isinstance(e.op, ast.Pow) and isinstance(e.right, ast.UnaryOp):
                return "float"
            return _join(l, r)
        return "unknown"
    if isinstance(e, ast.BoolOp):
        k = "int"
        for v in e.values:
            k = _join(k, _kind(ctx, fi, v, mod, env, depth + 1))
        return k
    if isinstance(e, ast.IfExp):
        return _join(_kind(ctx, fi, e.body, mod, env, depth + 1), _kind(ctx, fi, e.orelse, mod, env, depth + 1))
    if isinstance(e, ast.Tuple):
        k = "int"
        for v in e.elts:
            k = _join(k, _kind(ctx, fi, v, mod, env, depth + 1))
        return k
    if isinstance(e, ast.Name):
        if e.id in env:
            return env[e.id]
        if e.id in mod.globals:
            return _const_kind(ctx, mod, e.id)
        return "unknown"
    if isinstance(e, ast.Attribute) and isinstance(e.value, ast.Name) and e.value.id in ("self", "a", "b", "other", "obj") and fi is not None:
        owners = [fi.cls] if fi.cls is not None and e.value.id == "self" else [ctx.repo.cls(f"{DT}:XmlTime"), ctx.repo.cls(f"{DT}:XmlDateTime")]
        k = "int"
        for ci in owners:
            if ci is None:
                return "unknown"
            ann = ci.find_ann(e.attr)
            if ann is not None:
                t = unparse(ann[1]).replace(" ", "")
                k = _join(k, "int" if t in ("int", "int|None", "Optional[int]") else ("float" if "float" in t else "unknown"))
                continue
            m = ci.find_method(e.attr)
            if m is not None and m.is_property:
                k = _join(k, _return_kind(ctx, m, depth + 1))
                continue
            return "unknown"
        return k
    if isinstance(e, ast.Call):
        f = e.func
        if isinstance(f, ast.Name) and f.id in ("int", "len", "ord", "round") and (f.id != "round" or len(e.args) == 1):
            return "int"
        if isinstance(f, ast.Name) and f.id in ("float",):
            return "float"
        if isinstance(f, ast.Name) and f.id in ("abs", "min", "max", "sum") and e.args:
            k = "int"
            for a in e.args:
                k = _join(k, _kind(ctx, fi, a, mod, env, depth + 1))
            return k
        if fi is not None:
            r = ctx.res.resolve_call(fi, e)
            if r.funcs and r.exact:
                k = "int"
                for callee in r.funcs:
                    k = _join(k, _return_kind(ctx, callee, depth + 1))
                return k
        return "unknown"
    return "unknown"


def _join(a: str, b: str) -> str:
    order = {"int": 0, "float": 1, "unknown": 2}
    return a if order[a] >= order[b] else b


def _return_kind(ctx: Ctx, fi: FuncInfo, depth: int = 0) -> str:
    env: dict[str, str] = {}
    for a in fi.params:
        if a.annotation is not None:
            t = unparse(a.annotation).replace(" ", "")
            env[a.arg] = "int" if t in ("int", "int|None", "bool") else ("float" if t == "float" else "unknown")
    # straight-line local assignments (flow-insensitive join)
    for _ in range(2):
        for st, tgt, val in stores(fi.node):
            if isinstance(tgt, ast.Name) and val is not None:
                if isinstance(st, ast.AugAssign):
                    k = _join(env.get(tgt.id, "int"), _kind(ctx, fi, val, fi.module, env, depth + 1))
                    if isinstance(st.op, ast.Div):
                        k = "float"
                else:
                    k = _kind(ctx, fi, val, fi.module, env, depth + 1)
                    if tgt.id in env and st is not None and not isinstance(st, ast.AnnAssign):
                        k = _join(k, env[tgt.id]) if env[tgt.id] != "unknown" else k
                env[tgt.id] = k
    k = "int"
    n = 0
    for r in walk_no_nested(fi.node):
        if isinstance(r, ast.Return) and r.value is not None:
            n += 1
            k = _join(k, _kind(ctx, fi, r.value, fi.module, env, depth + 1))
    return k if n else "unknown"


_CMP_OPS = {"__eq__": ("eq", ast.Eq), "__ne__": ("ne", ast.NotEq), "__lt__": ("lt", ast.Lt), "__le__": ("le", ast.LtE), "__gt__": ("gt", ast.Gt), "__ge__": ("ge", ast.GtE)}


def _fn_env(ctx: Ctx, fi: FuncInfo) -> dict[str, str]:
    env: dict[str, str] = {}
    for a in fi.params:
        if a.annotation is not None:
            t = unparse(a.annotation).replace(" ", "")
            env[a.arg] = "int" if t in ("int", "int|None", "bool") else ("float" if t == "float" else "unknown")
    return env


@rule("C06.R2")
def exact_comparison_key(ctx: Ctx) -> None:
    """Every rich comparison of XmlDateTime / XmlTime applies the matching operator to keys of abstract kind int (no float constant, no true division)."""
    from ..q import expand

    n = 0
    for cq in ("XmlDateTime", "XmlTime"):
        ci = ctx.repo.cls(f"{DT}:{cq}")
        for name, (opname, opcls) in _CMP_OPS.items():
            m = ci.find_method(name)
            if m is None:
                ctx.ob(f"{cq}.{name} is defined", False, at=ctx.repo.func(f"{DT}:_timeline"), construct=f"{cq}.{name}", msg="comparison falls back to identity / dataclass field order")
                continue
            # comparison applications in the (helper-inlined) method: operator.<op>(x, y) through any alias, or x <op> y
            apps: list[tuple[str, list[ast.expr]]] = []
            for c in calls_in(m.node):
                f = unparse(expand(m.node, c.func))
                if f.startswith("operator.") and len(c.args) == 2:
                    apps.append((f.split(".", 1)[1], list(c.args)))
            for node in walk_no_nested(m.node):
                if isinstance(node, ast.Compare) and len(node.ops) == 1 and type(node.ops[0]) in {o for _, o in _CMP_OPS.values()} and not isinstance(node.comparators[0], ast.Constant) \
                        and not isinstance(node.left, ast.Constant) and not isinstance(node.ops[0], (ast.Eq, ast.NotEq)):
                    apps.append((next(k for k, o in _CMP_OPS.values() if isinstance(node.ops[0], o)), [node.left, node.comparators[0]]))
            ctx.ob(f"{cq}.{name} applies operator.{opname} (and no other ordering operator)", bool(apps) and {a for a, _ in apps} == {opname}, at=m, construct=f"{cq}.{name}",
                   msg=f"comparison applies {sorted({a for a, _ in apps})}: it does not use the matching operator on the timeline key")
            for _, operands in apps:
                for a in operands:
                    n += 1
                    e = expand(m.node, a)
                    k = _kind(ctx, m, e, m.module, _fn_env(ctx, m))
                    ctx.ob(f"{cq}.{name}: operand {unparse(e)} is an exact integer key", k == "int", at=m, node=a, construct=f"{cq}.{name} operand {unparse(e)}",
                           msg=f"abstract kind is {k}: a float key built from average month/year lengths cannot order instants exactly "
                               "(2000-12-31T12:00 > 2001-01-01T00:00 evaluates True; values 1 ns apart compare equal)")
    if n == 0:
        raise AnalysisError("C06.R2: no comparison application found in the rich comparison methods")


@rule("C06.R3")
def directive_coverage(ctx: Ctx) -> None:
    """Every %x directive of a DateFormat constant has a scanner branch in DateTimeParser.parse_var; its else raises."""
    fmts = _date_formats(ctx)
    handled, yields, else_raises = _scanner_table(ctx)
    used = sorted({d for f in fmts.values() for d in _directives(f)})
    for d in used:
        ctx.ob(f"directive %{d} handled by the scanner", d in handled, at=ctx.repo.func(f"{DATES}:DateTimeParser.parse_var"), construct=f"directive {d}",
               msg=f"%{d} occurs in a DateFormat constant but parse_var has no branch for it")
    ctx.ob("parse_var: unknown directive raises", else_raises, at=ctx.repo.func(f"{DATES}:DateTimeParser.parse_var"), construct="else raises",
           msg="unknown directive silently ignored")
    # literal characters of the format are matched exactly by skip()
    p = ctx.repo.func(f"{DATES}:DateTimeParser.parse")
    src = unparse(p.node)
    ctx.ob("parse: trailing input is rejected (vidx must reach vlen)", "self.vidx != self.vlen" in src and "raise ValueError" in src, at=p, construct="trailing input",
           msg="trailing garbage after a complete match would be accepted")
    sk = ctx.repo.func(f"{DATES}:DateTimeParser.skip")
    g = build_cfg(sk.node)
    adv = [g.node_of(st) for st, tgt, _ in stores(sk.node) if unparse(tgt) == "self.vidx"]
    tests = [t for t in g.nodes if t.kind == "test" and "self.peek() != char" in unparse(t.ast)]
    ok = bool(adv) and bool(tests) and all(a is not None and g.only_if(a.id, t.id, False) for a in adv for t in tests)
    ctx.ob("skip: advances only over the expected literal", ok, at=sk, construct="literal match", msg="a wrong separator would be accepted")


def _scanner_table(ctx: Ctx) -> tuple[set[str], dict[str, int], bool]:
    pv = ctx.repo.func(f"{DATES}:DateTimeParser.parse_var")
    handled: set[str] = set()
    yields: dict[str, int] = {}
    else_raises = False
    top = [n for n in pv.node.body if isinstance(n, ast.If)]
    if not top:
        raise AnalysisError("C06: DateTimeParser.parse_var has no if-chain")
    chain = top[0]
    while True:
        t = chain.test
        keys: list[str] = []
        if isinstance(t, ast.Compare) and len(t.ops) == 1:
            if isinstance(t.ops[0], ast.Eq) and const_str(t.comparators[0]) is not None:
                keys = [const_str(t.comparators[0])]
            elif isinstance(t.ops[0], ast.In):
                c = t.comparators[0]
                if isinstance(c, ast.Name) and c.id in pv.module.globals:
                    c = pv.module.globals[c.id]
                if isinstance(c, (ast.Tuple, ast.List, ast.Set)):
                    keys = [const_str(e) for e in c.elts if const_str(e) is not None]
        ny = sum(1 for st in chain.body for n in [st, *walk_no_nested(st)] if isinstance(n, ast.Yield))
        for k in keys:
            handled.add(k)
            yields[k] = ny
        if len(chain.orelse) == 1 and isinstance(chain.orelse[0], ast.If):
            chain = chain.orelse[0]
            continue
        else_raises = any(isinstance(s, ast.Raise) for s in chain.orelse)
        break
    return handled, yields, else_raises


@rule("C06.R4")
def arity_agreement(ctx: Ctx) -> None:
    """For each parse_date_args(s, DateFormat.X) the number of unpack targets equals what the scanner yields for X."""
    fmts = _date_formats(ctx)
    handled, yields, _ = _scanner_table(ctx)
    n = 0
    for fi in ctx.repo.funcs_in(DT, "xsdata.formats.converter"):
        for c, name in _parse_calls(fi):
            n += 1
            if name not in fmts:
                ctx.ob(f"{fi.qual.split(':')[1]}: format {name} is a DateFormat constant", False, at=fi, node=c, msg="unknown format constant")
                continue
            expected = sum(yields.get(d, 0) for d in _directives(fmts[name]))
            # find the unpacking assignment of this call
            targets = None
            for st, tgt, val in stores(fi.node):
                pass
            for st in walk_no_nested(fi.node):
                if isinstance(st, ast.Assign) and st.value is c and isinstance(st.targets[0], (ast.Tuple, ast.List)):
                    targets = len(st.targets[0].elts)
            ctx.ob(f"{fi.qual.split(':')[1]}: DateFormat.{name} yields {expected} values = unpack arity", targets == expected, at=fi, node=c,
                   construct=f"unpack {name}", msg=f"format yields {expected} values but {targets} targets are unpacked (ValueError for every input)")
    ctx.floor("parse_date_args call sites", n, 8)


@rule("C06.R5")
def duration_regex_groups(ctx: Ctx) -> None:
    """Capture groups of xml_duration_re = arity of the unpacking in _parse_interval; sign group first; anchored."""
    import re._parser as sre  # type: ignore

    mod = ctx.repo.module(DT)
    v = mod.globals.get("xml_duration_re")
    if not (isinstance(v, ast.Call) and v.args):
        raise AnalysisError("C06.R5: xml_duration_re not a re.compile(...) call")
    pat_node = v.args[0]
    try:
        pattern = ast.literal_eval(pat_node)
    except Exception as exc:  # noqa: BLE001
        raise AnalysisError(f"C06.R5: pattern not a literal: {exc}") from exc
    parsed = sre.parse(pattern)
    groups = parsed.state.groups - 1
    fi = ctx.repo.func(f"{DT}:XmlDuration._parse_interval")
    targets = None
    for st in walk_no_nested(fi.node):
        if isinstance(st, ast.Assign) and isinstance(st.targets[0], ast.Tuple) and "groups()" in unparse(st.value):
            targets = [unparse(t) for t in st.targets[0].elts]
    ctx.ob(f"xml_duration_re has {groups} groups = unpack arity", targets is not None and len(targets) == groups, at=fi, construct="groups arity",
           msg=f"regex has {groups} groups, unpacking has {len(targets) if targets else None} targets")
    ctx.ob("first group is the sign", bool(targets) and targets[0] == "sign" and pattern.startswith("^([-]?)P"), at=fi, construct="sign group first",
           msg="sign group is not the first group")
    ctx.ob("regex is anchored at both ends", pattern.startswith("^") and pattern.endswith("$"), at=fi, construct="anchors", msg="unanchored duration regex")
    # the designator order of the regex is the order of the targets
    order = re.findall(r"\)([YMDHS])\)\?", pattern.replace("(?:T", ""))
    want = ["years", "months", "days", "hours", "minutes", "seconds"]
    ctx.ob("designators Y M D H M S bind years..seconds in this order", order == ["Y", "M", "D", "H", "M", "S"] and bool(targets) and targets[1:7] == want, at=fi,
           construct="designator order", msg=f"designator order {order} vs targets {targets}")
    # each component converted with the matching constructor keyword
    ret = [r for r in walk_no_nested(fi.node) if isinstance(r, ast.Return) and isinstance(r.value, ast.Call)]
    ok = bool(ret)
    for r in ret:
        for k in r.value.keywords:
            if k.arg in want:
                txt = unparse(k.value)
                ok = ok and (f"({k.arg})" in txt and f"if {k.arg} else None" in txt)
    ctx.ob("TimeInterval fields are built from the group of the same name", ok, at=fi, construct="field/group agreement", msg="a component is taken from another group")


# functions whose positional parameters are named after calendar components
@rule("C06.R6")
def argument_name_agreement(ctx: Ctx) -> None:
    """A component passed positionally binds to the parameter of the same name (year->year, month->month, ...)."""
    alias = {"franctional_second": "fractional_second"}
    comp = {"year", "month", "day", "hour", "minute", "second", "fractional_second", "offset", "microsecond"}
    n = 0
    for fi in list(ctx.repo.funcs_in(DT)) + list(ctx.repo.funcs_in(DATES)):
        for c in calls_in(fi.node):
            params: list[str] | None = None
            f = c.func
            if isinstance(f, ast.Name) and f.id in ("cls",) and fi.cls is not None:
                params = [k for k in fi.cls.ann]
            elif isinstance(f, ast.Call) and unparse(f) == "type(self)" and fi.cls is not None:
                params = [k for k in fi.cls.ann]
            elif isinstance(f, ast.Name):
                r = ctx.repo.resolve_name(fi.module, f.id)
                if r in ctx.repo.functions:
                    params = [alias.get(a.arg, a.arg) for a in ctx.repo.functions[r].pos_params]
                elif r in ctx.repo.classes:
                    params = list(ctx.repo.classes[r].ann)
            elif isinstance(f, ast.Attribute) and unparse(f) in ("datetime.date", "datetime.datetime", "datetime.time"):
                params = {"datetime.date": ["year", "month", "day"],
                          "datetime.datetime": ["year", "month", "day", "hour", "minute", "second", "microsecond", "tzinfo"],
                          "datetime.time": ["hour", "minute", "second", "microsecond", "tzinfo"]}[unparse(f)]
            if not params or not (set(params) & comp):
                continue
            for i, a in enumerate(c.args):
                name = None
                if isinstance(a, ast.Name):
                    name = a.id
                elif isinstance(a, ast.Attribute) and isinstance(a.value, ast.Name) and a.value.id in ("self", "obj"):
                    name = a.attr
                if name in comp and i < len(params):
                    n += 1
                    ctx.ob(f"{fi.qual.split(':')[1]}: {unparse(f)}(... {name} ...) binds {name} to parameter {params[i]}", params[i] == name, at=fi, node=c,
                           construct=f"{unparse(f)} arg{i}={name}", msg=f"component {name} is passed in the position of {params[i]}")
    ctx.floor("component arguments", n, 60)


SPEC_RANGES = {
    "month": (1, 12), "hour": (0, 24), "minute": (0, 59), "second": (0, 59), "franctional_second": (0, 999999999), "fractional_second": (0, 999999999),
}


@rule("C06.R7")
def range_tables(ctx: Ctx) -> None:
    """validate_date / validate_time bounds and the month-length table equal the calendar / XSD tables."""
    mod = ctx.repo.module(DATES)
    md = mod.globals.get("mdays")
    vals = [e.value for e in md.elts] if isinstance(md, ast.List) else None
    ctx.ob("mdays = [0,31,28,31,30,31,30,31,31,30,31,30,31]", vals == [0, 31, 28, 31, 30, 31, 30, 31, 31, 30, 31, 30, 31], at=mod, node=md, construct="mdays", msg=f"month table is {vals}")
    ml = ctx.repo.func(f"{DATES}:monthlen")
    rets = [r for r in walk_no_nested(ml.node) if isinstance(r, ast.Return)]
    ok = False
    if len(rets) == 1 and isinstance(rets[0].value, ast.BinOp) and isinstance(rets[0].value.op, ast.Add):
        parts = [rets[0].value.left, rets[0].value.right]
        sub = [x for x in parts if isinstance(x, ast.Subscript) and unparse(x.value) == "mdays"]
        rest = [x for x in parts if x not in sub]
        if len(sub) == 1 and len(rest) == 1:
            cmp2 = [c for c in ast.walk(rest[0]) if isinstance(c, ast.Compare) and isinstance(c.ops[0], ast.Eq)
                    and any(isinstance(k, ast.Constant) and k.value == 2 for k in [c.left, *c.comparators])]
            leap = [c for c in ast.walk(rest[0]) if isinstance(c, ast.Call) and unparse(c.func).endswith("isleap")]
            ok = bool(cmp2) and bool(leap) and isinstance(rest[0], ast.BoolOp) and isinstance(rest[0].op, ast.And)
    ctx.ob("monthlen adds the leap day to February only", ok, at=ml, construct="leap rule", msg="leap-day rule changed")
    found = 0
    for fn in ("validate_date", "validate_time"):
        fi = ctx.repo.func(f"{DATES}:{fn}")
        g = build_cfg(fi.node)
        for t in g.nodes:
            if t.kind != "test" or not isinstance(t.ast, ast.Compare) or len(t.ast.ops) != 2:
                continue
            c = t.ast
            if not (isinstance(c.ops[0], ast.LtE) and isinstance(c.ops[1], ast.LtE) and isinstance(c.comparators[0], ast.Name)):
                continue
            var = c.comparators[0].id
            lo = c.left.value if isinstance(c.left, ast.Constant) else None
            hi_node = c.comparators[1]
            hi = hi_node.value if isinstance(hi_node, ast.Constant) else unparse(hi_node)
            found += 1
            if var == "day":
                ok = lo == 1 and hi == "max_days"
                # and the failing side raises
            else:
                ok = SPEC_RANGES.get(var) == (lo, hi)
            raises = [m for m, lab in g.succ[t.id] if lab == "false" and isinstance(g.nodes[m].ast, ast.Raise)]
            ctx.ob(f"{fn}: {lo} <= {var} <= {hi} matches the specification and its failure raises", ok and bool(raises), at=fi, node=c,
                   construct=f"range {var}", msg=f"range for {var} is {lo}..{hi}, specification says {SPEC_RANGES.get(var, (1, 'monthlen'))}")
        if fn == "validate_date":
            ctx.ob("validate_date: max_days = monthlen(year, month)", any(unparse(v).replace(" ", "") == "monthlen(year,month)" for _, t2, v in stores(fi.node) if v is not None and unparse(t2) == "max_days"),
                   at=fi, construct="max_days", msg="day upper bound not taken from monthlen(year, month)")
        else:
            h24 = [t for t in g.nodes if t.kind == "test" and isinstance(t.ast, ast.Compare) and isinstance(t.ast.ops[0], ast.Eq)
                   and unparse(t.ast.left) == "hour" and isinstance(t.ast.comparators[0], ast.Constant) and t.ast.comparators[0].value == 24]
            ok = False
            if h24:
                nz = {}
                for t in g.nodes:
                    if t.kind == "test" and isinstance(t.ast, ast.Compare) and isinstance(t.ast.ops[0], ast.NotEq) and isinstance(t.ast.comparators[0], ast.Constant) \
                            and t.ast.comparators[0].value == 0 and g.only_if(t.id, h24[0].id, True):
                        tgt = [m for m, lab in g.succ[t.id] if lab == "true" and isinstance(g.nodes[m].ast, ast.Raise)]
                        if tgt:
                            nz[unparse(t.ast.left)] = True
                ok = set(nz) >= {"minute", "second"} and any("second" in k and k != "second" for k in nz)
            ctx.ob("validate_time: 24:00:00 only with zero minute/second/fraction", ok, at=fi, construct="24:00 rule", msg="end-of-day rule changed")
    ctx.floor("range tests", found, 6)
    # offsets: the minutes-per-hour constant agrees between the scanner and the formatter; sign handling is symmetric
    po = ctx.repo.func(f"{DATES}:DateTimeParser.parse_offset")
    fo = ctx.repo.func(f"{DATES}:format_offset")
    mul = [b for b in ast.walk(po.node) if isinstance(b, ast.BinOp) and isinstance(b.op, ast.Mult) and any(
        isinstance(x, ast.Constant) and x.value == 60 for x in (b.left, b.right)) and any("parse_digits" in unparse(x) for x in (b.left, b.right))]
    dm = [c for c in calls_in(fo.node) if isinstance(c.func, ast.Name) and c.func.id == "divmod" and len(c.args) == 2
          and isinstance(c.args[1], ast.Constant) and c.args[1].value == 60]
    ctx.ob("offset: scanner multiplies hours by 60 and the formatter divides by 60", bool(mul) and bool(dm), at=po, construct="offset units 60",
           msg="hours/minutes factor differs between parse_offset and format_offset")
    sign_ifexp = [e for e in ast.walk(po.node) if isinstance(e, ast.IfExp) and "'-'" in unparse(e.test) and unparse(e.body) == "-1" and unparse(e.orelse) == "1"]
    ctx.ob("parse_offset: '-' negates the whole offset, '+' keeps it", bool(sign_ifexp), at=po, construct="offset sign parse", msg="sign handling of the scanned offset changed")
    g = build_cfg(fo.node)
    neg = [t for t in g.nodes if t.kind == "test" and unparse(t.ast).replace(" ", "") == "offset<0"]
    st_minus = [g.node_of(st) for st, tgt, v in stores(fo.node) if unparse(tgt) == "sign" and const_str(v) == "-"]
    st_plus = [g.node_of(st) for st, tgt, v in stores(fo.node) if unparse(tgt) == "sign" and const_str(v) == "+"]
    ok = bool(neg) and bool(st_minus) and bool(st_plus) and all(g.only_if(n.id, neg[0].id, True) for n in st_minus) and all(g.only_if(n.id, neg[0].id, False) for n in st_plus)
    ctx.ob("format_offset: '-' exactly for negative offsets", ok, at=fo, construct="offset sign format", msg="sign of the formatted offset changed")
    zero = [t for t in g.nodes if t.kind == "test" and unparse(t.ast).replace(" ", "") == "offset==0"]
    zret = [n for n in g.returns() if const_str(n.ast.value) == "Z"]
    ctx.ob("format_offset: 'Z' exactly for offset 0", bool(zero) and bool(zret) and all(g.only_if(n.id, zero[0].id, True) for n in zret), at=fo, construct="Z for UTC", msg="UTC designator changed")
    pz = [t for t in build_cfg(po.node).nodes if t.kind == "test" and "'Z'" in unparse(t.ast)]
    ctx.ob("parse_offset: 'Z' is read as offset 0", bool(pz) and any(isinstance(n.ast.value, ast.Constant) and n.ast.value.value == 0 and build_cfg(po.node).only_if(n.id, pz[0].id, True)
                                                                  for n in build_cfg(po.node).returns() if n.ast.value is not None), at=po, construct="Z parse", msg="Z no longer maps to offset 0")
    # conversions to/from the standard library keep the instant: fractional_second <-> microsecond factor 1000 on both sides
    for cq in ("XmlDateTime", "XmlTime"):
        ci = ctx.repo.cls(f"{DT}:{cq}")
        micro = ci.methods.get("microsecond")
        ok1 = micro is not None and "self.fractional_second // 1000" in unparse(micro.node)
        frm = ci.methods.get("from_datetime") or ci.methods.get("from_time")
        ok2 = frm is not None and "obj.microsecond * 1000" in unparse(frm.node) and "calculate_offset(obj)" in unparse(frm.node)
        to = ci.methods.get("to_datetime") or ci.methods.get("to_time")
        ok3 = to is not None and "tzinfo=calculate_timezone(self.offset)" in unparse(to.node) and "self.microsecond" in unparse(to.node)
        ctx.ob(f"{cq}: microsecond = fractional_second // 1000 and from_* multiplies by 1000; offset carried both ways", ok1 and ok2 and ok3, at=micro or frm,
               construct=f"{cq} stdlib conversion", msg="conversion to/from datetime loses the fraction or the offset")
    co = ctx.repo.func(f"{DATES}:calculate_offset")
    ct = ctx.repo.func(f"{DATES}:calculate_timezone")
    ctx.ob("calculate_offset / calculate_timezone use minutes on both sides", "total_seconds() // 60" in unparse(co.node) and "timedelta(minutes=offset)" in unparse(ct.node),
           at=co, construct="offset units", msg="offset units differ between the two conversions")


@rule("C06.R8")
def day_number_steps_in_order(ctx: Ctx) -> None:
    """_days_from_civil shifts January / February to the previous year BEFORE the 400-year era is split off; _timeline combines day number, time and offset as integers."""
    fi = ctx.repo.func(f"{DT}:_days_from_civil")
    g = build_cfg(fi.node)
    shift = [g.node_of(st) for st, tgt, v in stores(fi.node) if isinstance(st, ast.AugAssign) and unparse(tgt) == "year" and isinstance(st.op, ast.Sub)]
    mt = [t for t in g.nodes if t.kind == "test" and A(unparse(t.ast)) in (A("month <= 2"), A("month < 3"))]
    era = [g.node_of(st) for st, tgt, v in stores(fi.node) if v is not None and "year" in {n.id for n in ast.walk(v) if isinstance(n, ast.Name)} and not (isinstance(st, ast.AugAssign) and unparse(tgt) == "year")]
    ok = len(shift) == 1 and len(mt) == 1 and bool(era) and g.only_if(shift[0].id, mt[0].id, True) and all(e is not None and g.must_pass(g.entry, e.id, [mt[0].id]) for e in era)
    ctx.ob("_days_from_civil: every value derived from `year` is computed after the Jan/Feb year shift", ok, at=fi, construct="year shift first",
           msg="the era / year-of-era are split before the shift: January and February of years divisible by 400 land on the wrong day (2000-02-29 == 2000-03-01)")
    consts = {n.value for n in ast.walk(fi.node) if isinstance(n, ast.Constant) and isinstance(n.value, int)}
    ctx.ob("_days_from_civil uses the proleptic Gregorian constants (400, 146097, 365, 4, 100, 153)", {400, 146097, 365, 4, 100, 153} <= consts, at=fi, construct="calendar constants", msg=f"constants {sorted(consts)}")
    tl = ctx.repo.func(f"{DT}:_timeline")
    a = unparse(tl.node)
    ctx.ob("_timeline uses the day number only for dateTime values and scales seconds to nanoseconds", "isinstance(obj, XmlDateTime)" in a and "1000000000" in a.replace("_", "") and "obj.fractional_second" in a, at=tl,
           construct="timeline composition", msg="timeline composition changed")
    for name, want in (("DS_DAY", 86400), ("DS_HOUR", 3600), ("DS_MINUTE", 60), ("DS_OFFSET", -60)):
        v = ctx.repo.module(DT).globals.get(name)
        val = v.value if isinstance(v, ast.Constant) else (-v.operand.value if isinstance(v, ast.UnaryOp) and isinstance(v.operand, ast.Constant) else None)
        ctx.ob(f"{name} = {want}", val == want, at=ctx.repo.module(DT), node=v, construct=f"const {name}", msg=f"{name} is {val}")
