"""C06 - date, time, duration and period types (structural clauses)."""

from __future__ import annotations

import ast
import re

from ..cfg import build_cfg, calls_in, node_calls
from ..core import Ctx, property_info, rule
from ..model import AnalysisError, ClassInfo, FuncInfo, const_str, walk_no_nested
from ..q import A, leaves_at, L, expand, Dispatch, polar_forms, cmp_atom, leaf_conditions, reach_table, value_texts, call_name_of, control_deps, flow_conditions, flows, names_from_calls, node_containing, raw_forms, expand_at, str_template, stores, unparse

DT = "xsdata.models.datatype"
DATES = "xsdata.utils.dates"

property_info(
    "C06",
    explanation="Decides structural necessary conditions of exact date/time handling: every from_string validates the components its "
    "format parses before constructing; the ordering key of time/dateTime values is an exact integer; every format directive has a "
    "scanner branch and the arity of every unpacking equals what the scanner yields; the duration regex groups match their unpacking; "
    "call arguments bind components to the parameters of the same name; range tables equal the XSD / ISO 8601 tables.",
    decides="validate-before-construct on all CFG paths, numeric kind of the comparison key, directive/arity/group agreement, "
    "argument-name agreement, range-table equality with the specification",
    not_decided="that every XSD-valid lexical form parses to the right components and prints back for all values (value-level); "
    "leap-year arithmetic inside calendar.isleap / datetime",
)

DATE_DIRS = set("Ymd")
TIME_DIRS = set("HMS")


def _date_formats(ctx: Ctx) -> dict[str, str]:
    df = ctx.repo.cls(f"{DT}:DateFormat")
    out = {}
    for name, val in df.attrs.items():
        s = const_str(val)
        if s is not None:
            out[name] = s
    if len(out) < 8:
        raise AnalysisError(f"C06: expected 8 DateFormat constants, found {len(out)}")
    return out


def _directives(fmt: str) -> list[str]:
    return re.findall(r"%(.)", fmt)


def _parse_calls(fi: FuncInfo) -> list[tuple[ast.Call, str]]:
    out = []
    for c in calls_in(fi.node):
        if isinstance(c.func, ast.Name) and c.func.id == "parse_date_args" and len(c.args) == 2:
            a = c.args[1]
            if isinstance(a, ast.Attribute) and isinstance(a.value, ast.Name) and a.value.id == "DateFormat":
                out.append((c, a.attr))
                continue
            # the format reaches the call through locals / the parameter of an inlined helper / a tuple returned by a helper: one entry
            # per constant that can flow in; "?" = a value the rule cannot read (no instance), "?literal" = a text literal (not a constant)
            for leaf in leaves_at(fi, c, a) or [a]:
                if isinstance(leaf, ast.Attribute) and isinstance(leaf.value, ast.Name) and leaf.value.id == "DateFormat":
                    out.append((c, leaf.attr))
                elif isinstance(leaf, ast.Constant) and isinstance(leaf.value, str):
                    out.append((c, "?literal"))
                else:
                    out.append((c, "?"))
    return out


@rule("C06.R1")
def validate_before_construct(ctx: Ctx) -> None:
    """Every path from a from_string / _parse_period entry to the constructor passes validate_date / validate_time as its format requires."""
    fmts = _date_formats(ctx)
    sites = []
    for cq in ("XmlDate", "XmlDateTime", "XmlTime"):
        sites.append(ctx.repo.func(f"{DT}:{cq}.from_string"))
    sites.append(ctx.repo.func(f"{DT}:XmlPeriod._parse_period"))
    for fi in sites:
        pcs = _parse_calls(fi)
        if not pcs:
            raise AnalysisError(f"C06.R1: no parse_date_args call in {fi.qual}")
        dirs: set[str] = set()
        for _, name in pcs:
            if name == "?":
                ctx.abstain(f"format passed to parse_date_args in {fi.qual.split(':')[1]}", at=fi, why="the format argument is computed, not a DateFormat constant that can be followed")
                continue
            if name not in fmts:
                ctx.ob(f"{fi.qual.split(':')[1]}: format constant {name} known", False, at=fi, construct=f"format {name}", msg="format is not a DateFormat constant")
                continue
            dirs |= set(_directives(fmts[name]))
        g = build_cfg(fi.node)
        rets = [n for n in g.returns() if isinstance(n.ast.value, ast.Call)]
        for need, fn_name, comps in (("date", "validate_date", DATE_DIRS), ("time", "validate_time", TIME_DIRS)):
            if not (dirs & comps):
                continue
            vnodes = [n for n in g.stmts() if any(isinstance(c.func, ast.Name) and c.func.id == fn_name for c in node_calls(n))]
            ok = bool(vnodes) and bool(rets) and all(g.must_pass(g.entry, r.id, [v.id for v in vnodes], normal_only=True) for r in rets)
            ctx.ob(f"{fi.qual.split(':')[1]}: {fn_name}() on every path to the constructor (format has {need} components)", ok, at=fi,
                   construct=f"{fn_name} before construct",
                   msg=f"a string that denotes no real {need} (e.g. 2021-02-30, 25:61:00) is accepted: no {fn_name}() call dominates the constructor")
            # the validated values are the parsed components (argument-name agreement is R6)
            for v in vnodes:
                for c in node_calls(v):
                    if isinstance(c.func, ast.Name) and c.func.id == fn_name:
                        if any(isinstance(a, ast.Starred) for a in c.args):
                            continue  # *args: the number of components is not visible in the call
                        ctx.ob(f"{fi.qual.split(':')[1]}: {fn_name} receives {len(c.args)} components", len(c.args) == (3 if need == "date" else 4), at=fi, node=c,
                               msg="wrong number of components validated")


# ---------------------------------------------------------------------------- numeric kind


def _const_kind(ctx: Ctx, mod, name: str) -> str:
    v = mod.globals.get(name)
    if isinstance(v, ast.Constant):
        if isinstance(v.value, bool):
            return "int"
        if isinstance(v.value, int):
            return "int"
        if isinstance(v.value, float):
            return "float"
    if isinstance(v, ast.UnaryOp) and isinstance(v.operand, ast.Constant):
        return "int" if isinstance(v.operand.value, int) else "float"
    if isinstance(v, ast.BinOp):
        return _kind(ctx, None, v, mod, {})
    return "unknown"


def _kind(ctx: Ctx, fi: FuncInfo | None, e: ast.expr, mod, env: dict[str, str], depth: int = 0) -> str:
    """Three-point lattice int < float < unknown for arithmetic expressions."""
    if depth > 12:
        return "unknown"
    if isinstance(e, ast.Constant):
        if isinstance(e.value, (bool, int)):
            return "int"
        if isinstance(e.value, float):
            return "float"
        return "unknown"
    if isinstance(e, ast.UnaryOp) and isinstance(e.op, (ast.USub, ast.UAdd)):
        return _kind(ctx, fi, e.operand, mod, env, depth + 1)
    if isinstance(e, ast.BinOp):
        if isinstance(e.op, ast.Div):
            return "float"
        if isinstance(e.op, (ast.Add, ast.Sub, ast.Mult, ast.FloorDiv, ast.Mod, ast.Pow, ast.LShift, ast.RShift)):
            l, r = _kind(ctx, fi, e.left, mod, env, depth + 1), _kind(ctx, fi, e.right, mod, env, depth + 1)
            if isinstance(e.op, ast.Pow) and isinstance(e.right, ast.UnaryOp):
                return "float"
            return _join(l, r)
        return "unknown"
    if isinstance(e, ast.BoolOp):
        k = "int"
        for v in e.values:
            k = _join(k, _kind(ctx, fi, v, mod, env, depth + 1))
        return k
    if isinstance(e, ast.IfExp):
        return _join(_kind(ctx, fi, e.body, mod, env, depth + 1), _kind(ctx, fi, e.orelse, mod, env, depth + 1))
    if isinstance(e, ast.Tuple):
        k = "int"
        for v in e.elts:
            k = _join(k, _kind(ctx, fi, v, mod, env, depth + 1))
        return k
    if isinstance(e, ast.Name):
        if e.id in env:
            return env[e.id]
        if e.id in mod.globals:
            return _const_kind(ctx, mod, e.id)
        return "unknown"
    if isinstance(e, ast.Attribute) and isinstance(e.value, ast.Name) and e.value.id in ("self", "a", "b", "other", "obj") and fi is not None:
        owners = [fi.cls] if fi.cls is not None and e.value.id == "self" else [ctx.repo.cls(f"{DT}:XmlTime"), ctx.repo.cls(f"{DT}:XmlDateTime")]
        k = "int"
        for ci in owners:
            if ci is None:
                return "unknown"
            ann = ci.find_ann(e.attr)
            if ann is not None:
                t = unparse(ann[1]).replace(" ", "")
                k = _join(k, "int" if t in ("int", "int|None", "Optional[int]") else ("float" if "float" in t else "unknown"))
                continue
            m = ci.find_method(e.attr)
            if m is not None and m.is_property:
                k = _join(k, _return_kind(ctx, m, depth + 1))
                continue
            return "unknown"
        return k
    if isinstance(e, ast.Call):
        f = e.func
        if isinstance(f, ast.Name) and f.id in ("int", "len", "ord", "round") and (f.id != "round" or len(e.args) == 1):
            return "int"
        if isinstance(f, ast.Name) and f.id in ("float",):
            return "float"
        if isinstance(f, ast.Name) and f.id in ("abs", "min", "max", "sum", "divmod") and e.args:  # divmod: the kind of both members of the pair
            k = "int"
            for a in e.args:
                k = _join(k, _kind(ctx, fi, a, mod, env, depth + 1))
            return k
        if fi is not None:
            r = ctx.res.resolve_call(fi, e)
            if r.funcs and r.exact:
                k = "int"
                for callee in r.funcs:
                    k = _join(k, _return_kind(ctx, callee, depth + 1))
                return k
        return "unknown"
    return "unknown"


def _join(a: str, b: str) -> str:
    order = {"int": 0, "float": 1, "unknown": 2}
    return a if order[a] >= order[b] else b


def _return_kind(ctx: Ctx, fi: FuncInfo, depth: int = 0) -> str:
    env: dict[str, str] = {}
    for a in fi.params:
        if a.annotation is not None:
            t = unparse(a.annotation).replace(" ", "")
            env[a.arg] = "int" if t in ("int", "int|None", "bool") else ("float" if t == "float" else "unknown")
    # local assignments: least fixpoint of the flow-insensitive join (bottom = int), so chains of temporaries resolve in any order
    assigned = [(st, tgt, val) for st, tgt, val in stores(fi.node) if isinstance(tgt, ast.Name)]
    for _, tgt, val in assigned:
        if tgt.id not in env:
            env[tgt.id] = "int" if val is not None else "unknown"
    for _ in range(12):
        changed = False
        for st, tgt, val in assigned:
            if val is None:
                continue
            k = _kind(ctx, fi, val, fi.module, env, depth + 1)
            if isinstance(st, ast.AnnAssign) and unparse(st.annotation).replace(" ", "") in ("int", "bool", "int|None"):
                k = "int"  # a declared int (e.g. the bound parameter of an inlined helper) is trusted like a parameter annotation
            if isinstance(st, ast.AugAssign) and isinstance(st.op, ast.Div):
                k = "float"
            if isinstance(st, ast.Assign) and isinstance(st.targets[0], (ast.Tuple, ast.List)):
                k = k if isinstance(val, ast.Tuple) or (isinstance(val, ast.Call) and isinstance(val.func, ast.Name) and val.func.id == "divmod") else "unknown"
            new = _join(env[tgt.id], k)
            if new != env[tgt.id]:
                env[tgt.id] = new
                changed = True
        if not changed:
            break
    k = "int"
    n = 0
    for r in walk_no_nested(fi.node):
        if isinstance(r, ast.Return) and r.value is not None:
            n += 1
            k = _join(k, _kind(ctx, fi, r.value, fi.module, env, depth + 1))
    return k if n else "unknown"


_CMP_OPS = {"__eq__": ("eq", ast.Eq), "__ne__": ("ne", ast.NotEq), "__lt__": ("lt", ast.Lt), "__le__": ("le", ast.LtE), "__gt__": ("gt", ast.Gt), "__ge__": ("ge", ast.GtE)}


def _fn_env(ctx: Ctx, fi: FuncInfo) -> dict[str, str]:
    env: dict[str, str] = {}
    for a in fi.params:
        if a.annotation is not None:
            t = unparse(a.annotation).replace(" ", "")
            env[a.arg] = "int" if t in ("int", "int|None", "bool") else ("float" if t == "float" else "unknown")
    assigned = [(st, tgt, val) for st, tgt, val in stores(fi.node) if isinstance(tgt, ast.Name) and val is not None]
    for _, tgt, _v in assigned:
        env.setdefault(tgt.id, "int")
    for _ in range(12):
        changed = False
        for st, tgt, val in assigned:
            k = _kind(ctx, fi, val, fi.module, env, 1)
            if isinstance(st, ast.AnnAssign) and unparse(st.annotation).replace(" ", "") in ("int", "bool", "int|None"):
                k = "int"
            new = _join(env[tgt.id], k)
            if new != env[tgt.id]:
                env[tgt.id] = new
                changed = True
        if not changed:
            break
    return env


@rule("C06.R2")
def exact_comparison_key(ctx: Ctx) -> None:
    """Every rich comparison of XmlDateTime / XmlTime applies the matching operator to keys of abstract kind int (no float constant, no true division)."""
    from ..q import expand

    n = 0
    for cq in ("XmlDateTime", "XmlTime"):
        ci = ctx.repo.cls(f"{DT}:{cq}")
        for name, (opname, opcls) in _CMP_OPS.items():
            m = ci.find_method(name)
            if m is None:
                ctx.ob(f"{cq}.{name} is defined", False, at=ctx.repo.func(f"{DT}:_timeline"), construct=f"{cq}.{name}", msg="comparison falls back to identity / dataclass field order")
                continue
            # comparison applications in the (helper-inlined) method: operator.<op>(x, y) through any alias, or x <op> y
            apps: list[tuple[str, list[ast.expr]]] = []
            for c in calls_in(m.node):
                f = unparse(expand(m.node, c.func))
                if f.startswith("operator.") and len(c.args) == 2:
                    apps.append((f.split(".", 1)[1], list(c.args)))
            for node in walk_no_nested(m.node):
                if isinstance(node, ast.Compare) and len(node.ops) == 1 and type(node.ops[0]) in {o for _, o in _CMP_OPS.values()} and not isinstance(node.comparators[0], ast.Constant) \
                        and not isinstance(node.left, ast.Constant) and not isinstance(node.ops[0], (ast.Eq, ast.NotEq)):
                    apps.append((next(k for k, o in _CMP_OPS.values() if isinstance(node.ops[0], o)), [node.left, node.comparators[0]]))
            ctx.ob(f"{cq}.{name} applies operator.{opname} (and no other ordering operator)", bool(apps) and {a for a, _ in apps} == {opname}, at=m, construct=f"{cq}.{name}",
                   msg=f"comparison applies {sorted({a for a, _ in apps})}: it does not use the matching operator on the timeline key")
            for _, operands in apps:
                for a in operands:
                    n += 1
                    e = expand(m.node, a)
                    k = _kind(ctx, m, e, m.module, _fn_env(ctx, m))
                    ctx.ob(f"{cq}.{name}: operand {unparse(e)} is an exact integer key", k == "int", at=m, node=a, construct=f"{cq}.{name} operand {unparse(e)}",
                           msg=f"abstract kind is {k}: a float key built from average month/year lengths cannot order instants exactly "
                               "(2000-12-31T12:00 > 2001-01-01T00:00 evaluates True; values 1 ns apart compare equal)")
    if n == 0:
        raise AnalysisError("C06.R2: no comparison application found in the rich comparison methods")


@rule("C06.R3")
def directive_coverage(ctx: Ctx) -> None:
    """Every %x directive of a DateFormat constant has a scanner branch in DateTimeParser.parse_var; its else raises."""
    fmts = _date_formats(ctx)
    handled, yields, else_raises = _scanner_table(ctx)
    used = sorted({d for f in fmts.values() for d in _directives(f)})
    if not handled:
        ctx.abstain("directive branches of DateTimeParser.parse_var", at=ctx.repo.func(f"{DATES}:DateTimeParser.parse_var"),
                    why="parse_var does not branch on the directive letter (a table / getattr dispatch): the per-letter behaviour cannot be read from its control flow")
        used = []
    for d in used:
        ctx.ob(f"directive %{d} handled by the scanner", d in handled, at=ctx.repo.func(f"{DATES}:DateTimeParser.parse_var"), construct=f"directive {d}",
               msg=f"%{d} occurs in a DateFormat constant but parse_var has no branch for it")
    if handled:
        ctx.ob("parse_var: unknown directive raises", else_raises, at=ctx.repo.func(f"{DATES}:DateTimeParser.parse_var"), construct="else raises",
               msg="unknown directive silently ignored")
    # literal characters of the format are matched exactly by skip()
    p = ctx.repo.func(f"{DATES}:DateTimeParser.parse")
    gp = build_cfg(p.node)
    raises_ = [n for n in gp.stmts() if isinstance(n.ast, ast.Raise) and n.ast.exc is not None and "ValueError" in unparse(n.ast.exc)]
    tabs = [reach_table(p, n, [cmp_atom("self.vidx", "!=", "self.vlen")], raw=True) for n in raises_]
    if any(tb is None for tb in tabs):
        ctx.abstain("end-of-input test of DateTimeParser.parse", at=p)
    else:
        ctx.ob("parse: trailing input is rejected (vidx must reach vlen)", any(tb == {(True,): True, (False,): False} for tb in tabs), at=p, construct="trailing input",
               msg="trailing garbage after a complete match would be accepted")
    sk = ctx.repo.func(f"{DATES}:DateTimeParser.skip")
    g = build_cfg(sk.node)
    adv = [g.node_of(st) for st, tgt, _ in stores(sk.node) if unparse(tgt) == "self.vidx"]
    lit = [a.arg for a in sk.params if a.arg not in ("self", "cls")][:1]
    CURRENT = {"self.peek()", "self.value[self.vidx]"}
    tests = [t for t in g.nodes if t.kind == "test" and isinstance(t.ast, ast.Compare) and len(t.ast.ops) == 1 and isinstance(t.ast.ops[0], (ast.Eq, ast.NotEq))
             and any(unparse(x) in lit for x in (t.ast.left, t.ast.comparators[0])) and any(CURRENT & value_texts(sk, t, x) for x in (t.ast.left, t.ast.comparators[0]))]
    ok = bool(adv) and bool(tests) and all(a is not None and g.only_if(a.id, t.id, isinstance(t.ast.ops[0], ast.Eq)) for a in adv for t in tests)
    ctx.ob("skip: advances only over the expected literal", ok, at=sk, construct="literal match", msg="a wrong separator would be accepted")


def _scanner_table(ctx: Ctx) -> tuple[set[str], dict[str, int], bool]:
    """DateTimeParser.parse_var partially evaluated per directive letter: handled letters, yields per letter, default raises."""
    pv = ctx.repo.func(f"{DATES}:DateTimeParser.parse_var")
    params = [a.arg for a in pv.pos_params if a.arg != "self"]
    if not params:
        raise AnalysisError("C06: DateTimeParser.parse_var has no directive parameter")
    subj = params[0]

    def classify(t: ast.AST):
        # `var in SIMPLE_TWO_DIGITS_FORMATS`: the module constant is looked through
        if isinstance(t, ast.Compare) and len(t.ops) == 1 and isinstance(t.ops[0], (ast.In, ast.NotIn)) and isinstance(t.left, ast.Name) and t.left.id == subj:
            c = t.comparators[0]
            if isinstance(c, ast.Name) and c.id in pv.module.globals:
                c = pv.module.globals[c.id]
            if isinstance(c, (ast.Tuple, ast.List, ast.Set)) and all(const_str(e) is not None for e in c.elts):
                return frozenset(repr(const_str(e)) for e in c.elts), isinstance(t.ops[0], ast.In)
            if isinstance(c, ast.Constant) and isinstance(c.value, str):
                return frozenset(repr(ch) for ch in c.value), isinstance(t.ops[0], ast.In)
        from ..q import key_test

        return key_test(t, lambda e: isinstance(e, ast.Name) and e.id == subj)

    d = Dispatch(pv.node, classify=classify)
    handled: set[str] = set()
    yields: dict[str, int] = {}
    for key in sorted(d.keys):
        try:
            letter = ast.literal_eval(key)
        except Exception:  # noqa: BLE001
            continue
        nodes = d.under(key)
        ny = sum(1 for n in nodes if n.kind == "stmt" and n.ast is not None for x in [n.ast, *walk_no_nested(n.ast)] if isinstance(x, ast.Yield))
        raises = any(n.kind == "stmt" and isinstance(n.ast, ast.Raise) for n in nodes)
        if ny and not raises:
            handled.add(letter)
            yields[letter] = ny
    default = d.under(None)
    else_raises = any(n.kind == "stmt" and isinstance(n.ast, ast.Raise) for n in default) and not any(
        isinstance(x, ast.Yield) for n in default if n.kind == "stmt" and n.ast is not None for x in [n.ast, *walk_no_nested(n.ast)])
    return handled, yields, else_raises


@rule("C06.R4")
def arity_agreement(ctx: Ctx) -> None:
    """For each parse_date_args(s, DateFormat.X) the number of unpack targets equals what the scanner yields for X."""
    fmts = _date_formats(ctx)
    handled, yields, _ = _scanner_table(ctx)
    n = 0
    for fi in ctx.repo.funcs_in(DT, "xsdata.formats.converter"):
        for c, name in _parse_calls(fi):
            n += 1
            if name == "?":
                ctx.abstain(f"format passed to parse_date_args in {fi.qual.split(':')[1]}", at=fi, why="the format argument is computed, not a DateFormat constant that can be followed")
                continue
            if name not in fmts:
                ctx.ob(f"{fi.qual.split(':')[1]}: format {name} is a DateFormat constant", False, at=fi, node=c, msg="unknown format constant")
                continue
            if not handled:
                ctx.abstain(f"unpack arity of DateFormat.{name} in {fi.qual.split(':')[1]}", at=fi, why="the scanner's yields per directive cannot be read (no branch per letter)")
                continue
            expected = sum(yields.get(d, 0) for d in _directives(fmts[name]))
            # find the unpacking assignment of this call
            targets = None
            for st, tgt, val in stores(fi.node):
                pass
            starred = False
            for st in walk_no_nested(fi.node):
                if isinstance(st, ast.Assign) and st.value is c and isinstance(st.targets[0], (ast.Tuple, ast.List)):
                    targets = len(st.targets[0].elts)
                    starred = any(isinstance(e, ast.Starred) for e in st.targets[0].elts)
            if targets is None or starred:
                # the result is not unpacked into a fixed number of targets here (indexed, starred, passed on): the arity clause has no instance
                ctx.ob(f"{fi.qual.split(':')[1]}: DateFormat.{name}: result is not unpacked into a fixed tuple (no arity to compare)", True, at=fi, node=c, construct=f"unpack {name}")
                continue
            ctx.ob(f"{fi.qual.split(':')[1]}: DateFormat.{name} yields {expected} values = unpack arity", targets == expected, at=fi, node=c,
                   construct=f"unpack {name}", msg=f"format yields {expected} values but {targets} targets are unpacked (ValueError for every input)")
    ctx.floor("parse_date_args call sites", n, 8)


@rule("C06.R5")
def duration_regex_groups(ctx: Ctx) -> None:
    """Capture groups of xml_duration_re = arity of the unpacking in _parse_interval; sign group first; anchored."""
    import re._parser as sre  # type: ignore

    mod = ctx.repo.module(DT)
    v = mod.globals.get("xml_duration_re")
    if not (isinstance(v, ast.Call) and v.args):
        raise AnalysisError("C06.R5: xml_duration_re not a re.compile(...) call")
    pat_node = v.args[0]
    try:
        pattern = ast.literal_eval(pat_node)
    except Exception as exc:  # noqa: BLE001
        raise AnalysisError(f"C06.R5: pattern not a literal: {exc}") from exc
    parsed = sre.parse(pattern)
    groups = parsed.state.groups - 1
    fi = ctx.repo.func(f"{DT}:XmlDuration._parse_interval")
    targets = None
    for st in walk_no_nested(fi.node):
        if isinstance(st, ast.Assign) and isinstance(st.targets[0], ast.Tuple) and "groups()" in unparse(st.value) and not any(isinstance(e, ast.Starred) for e in st.targets[0].elts):
            targets = [unparse(t) for t in st.targets[0].elts]
    if targets is not None:
        ctx.ob(f"xml_duration_re has {groups} groups = unpack arity", len(targets) == groups, at=fi, construct="groups arity",
               msg=f"regex has {groups} groups, unpacking has {len(targets)} targets")
    else:
        idx = [x.slice.value for x in walk_no_nested(fi.node) if isinstance(x, ast.Subscript) and isinstance(x.slice, ast.Constant) and isinstance(x.slice.value, int)]
        ctx.ob(f"xml_duration_re has {groups} groups: every constant group index used is in range", all(-groups <= i < groups for i in idx), at=fi, construct="groups arity",
               msg=f"regex has {groups} groups, indexes used {sorted(idx)}")
    g = build_cfg(fi.node)
    ret = [(node_containing(g, c), c) for c in calls_in(fi.node) if call_name_of(c) == "TimeInterval"]

    def group_indexes(where, e: ast.expr) -> set[int]:
        """Indexes i such that the value can be (built from) match.groups()[i]."""
        out: set[int] = set()
        for leaf, chain in flows(fi, where, e) if where is not None else []:
            for x in ast.walk(leaf):
                if isinstance(x, ast.Subscript) and isinstance(x.slice, ast.Constant) and isinstance(x.slice.value, int):
                    base = expand_at(fi, chain[-1] if chain else where, x.value)
                    if isinstance(base, ast.Call) and call_name_of(base) == "groups":
                        out.add(x.slice.value)
                elif isinstance(x, ast.Name):
                    for l2, c2 in flows(fi, chain[-1] if chain else where, x):
                        if isinstance(l2, ast.Subscript) and isinstance(l2.slice, ast.Constant) and isinstance(l2.slice.value, int) and isinstance(l2.value, ast.Call) and call_name_of(l2.value) == "groups":
                            out.add(l2.slice.value)
        return out

    kw = {k.arg: (n, k.value) for n, c in ret for k in c.keywords if k.arg}
    sign_idx = group_indexes(*kw["negative"]) if "negative" in kw else set()
    ctx.ob("first group is the sign", pattern.startswith("^([-]?)P") and sign_idx <= {0}, at=fi, construct="sign group first",
           msg=f"`negative` is computed from group(s) {sorted(sign_idx)}, the sign is group 0")
    ctx.ob("regex is anchored at both ends", pattern.startswith("^") and pattern.endswith("$"), at=fi, construct="anchors", msg="unanchored duration regex")
    # the designator order of the regex is the order of the groups, and each TimeInterval field is built from the group at its designator's position
    order = re.findall(r"\)([YMDHS])\)\?", pattern.replace("(?:T", ""))
    want = ["years", "months", "days", "hours", "minutes", "seconds"]
    got = {w: group_indexes(*kw[w]) for w in want if w in kw}
    ok = order == ["Y", "M", "D", "H", "M", "S"] and all(not got.get(w) or got[w] == {i + 1} for i, w in enumerate(want))
    ctx.ob("designators Y M D H M S bind years..seconds in this order: each TimeInterval field is built from the group of its designator (where the group is identifiable)", ok, at=fi,
           construct="designator order", msg=f"designator order {order}; fields built from groups {got}")


# functions whose positional parameters are named after calendar components
@rule("C06.R6")
def argument_name_agreement(ctx: Ctx) -> None:
    """A component passed positionally binds to the parameter of the same name (year->year, month->month, ...)."""
    alias = {"franctional_second": "fractional_second"}
    comp = {"year", "month", "day", "hour", "minute", "second", "fractional_second", "offset", "microsecond"}
    n = 0
    letter_comp = {"Y": "year", "m": "month", "d": "day", "H": "hour", "M": "minute", "S": "second", "f": "fractional_second", "z": "offset"}
    fmts = _date_formats(ctx)
    _, scanner_yields, _ = _scanner_table(ctx)
    for fi in list(ctx.repo.funcs_in(DT)) + list(ctx.repo.funcs_in(DATES)):
        # a local unpacked from parse_date_args(value, DateFormat.X) carries the component of the directive at its position, whatever it is called
        by_directive: dict[str, str] = {}
        for st in walk_no_nested(fi.node):
            if isinstance(st, ast.Assign) and isinstance(st.targets[0], (ast.Tuple, ast.List)) and isinstance(st.value, ast.Call) and call_name_of(st.value) == "parse_date_args" and len(st.value.args) == 2:
                f2 = st.value.args[1]
                fmt = fmts.get(f2.attr) if isinstance(f2, ast.Attribute) else None
                if fmt is not None:
                    comps: list[str] = []
                    for letter in _directives(fmt):
                        k = scanner_yields.get(letter, 1)
                        comps += [letter_comp.get(letter, "?")] if k == 1 else ([letter_comp.get(letter, "?"), "fractional_second"] if letter == "S" and k == 2 else ["?"] * k)
                    if len(comps) == len(st.targets[0].elts):
                        for t2, cname in zip(st.targets[0].elts, comps):
                            if isinstance(t2, ast.Name) and cname != "?":
                                by_directive[t2.id] = cname if by_directive.get(t2.id, cname) == cname else "?"
        for c in calls_in(fi.node):
            params: list[str] | None = None
            f = c.func
            if isinstance(f, ast.Name) and f.id in ("cls",) and fi.cls is not None:
                params = [k for k in fi.cls.ann]
            elif isinstance(f, ast.Call) and unparse(f) == "type(self)" and fi.cls is not None:
                params = [k for k in fi.cls.ann]
            elif isinstance(f, ast.Name):
                r = ctx.repo.resolve_name(fi.module, f.id)
                if r in ctx.repo.functions:
                    params = [alias.get(a.arg, a.arg) for a in ctx.repo.functions[r].pos_params]
                elif r in ctx.repo.classes:
                    params = list(ctx.repo.classes[r].ann)
            elif isinstance(f, ast.Attribute) and unparse(f) in ("datetime.date", "datetime.datetime", "datetime.time"):
                params = {"datetime.date": ["year", "month", "day"],
                          "datetime.datetime": ["year", "month", "day", "hour", "minute", "second", "microsecond", "tzinfo"],
                          "datetime.time": ["hour", "minute", "second", "microsecond", "tzinfo"]}[unparse(f)]
            if not params or not (set(params) & comp):
                continue
            for i, a in enumerate(c.args):
                name = None
                if isinstance(a, ast.Starred):
                    break  # positions after *args are unknown
                if isinstance(a, ast.Name):
                    name = by_directive.get(a.id, a.id)
                elif isinstance(a, ast.Attribute) and isinstance(a.value, ast.Name) and a.value.id in ("self", "obj"):
                    name = a.attr
                if name in comp and i < len(params):
                    n += 1
                    ctx.ob(f"{fi.qual.split(':')[1]}: {unparse(f)}(... {name} ...) binds {name} to parameter {params[i]}", params[i] == name, at=fi, node=c,
                           construct=f"{unparse(f)} arg{i}={name}", msg=f"component {name} is passed in the position of {params[i]}")
    ctx.floor("component arguments", n, 60)


def _cval(fi: FuncInfo, x: ast.AST):
    """The value of a literal, or of a module-level constant named by ``x`` (None otherwise)."""
    if isinstance(x, ast.Name) and isinstance(fi.module.globals.get(x.id), ast.Constant):
        x = fi.module.globals[x.id]
    return x.value if isinstance(x, ast.Constant) else None


SPEC_RANGES = {
    "month": (1, 12), "hour": (0, 24), "minute": (0, 59), "second": (0, 59), "franctional_second": (0, 999999999), "fractional_second": (0, 999999999),
}


def _bound(fi: FuncInfo, t, e: ast.expr):
    """A range bound as an int (literal, through temporaries, or a module-level constant) or else its expanded text."""
    x = expand_at(fi, t, e)
    if isinstance(x, ast.Name) and isinstance(fi.module.globals.get(x.id), ast.Constant):
        x = fi.module.globals[x.id]
    if isinstance(x, ast.Constant) and isinstance(x.value, int):
        return x.value
    return unparse(x)


@rule("C06.R7")
def range_tables(ctx: Ctx) -> None:
    """validate_date / validate_time bounds and the month-length table equal the calendar / XSD tables."""
    mod = ctx.repo.module(DATES)
    md = mod.globals.get("mdays")
    vals = [e.value for e in md.elts] if isinstance(md, ast.List) else None
    ctx.ob("mdays = [0,31,28,31,30,31,30,31,31,30,31,30,31]", vals == [0, 31, 28, 31, 30, 31, 30, 31, 31, 30, 31, 30, 31], at=mod, node=md, construct="mdays", msg=f"month table is {vals}")
    ml = ctx.repo.func(f"{DATES}:monthlen")
    body = list(walk_no_nested(ml.node))
    sub = [x for x in body if isinstance(x, ast.Subscript) and unparse(x.value) == "mdays" and unparse(x.slice) == "month"]
    feb = [c for c in body if isinstance(c, ast.Compare) and len(c.ops) == 1 and isinstance(c.ops[0], ast.Eq)
           and {"month" if unparse(x) == "month" else _cval(ml, x) for x in (c.left, c.comparators[0])} == {"month", 2}]
    leap = [c for c in body if isinstance(c, ast.Call) and call_name_of(c) == "isleap" and c.args and unparse(c.args[0]) == "year"]
    other_cmp = [c for c in body if isinstance(c, ast.Compare) and c not in feb]
    ok = bool(sub) and bool(feb) and bool(leap) and not other_cmp
    ctx.ob("monthlen adds the leap day to February only", ok, at=ml, construct="leap rule", msg="leap-day rule changed")
    found = 0
    for fn in ("validate_date", "validate_time"):
        fi = ctx.repo.func(f"{DATES}:{fn}")
        g = build_cfg(fi.node)
        # the accepted range of every component: bounds the normal exit depends on - a chained `lo <= v <= hi`, or two separate
        # tests (`lo <= v` and `v <= hi`, in any spelling / polarity, directly or inside an extracted range predicate)
        import re as _re
        params_ = [a.arg for a in fi.params]
        for var in params_:
            if var != "day" and var not in SPEC_RANGES:
                continue
            lo = hi = None
            deciders = []
            for t in g.nodes:
                if t.kind != "test" or t.ast is None:
                    continue
                c = t.ast
                if isinstance(c, ast.Compare) and len(c.ops) == 2 and isinstance(c.ops[0], ast.LtE) and isinstance(c.ops[1], ast.LtE) and var in value_texts(fi, t, c.comparators[0]) \
                        and g.only_if(g.exit, t.id, True):
                    lo = c.left.value if isinstance(c.left, ast.Constant) else None
                    hi = _bound(fi, t, c.comparators[1])
                    deciders.append(t)
                    continue
                for f, same in polar_forms(fi, t, c, anon=False):
                    f = f.replace(" ", "")
                    m1 = _re.fullmatch(r"(-?\d+)<=" + _re.escape(var), f)
                    m2 = _re.fullmatch(_re.escape(var) + r"<=(.+)", f)
                    if m1 and g.only_if(g.exit, t.id, same):
                        lo = int(m1.group(1))
                        deciders.append(t)
                    elif m2 and g.only_if(g.exit, t.id, same):
                        hi = int(m2.group(1)) if _re.fullmatch(r"-?\d+", m2.group(1)) else _bound(fi, t, ast.parse(m2.group(1), mode="eval").body)
                        deciders.append(t)
            if lo is None and hi is None:
                continue
            found += 1
            if var == "day":
                ok = lo == 1 and (hi in names_from_calls(fi.node, ("monthlen",)) or str(hi).replace(" ", "") == "monthlen(year,month)")
            else:
                ok = SPEC_RANGES.get(var) == (lo, hi)
            ctx.ob(f"{fn}: {lo} <= {var} <= {'monthlen(year, month)' if var == 'day' else hi} matches the specification and its failure raises", ok, at=fi, node=deciders[0].ast if deciders else None,
                   construct=f"range {var}", msg=f"range for {var} is {lo}..{hi}, specification says {SPEC_RANGES.get(var, (1, 'monthlen'))}")
        if fn == "validate_date":
            ctx.ob("validate_date: max_days = monthlen(year, month)", any(unparse(c).replace(" ", "") == "monthlen(year,month)" for c in calls_in(fi.node)),
                   at=fi, construct="max_days", msg="day upper bound not taken from monthlen(year, month)")
        else:
            h24 = [t for t in g.nodes if t.kind == "test" and isinstance(t.ast, ast.Compare) and isinstance(t.ast.ops[0], ast.Eq)
                   and unparse(t.ast.left) == "hour" and isinstance(t.ast.comparators[0], ast.Constant) and t.ast.comparators[0].value == 24]
            ok = False
            if h24:
                nz = {}
                for t in g.nodes:
                    if t.kind == "test" and isinstance(t.ast, ast.Compare) and len(t.ast.ops) == 1 and isinstance(t.ast.ops[0], (ast.NotEq, ast.Eq)) and isinstance(t.ast.comparators[0], ast.Constant) \
                            and t.ast.comparators[0].value == 0 and g.only_if(t.id, h24[0].id, True):
                        lab_fail = "true" if isinstance(t.ast.ops[0], ast.NotEq) else "false"
                        tgt = [m for m, lab in g.succ[t.id] if lab == lab_fail and isinstance(g.nodes[m].ast, ast.Raise)]
                        if tgt:
                            nz[unparse(t.ast.left)] = True
                ok = set(nz) >= {"minute", "second"} and any("second" in k and k != "second" for k in nz)
            ctx.ob("validate_time: 24:00:00 only with zero minute/second/fraction", ok, at=fi, construct="24:00 rule", msg="end-of-day rule changed")
    ctx.floor("range tests", found, 6)
    # offsets: the minutes-per-hour constant agrees between the scanner and the formatter; sign handling is symmetric
    po = ctx.repo.func(f"{DATES}:DateTimeParser.parse_offset")
    fo = ctx.repo.func(f"{DATES}:format_offset")
    def _is60(x: ast.AST) -> bool:
        return isinstance(x, ast.Constant) and x.value == 60

    mul = [b for b in ast.walk(po.node) if (isinstance(b, ast.BinOp) and isinstance(b.op, ast.Mult) and (_is60(b.left) or _is60(b.right))) or (isinstance(b, ast.AugAssign) and isinstance(b.op, ast.Mult) and _is60(b.value))]
    dm = [c for c in calls_in(fo.node) if isinstance(c.func, ast.Name) and c.func.id == "divmod" and len(c.args) == 2 and _is60(c.args[1])] + [
        b for b in ast.walk(fo.node) if isinstance(b, ast.BinOp) and isinstance(b.op, ast.FloorDiv) and _is60(b.right)]
    ctx.ob("offset: scanner multiplies hours by 60 and the formatter divides by 60", bool(mul) and bool(dm), at=po, construct="offset units 60",
           msg="hours/minutes factor differs between parse_offset and format_offset")
    ctrl = names_from_calls(po.node, ("peek",))
    dpo = Dispatch(po.node, is_subject=lambda e: isinstance(e, ast.Name) and e.id in ctrl)

    def _negations(nodes) -> list[ast.AST]:
        out = []
        for n in nodes:
            if n.ast is None or n.kind == "test":
                continue
            for x in ast.walk(n.ast):
                if isinstance(x, ast.UnaryOp) and isinstance(x.op, ast.USub) and not isinstance(x.operand, ast.Constant):
                    out.append(x)
                minus1 = lambda v: isinstance(v, ast.UnaryOp) and isinstance(v.op, ast.USub) and isinstance(v.operand, ast.Constant) and v.operand.value == 1  # noqa: E731
                if isinstance(x, ast.AugAssign) and isinstance(x.op, ast.Mult) and minus1(x.value):
                    out.append(x)
                if isinstance(x, ast.BinOp) and isinstance(x.op, ast.Mult) and (minus1(x.left) or minus1(x.right)):
                    out.append(x)
        return out

    ok = "'-'" in dpo.keys and bool(_negations(dpo.specific("'-'"))) and not _negations(dpo.under("'+'")) if "'+'" in dpo.keys else ("'-'" in dpo.keys and bool(_negations(dpo.specific("'-'"))) and not _negations(dpo.under(None)))
    if "'-'" not in dpo.keys:
        # no test of the sign character: the sign may come from a constant table looked up with it ({"+": 1, "-": -1}[ctrl] / .get(ctrl))
        tabs = []
        for x in walk_no_nested(po.node):
            tname = key_e = None
            if isinstance(x, ast.Subscript) and isinstance(x.value, ast.Name):
                tname, key_e = x.value.id, x.slice
            elif isinstance(x, ast.Call) and isinstance(x.func, ast.Attribute) and x.func.attr == "get" and isinstance(x.func.value, ast.Name) and x.args:
                tname, key_e = x.func.value.id, x.args[0]
            tab = po.module.globals.get(tname or "")
            if isinstance(tab, ast.Dict) and isinstance(key_e, ast.Name) and key_e.id in ctrl:
                tabs.append({k.value: unparse(v) for k, v in zip(tab.keys, tab.values) if isinstance(k, ast.Constant)})
        if tabs:
            ctx.ob("parse_offset: '-' negates the whole offset, '+' keeps it", all(t.get("-") == "-1" and t.get("+") == "1" for t in tabs), at=po, construct="offset sign parse",
                   msg=f"sign table changed: {tabs}")
        else:
            ctx.abstain("offset sign handling of parse_offset", at=po, why="the sign character is neither tested nor looked up in a constant table")
    else:
        ctx.ob("parse_offset: '-' negates the whole offset, '+' keeps it", ok, at=po, construct="offset sign parse", msg="sign handling of the scanned offset changed")
    g = build_cfg(fo.node)
    signs: dict[str, set[tuple[str, bool]]] = {}
    for r in g.returns():
        for leaf, chain in flows(fo, r, r.ast.value):
            t = str_template(leaf)
            if t and t[0][0] == "hole":
                for sl, sc in flows(fo, g.nodes[chain[-1].id] if chain else r, t[0][1]):
                    if isinstance(sl, ast.Constant) and sl.value in ("-", "+"):
                        signs[sl.value] = flow_conditions(fo, r, [*chain, *sc])
                    # SIGNS[offset < 0] with a module-level pair of constants: index 1 is the true case
                    tab = fo.module.globals.get(sl.value.id) if isinstance(sl, ast.Subscript) and isinstance(sl.value, ast.Name) else None
                    if isinstance(tab, (ast.Tuple, ast.List)) and len(tab.elts) == 2 and all(isinstance(e, ast.Constant) and e.value in ("-", "+") for e in tab.elts):
                        idx = expand(fo.node, sl.slice)
                        txt = L(fo, idx)
                        if isinstance(idx, ast.Compare) and txt in ("_<0", "_>=0"):
                            signs[tab.elts[1].value] = {(txt, True)}
                            signs[tab.elts[0].value] = {(txt, False)}
    neg = lambda conds, want: any((t == "_<0" and pol == want) or (t == "_>=0" and pol != want) for t, pol in conds)  # noqa: E731
    # the head of the text comes from a lookup the rule cannot read (a table / mapping it does not know): no instance.  Anything else that is
    # not a '+' / '-' constant (e.g. a number formatted with a sign flag, which prints +00:30 for -30 minutes) is a different decision
    head_lookup = False
    for r in g.returns():
        for leaf, chain in flows(fo, r, r.ast.value):
            t = str_template(leaf)
            if t and t[0][0] == "hole":
                for sl, _sc in flows(fo, g.nodes[chain[-1].id] if chain else r, t[0][1]):
                    if (isinstance(sl, ast.Subscript) and isinstance(sl.value, (ast.Name, ast.Attribute))) or (isinstance(sl, ast.Call) and isinstance(sl.func, ast.Attribute) and sl.func.attr == "get"):
                        head_lookup = True
    if not signs and head_lookup:
        ctx.abstain("sign character of format_offset", at=fo, why="the head of the returned text is looked up in a table the rule cannot read")
    else:
        ctx.ob("format_offset: '-' exactly for negative offsets", set(signs) == {"-", "+"} and neg(signs["-"], True) and neg(signs["+"], False), at=fo, construct="offset sign format", msg="sign of the formatted offset changed")
    zret = [n for n in g.returns() if const_str(n.ast.value) == "Z"]
    ctx.ob("format_offset: 'Z' exactly for offset 0", bool(zret) and all(any(t == "_==0" and pol for t, pol, _ in control_deps(fo, n)) for n in zret), at=fo, construct="Z for UTC", msg="UTC designator changed")
    zn = [n for n in dpo.specific("'Z'") if n.kind == "stmt" and isinstance(n.ast, ast.Return)] if "'Z'" in dpo.keys else []
    ctx.ob("parse_offset: 'Z' is read as offset 0", bool(zn) and all(isinstance(n.ast.value, ast.Constant) and n.ast.value.value == 0 for n in zn), at=po, construct="Z parse", msg="Z no longer maps to offset 0")
    # conversions to/from the standard library keep the instant: fractional_second <-> microsecond factor 1000 on both sides
    for cq in ("XmlDateTime", "XmlTime"):
        ci = ctx.repo.cls(f"{DT}:{cq}")
        def mentions(fn, *, attrs=(), consts=(), calls=(), ops=()):
            if fn is None:
                return False
            nodes = list(ast.walk(fn.node))
            return all(any(isinstance(x, ast.Attribute) and x.attr == a for x in nodes) for a in attrs) and all(any(isinstance(x, ast.Constant) and x.value == c for x in nodes) for c in consts) \
                and all(any(isinstance(x, ast.Call) and call_name_of(x) == c for x in nodes) for c in calls) and all(any(isinstance(x, (ast.BinOp, ast.AugAssign)) and isinstance(x.op, o) for x in nodes) for o in ops)

        micro = ci.methods.get("microsecond")
        ok1 = mentions(micro, attrs=("fractional_second",), consts=(1000,), ops=(ast.FloorDiv,))
        frm = ci.methods.get("from_datetime") or ci.methods.get("from_time")
        ok2 = mentions(frm, attrs=("microsecond",), consts=(1000,), ops=(ast.Mult,), calls=("calculate_offset",))
        to = ci.methods.get("to_datetime") or ci.methods.get("to_time")
        ok3 = mentions(to, attrs=("microsecond", "offset"), calls=("calculate_timezone",))
        ctx.ob(f"{cq}: microsecond = fractional_second // 1000 and from_* multiplies by 1000; offset carried both ways", ok1 and ok2 and ok3, at=micro or frm,
               construct=f"{cq} stdlib conversion", msg="conversion to/from datetime loses the fraction or the offset")
    co = ctx.repo.func(f"{DATES}:calculate_offset")
    ct = ctx.repo.func(f"{DATES}:calculate_timezone")
    def _by60(x: ast.AST) -> bool:  # seconds // 60, or the quotient of divmod(seconds, 60) - 60 written as a literal or a module constant
        return (isinstance(x, ast.BinOp) and isinstance(x.op, ast.FloorDiv) and _cval(co, x.right) == 60) or (
            isinstance(x, ast.Call) and call_name_of(x) == "divmod" and len(x.args) == 2 and _cval(co, x.args[1]) == 60)

    ok = any(isinstance(x, ast.Call) and call_name_of(x) == "total_seconds" for x in ast.walk(co.node)) and any(_by60(x) for x in ast.walk(co.node)) \
        and any(isinstance(x, ast.Call) and call_name_of(x) == "timedelta" and [k.arg for k in x.keywords] == ["minutes"] and not x.args for x in ast.walk(ct.node))
    ctx.ob("calculate_offset / calculate_timezone use minutes on both sides", ok,
           at=co, construct="offset units", msg="offset units differ between the two conversions")


@rule("C06.R8")
def day_number_steps_in_order(ctx: Ctx) -> None:
    """_days_from_civil shifts January / February to the previous year BEFORE the 400-year era is split off; _timeline combines day number, time and offset as integers."""
    fi = ctx.repo.func(f"{DT}:_days_from_civil")
    g = build_cfg(fi.node)
    # the operand the 400-year era is split from (x // 400, x % 400, divmod(x, 400)) must be the year shifted by one under month <= 2
    operands: list[tuple[ast.AST, ast.expr]] = []
    for x in walk_no_nested(fi.node):
        if isinstance(x, ast.BinOp) and isinstance(x.op, (ast.FloorDiv, ast.Mod)) and _cval(fi, x.right) == 400:
            operands.append((x, x.left))
        elif isinstance(x, ast.Call) and isinstance(x.func, ast.Name) and x.func.id == "divmod" and len(x.args) == 2 and _cval(fi, x.args[1]) == 400:
            operands.append((x, x.args[0]))
    if not operands:
        ctx.abstain("the 400-year era split of _days_from_civil", at=fi, why="no `// 400`, `% 400` or divmod(_, 400) in the function")
    for where, op in operands:
        n = node_containing(g, where)
        fl = flows(fi, n, op) if n is not None else []
        shifted = [(leaf, chain) for leaf, chain in fl if isinstance(leaf, ast.BinOp) and isinstance(leaf.op, ast.Sub) and isinstance(leaf.right, ast.Constant) and leaf.right.value == 1]
        ok = any({("_<=2", True), ("_<3", True)} & leaf_conditions(fi, n, leaf, chain) for leaf, chain in shifted)
        ctx.ob("_days_from_civil: the era is split from the year AFTER the Jan/Feb shift (year - 1 when month <= 2)", ok, at=fi, node=where, construct="year shift first",
               msg="the era / year-of-era are split before the shift: January and February of years divisible by 400 land on the wrong day (2000-02-29 == 2000-03-01)")
    def _ints(fn_node, mod) -> set[int]:
        """Integer literals of a function, including the module-level constants it names."""
        out = {n.value for n in ast.walk(fn_node) if isinstance(n, ast.Constant) and isinstance(n.value, int) and not isinstance(n.value, bool)}
        for n in ast.walk(fn_node):
            if isinstance(n, ast.Name) and isinstance(mod.globals.get(n.id), ast.Constant) and isinstance(mod.globals[n.id].value, int):
                out.add(mod.globals[n.id].value)
        return out

    consts = _ints(fi.node, fi.module)
    ctx.ob("_days_from_civil uses the proleptic Gregorian constants (400, 146097, 365, 4, 100, 153)", {400, 146097, 365, 4, 100, 153} <= consts, at=fi, construct="calendar constants", msg=f"constants {sorted(consts)}")
    tl = ctx.repo.func(f"{DT}:_timeline")
    a = unparse(tl.node)
    ctx.ob("_timeline uses the day number only for dateTime values and scales seconds to nanoseconds", "isinstance(obj, XmlDateTime)" in a and 1_000_000_000 in _ints(tl.node, tl.module) and "obj.fractional_second" in a, at=tl,
           construct="timeline composition", msg="timeline composition changed")
    for name, want in (("DS_DAY", 86400), ("DS_HOUR", 3600), ("DS_MINUTE", 60), ("DS_OFFSET", -60)):
        v = ctx.repo.module(DT).globals.get(name)
        val = v.value if isinstance(v, ast.Constant) else (-v.operand.value if isinstance(v, ast.UnaryOp) and isinstance(v.operand, ast.Constant) else None)
        ctx.ob(f"{name} = {want}", val == want, at=ctx.repo.module(DT), node=v, construct=f"const {name}", msg=f"{name} is {val}")


@rule("C06.R9")
def gyear_shape_ignores_the_offset(ctx: Ctx) -> None:
    """XmlPeriod._parse_period tells gYearMonth from gYear by a '-' after the year digits - searched in the literal WITHOUT its timezone
    offset: the '-' of a negative offset (2001-05:00) is not a month separator."""
    fi = ctx.repo.func(f"{DT}:XmlPeriod._parse_period")
    g = build_cfg(fi.node)

    def fmt_calls(name: str):
        return [n for n in g.stmts() for c in node_calls(n) if call_name_of(c) == "parse_date_args" and any(unparse(a) == f"DateFormat.{name}" for a in c.args)]

    ym, y = fmt_calls("G_YEAR_MONTH"), fmt_calls("G_YEAR")
    if len(ym) != 1 or len(y) != 1:
        ctx.abstain("gYear / gYearMonth branches of _parse_period", at=fi)
        return
    deciders = [t for t in g.nodes if t.kind == "test" and ((g.only_if(ym[0].id, t.id, True) and g.only_if(y[0].id, t.id, False)) or (g.only_if(ym[0].id, t.id, False) and g.only_if(y[0].id, t.id, True)))]
    seen = 0
    for t in deciders:
        for e in [expand_at(fi, t, t.ast, d) for d in (0, 1, 2, 3)]:
            for c in [x for x in ast.walk(e) if isinstance(x, ast.Call) and isinstance(x.func, ast.Attribute) and x.func.attr in ("find", "rfind", "index", "rindex", "count")
                      and x.args and isinstance(x.args[0], ast.Constant) and x.args[0].value == "-"]:
                recv = c.func.value
                seen += 1
                params = {a.arg for a in fi.params}
                whole = isinstance(recv, ast.Name) and any(isinstance(leaf, ast.Name) and leaf.id in params and not chain for leaf, chain in flows(fi, t, recv))
                whole = whole and len(c.args) < 3  # s.rfind("-", start, end) searches a bounded part of the literal
                ctx.ob("_parse_period looks for the month separator in the literal without its timezone offset", not whole, at=fi, node=t.ast, construct="month separator search",
                       msg="the '-' is searched in the whole literal: a gYear with a negative offset (2001-05:00) is taken for a gYearMonth and rejected")
            if seen:
                break
    if not seen:
        ctx.abstain("month separator test of _parse_period", at=fi)
