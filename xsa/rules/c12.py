"""C12 - code generation is reproducible (determinism by construction)."""

from __future__ import annotations

import ast
import re

from ..cfg import build_cfg, calls_in, node_calls
from ..core import Ctx, property_info, rule
from ..model import AnalysisError, FuncInfo, walk_no_nested
from ..q import A, L, call_param, value_sources, func_text, returned_sort_keys, sort_key_attr, value_texts, reach_table, leaves_at, node_containing, asrc, call_name_of, control_deps, family, flows, none_cond, is_self_attr, kwarg, names_in, return_values, stores, unparse
from ._schedule import processor_table, step_sequence

SCOPE = ("xsdata.codegen", "xsdata.formats.dataclass.generator", "xsdata.formats.dataclass.filters", "xsdata.formats.mixins", "xsdata.models.xsd", "xsdata.models.config",
         "xsdata.models.wsdl", "xsdata.models.dtd", "xsdata.models.mixins", "xsdata.utils.graphs", "xsdata.utils.collections", "xsdata.utils.namespaces", "xsdata.utils.package",
         "xsdata.utils.text", "xsdata.cli", "xsdata.utils.click")

property_info(
    "C12",
    explanation="Decides determinism by construction of the code generator: every iteration / listing of a hash-ordered collection in the generator's scope is "
    "either sanitised (sorted, toposort_flatten, sort_types) or a confirmed order-insensitive consumer; id()-derived values are only compared for identity, "
    "never ordered, formatted or emitted, and are renumbered before output; directory listings are sorted; no clock / random / environment value reaches "
    "generated text (one known, documented exception); option names map identically on every invocation route.",
    decides="taint of unordered iteration and id() values to order-sensitive sinks, scheduling of renumbering, sortedness of source listings, route agreement",
    not_decided="byte identity itself (needs running the generator); staleness of --cache files",
)

SET_ANN = re.compile(r"^(set|frozenset|Set|FrozenSet|AbstractSet)\b", re.I)


def _set_returning(ctx: Ctx) -> set[str]:
    return {f.name for f in ctx.repo.functions.values() if f.node.returns is not None and SET_ANN.match(unparse(f.node.returns))}


def _is_setexpr(e: ast.AST, setvars: set[str], setfuncs: set[str]) -> bool:
    if isinstance(e, (ast.Set, ast.SetComp)):
        return True
    if isinstance(e, ast.Subscript) and isinstance(e.value, ast.Name) and ("[]" + e.value.id) in setvars:
        return True  # element of a list / dict of sets
    if isinstance(e, ast.Call):
        f = unparse(e.func)
        if f in ("set", "frozenset"):
            return True
        if isinstance(e.func, ast.Attribute) and e.func.attr in ("intersection", "union", "difference", "symmetric_difference", "copy") and _is_setexpr(e.func.value, setvars, setfuncs):
            return True
        if f.split(".")[-1] in setfuncs:
            return True
    if isinstance(e, ast.Name) and e.id in setvars:
        return True
    if isinstance(e, ast.BinOp) and isinstance(e.op, (ast.BitOr, ast.BitAnd, ast.Sub, ast.BitXor)) and (_is_setexpr(e.left, setvars, setfuncs) or _is_setexpr(e.right, setvars, setfuncs)):
        return True
    return False


def _int_elements(e: ast.AST, fi: FuncInfo) -> bool:
    """Sets of small ints iterate deterministically (no hash randomisation)."""
    if isinstance(e, ast.Name):
        anns = [st.annotation for st in walk_no_nested(fi.node) if isinstance(st, ast.AnnAssign) and isinstance(st.target, ast.Name) and st.target.id == e.id]
        if any("int" in unparse(a) for a in anns):
            return True
        # filled only from enumerate indexes / ints
        ups = [c for c in calls_in(fi.node) if isinstance(c.func, ast.Attribute) and c.func.attr in ("add", "update") and unparse(c.func.value) == e.id]
        src = unparse(fi.node)
        return bool(ups) and all("index" in unparse(c.args[0]) for c in ups if c.args) and "enumerate(" in src
    return False


ORDER_SINK_CALLS = {"list", "tuple", "next", "iter", "enumerate", "toposort"}
SANITIZERS = {"sorted", "toposort_flatten", "min", "max", "sum", "len", "any", "all", "set", "frozenset", "sort_types"}

# confirmed order-insensitive consumers (frozen; key = (function, normalised iterable text))
CONFIRMED = {
    ("DesignateClassPackages.sort_classes", "iterate", "_"):
        ("dict built in set order is handed to toposort_flatten, which sorts every level", "toposort_flatten"),
    ("DesignateClassPackages.strongly_connected_classes", "list()", "set(_.dependencies(True))"):
        ("edge lists only drive the SCC search: the partition into strongly connected sets does not depend on edge order; groups are consumed as sets", "scc"),
    ("strongly_connected_components", "iterate", "set(_)"):
        ("root order of the DFS changes only the order in which components are yielded; each component is a set and per-group effects (assign) commute", "scc"),
    ("Attr.native_types", "list()", "set(self.get_native_types())"):
        ("de-duplication only; every consumer sorts with converter.sort_types or tests membership (checked)", "native_types"),
    ("Class.dependencies", "iterate", "set(self.types())"):
        ("de-duplication only; every consumer wraps the result in set(...) (checked)", "dependencies"),
    ("DataclassGenerator.render", "list()", "_"):
        ("only the order of directory arguments of the ruff command line; ruff formats each file independently", "ruff"),
}


def _discover(ctx: Ctx) -> list[tuple[FuncInfo, ast.AST, str, ast.AST]]:
    setfuncs = _set_returning(ctx)
    out = []
    for f in ctx.repo.funcs_in(*SCOPE):
        setvars: set[str] = set()
        for a in f.params:
            if a.annotation is not None and SET_ANN.match(unparse(a.annotation)):
                setvars.add(a.arg)
        for _ in range(2):
            for st, tgt, v in stores(f.node):
                if isinstance(tgt, ast.Name) and v is not None and _is_setexpr(v, setvars, setfuncs):
                    setvars.add(tgt.id)
                if isinstance(tgt, ast.Name) and isinstance(v, (ast.ListComp, ast.List, ast.DictComp)):
                    elts = [v.elt] if isinstance(v, ast.ListComp) else ([v.value] if isinstance(v, ast.DictComp) else v.elts)
                    if elts and all(_is_setexpr(x, setvars, setfuncs) for x in elts):
                        setvars.add("[]" + tgt.id)
                if isinstance(st, ast.AnnAssign) and isinstance(tgt, ast.Name) and SET_ANN.match(unparse(st.annotation)):
                    setvars.add(tgt.id)
        for n in walk_no_nested(f.node):
            it = kind = None
            if isinstance(n, ast.For):
                it, kind = n.iter, "for"
            elif isinstance(n, ast.comprehension):
                it, kind = n.iter, "comprehension"
            elif isinstance(n, ast.Call) and unparse(n.func).split(".")[-1] in ORDER_SINK_CALLS and n.args:
                it, kind = n.args[0], f"{unparse(n.func)}()"
            elif isinstance(n, ast.Call) and isinstance(n.func, ast.Attribute) and n.func.attr in ("join", "extend") and n.args:
                it, kind = n.args[0], f".{n.func.attr}()"
            elif isinstance(n, ast.Call) and isinstance(n.func, ast.Attribute) and n.func.attr == "pop" and not n.args:
                it, kind = n.func.value, ".pop()"
            elif isinstance(n, ast.Starred):
                it, kind = n.value, "*splat"
            elif isinstance(n, ast.YieldFrom):
                it, kind = n.value, "yield from"
            if it is not None and _is_setexpr(it, setvars, setfuncs):
                # a set comprehension / set() over a set is order-insensitive by itself
                if kind == "comprehension" and _comp_is_set(f.node, n):
                    continue
                out.append((f, n, kind, it))
    return out


def _comp_is_set(fn: ast.AST, comp: ast.comprehension) -> bool:
    for n in walk_no_nested(fn):
        if isinstance(n, (ast.SetComp,)) and comp in n.generators:
            return True
        if isinstance(n, ast.GeneratorExp) and comp in n.generators:
            # generator fed directly to an order-insensitive reducer
            for c in walk_no_nested(fn):
                if isinstance(c, ast.Call) and n in c.args and unparse(c.func).split(".")[-1] in SANITIZERS:
                    return True
    return False


@rule("C12.R1")
def unordered_iteration(ctx: Ctx) -> None:
    """Every iteration or listing of a hash-ordered set in the generator's scope is sanitised or a confirmed order-insensitive consumer."""
    sites = _discover(ctx)
    ctx.floor("set iteration / listing sites", len(sites), 6)
    seen_keys: dict[tuple, int] = {}
    for f, node, kind, it in sites:
        fname = f.qual.split(":")[1]
        key = (fname, "iterate" if kind in ("for", "comprehension") else kind, L(f, it))
        if _int_elements(it, f):
            ctx.ob(f"{fname}: {kind} over {L(f, it)[:40]} iterates a set of ints (deterministic)", True, at=f, node=node, construct=f"int set {kind}")
            continue
        entry = CONFIRMED.get(key)
        seen_keys[key] = seen_keys.get(key, 0) + 1
        # one confirmed site per key: a second, new site of the same shape in the same function is not covered by the confirmation
        ctx.ob(f"{fname}: {kind} over the hash-ordered {L(f, it)[:40]} is a confirmed order-insensitive consumer", entry is not None and seen_keys[key] == 1, at=f, node=node,
               construct=f"{kind}:{L(f, it)[:60]}", msg="iteration order of a set of str / objects depends on PYTHONHASHSEED (or on object addresses) and reaches an order-sensitive use: "
               "generated names, imports or file names can differ between runs. Sort it, or confirm the consumer is order-insensitive")
    ctx.note("C12.R1 confirmed sites no longer present (table entries to drop)", [list(k) for k in CONFIRMED if k not in seen_keys])
    # the conditions under which the confirmed sites are order-insensitive
    sc = ctx.repo.func("xsdata.codegen.handlers.designate_class_packages:DesignateClassPackages.sort_classes")
    flat_names = {a.id for c in calls_in(sc.node) if call_name_of(c) == "toposort_flatten" for a in c.args if isinstance(a, ast.Name)}
    built = {tgt.id for st, tgt, v in stores(sc.node) if isinstance(tgt, ast.Name) and tgt.id in flat_names and isinstance(v, (ast.DictComp, ast.Dict)) or (isinstance(tgt, ast.Name) and tgt.id in flat_names and isinstance(v, ast.Call) and unparse(v.func) in ("dict", "defaultdict"))}
    flat_args = {id(a) for c in calls_in(sc.node) if call_name_of(c) == "toposort_flatten" for a in c.args}
    uses = [x for x in walk_no_nested(sc.node) if isinstance(x, ast.Name) and x.id in built and isinstance(x.ctx, ast.Load)]
    muts = {id(c.func.value) for c in calls_in(sc.node) if isinstance(c.func, ast.Attribute) and isinstance(c.func.value, ast.Name) and c.func.value.id in built}
    subs = {id(x.value) for x in walk_no_nested(sc.node) if isinstance(x, ast.Subscript) and isinstance(x.ctx, (ast.Store,)) and isinstance(x.value, ast.Name)}
    ok = bool(built) and bool(flat_args) and all(id(u) in flat_args or id(u) in muts or id(u) in subs for u in uses)
    ctx.ob("sort_classes: the edges built in set order are consumed only by toposort_flatten(edges) (which sorts each level)", ok,
           at=sc, construct="sort_classes sanitizer", msg="toposort() yields plain sets per level: the order inside a level (and so the module name classes[0].name) follows the string hash")
    rs = ctx.repo.func("xsdata.codegen.resolver:DependenciesResolver.create_class_list")
    rv = return_values(rs.node)
    ctx.ob("create_class_list flattens with toposort_flatten (sorted levels)", bool(rv) and all(isinstance(v, ast.Call) and call_name_of(v) == "toposort_flatten" for v in rv), at=rs, construct="class list sanitizer", msg="class order depends on hashing")
    si = ctx.repo.func("xsdata.codegen.resolver:DependenciesResolver.sorted_imports")
    ks = returned_sort_keys(si)
    ctx.ob("sorted_imports sorts by name", bool(ks) and all(sort_key_attr(ctx.repo, si, k) == "name" for k in ks), at=si, construct="sorted imports", msg="imports unsorted (or sorted by something else than the name)")
    # consumers of Attr.native_types
    n_nt = 0
    for f in ctx.repo.funcs_in(*SCOPE):
        for node in walk_no_nested(f.node):
            if isinstance(node, ast.Attribute) and node.attr == "native_types" and isinstance(node.ctx, ast.Load):
                n_nt += 1
                ok = _native_types_use_ok(f, node)
                ctx.ob(f"{f.qual.split(':')[1]}: {unparse(node)} (unordered list) is only sorted with sort_types / tested for membership", ok, at=f, node=node,
                       msg="the list comes from a set of type objects (address-ordered): using its order makes output differ between runs")
    ctx.floor("native_types consumers", n_nt, 5)
    ad = ctx.repo.func("xsdata.codegen.models:Restrictions.asdict")
    gad = build_cfg(ad.node)
    test_ids = {id(t.ast) for t in gad.nodes if t.kind == "test"}
    sorted_args = {id(a) for c in calls_in(ad.node) if unparse(c.func).endswith("sort_types") for a in c.args}
    uses = [x for x in walk_no_nested(ad.node) if isinstance(x, ast.Name) and x.id == "types" and isinstance(x.ctx, ast.Load)]
    # a named condition (`is_bound = key.endswith("clusive") and types`, used only in tests) is a truth test as well
    from ..cfg import _condition_temps

    ctemps = _condition_temps(ad.node)
    def _truth_operands(e: ast.expr):
        if isinstance(e, ast.BoolOp):
            for v_ in e.values:
                yield from _truth_operands(v_)
        elif isinstance(e, ast.UnaryOp) and isinstance(e.op, ast.Not):
            yield from _truth_operands(e.operand)
        else:
            yield e

    in_tests = {id(x) for st in walk_no_nested(ad.node) if isinstance(st, (ast.If, ast.While, ast.IfExp)) for x in _truth_operands(st.test)}
    tested_only = {nm for nm in ctemps if all(id(x) in in_tests or id(x) in test_ids for x in walk_no_nested(ad.node) if isinstance(x, ast.Name) and x.id == nm and isinstance(x.ctx, ast.Load))}
    in_named_condition = {id(x) for st, tgt, v in stores(ad.node) if isinstance(tgt, ast.Name) and tgt.id in tested_only and v is not None for x in ast.walk(v)}
    ok = bool(sorted_args) and all(id(x) in test_ids or id(x) in sorted_args or id(x) in in_named_condition for x in uses)
    ctx.ob("Restrictions.asdict uses the (unordered) types it is given only through converter.sort_types(types) or as a truth test", ok, at=ad, construct="asdict sorts types", msg="facet conversion uses an unordered type list")
    n_dep = 0
    for f in ctx.repo.funcs_in(*SCOPE):
        for c in calls_in(f.node):
            if isinstance(c.func, ast.Attribute) and c.func.attr == "dependencies" and not is_self_attr(c.func.value):
                n_dep += 1
                par = _parent_call(f.node, c)
                ok = par is not None and unparse(par.func) in ("set", "frozenset")
                # ... or named by a temporary whose only uses are such set(...) arguments
                if not ok:
                    holders = [st_.targets[0].id for st_ in walk_no_nested(f.node) if isinstance(st_, ast.Assign) and st_.value is c and len(st_.targets) == 1 and isinstance(st_.targets[0], ast.Name)]
                    for h_ in holders:
                        uses_ = [x for x in walk_no_nested(f.node) if isinstance(x, ast.Name) and x.id == h_ and isinstance(x.ctx, ast.Load)]
                        set_args = {id(a) for c2 in calls_in(f.node) if unparse(c2.func) in ("set", "frozenset") for a in c2.args}
                        comp_iters = {id(g_.iter) for sc in walk_no_nested(f.node) if isinstance(sc, ast.SetComp) for g_ in sc.generators}
                        ok = bool(uses_) and all(id(u) in set_args or id(u) in comp_iters for u in uses_)
                # ... or iterated by a set comprehension (whose result is a set again)
                ok = ok or any(isinstance(sc, ast.SetComp) and any(g_.iter is c for g_ in sc.generators) for sc in walk_no_nested(f.node))
                ctx.ob(f"{f.qual.split(':')[1]}: {unparse(c)[:40]} (hash-ordered) is consumed as a set", ok, at=f, node=c, msg="dependencies() yields in set order: use it only through set(...)")
    ctx.floor("dependencies() consumers", n_dep, 3)


def _parent_call(fn: ast.AST, node: ast.AST) -> ast.Call | None:
    for c in walk_no_nested(fn):
        if isinstance(c, ast.Call) and any(a is node for a in c.args):
            return c
    return None


def _native_types_use_ok(f: FuncInfo, node: ast.Attribute) -> bool:
    par = _parent_call(f.node, node)
    if par is not None and (unparse(par.func).endswith("sort_types") or unparse(par.func).endswith(".asdict")):
        return True
    for n in walk_no_nested(f.node):
        if isinstance(n, ast.Compare) and any(c is node for c in n.comparators) and all(isinstance(o, (ast.In, ast.NotIn)) for o in n.ops):
            return True
        if isinstance(n, ast.Assign) and n.value is node and isinstance(n.targets[0], ast.Name):
            name = n.targets[0].id
            uses = [x for x in walk_no_nested(f.node) if isinstance(x, ast.Name) and x.id == name and isinstance(x.ctx, ast.Load)]
            return all((_parent_call(f.node, u) is not None and (unparse(_parent_call(f.node, u).func).endswith("sort_types") or unparse(_parent_call(f.node, u).func).endswith(".asdict"))) for u in uses)
    return False


ID_FIELDS = ("choice", "group", "sequence", "reference", "ref")


@rule("C12.R2")
def id_discipline(ctx: Ctx) -> None:
    """id()-derived values are compared for identity only: never ordered, formatted or emitted; `sequence` is cleared or renumbered before output."""
    ids = []
    for f in ctx.repo.funcs_in(*SCOPE):
        for c in calls_in(f.node):
            if isinstance(c.func, ast.Name) and c.func.id == "id":
                ids.append((f, c))
    ctx.floor("id() calls in the generator", len(ids), 12)
    for f, c in ids:
        ok, why = _id_use_ok(f, c)
        ctx.ob(f"{f.qual.split(':')[1]}: {unparse(c)} is used for identity only", ok, at=f, node=c, msg=why)
    # ordering / formatting of id-valued fields
    n = 0
    for f in ctx.repo.funcs_in(*SCOPE):
        for node in walk_no_nested(f.node):
            if isinstance(node, ast.Compare) and any(isinstance(o, (ast.Lt, ast.LtE, ast.Gt, ast.GtE)) for o in node.ops):
                sides = [node.left, *node.comparators]
                hit = [s for s in sides if _mentions_id_field(s)]
                if hit:
                    n += 1
                    ctx.ob(f"{f.qual.split(':')[1]}: no ordering comparison on an id()-valued field ({unparse(node)[:50]})", False, at=f, node=node, msg="addresses are ordered: the result differs between runs")
            if isinstance(node, ast.Call) and unparse(node.func).split(".")[-1] in ("sorted", "sort", "min", "max"):
                key = kwarg(node, "key")
                subject = [key] if key is not None else list(node.args)
                if any(_mentions_id_field(s) for s in subject if s is not None):
                    n += 1
                    fq = f.qual.split(":")[1]
                    ok = fq == "ResetAttributeSequenceNumbers.find_next_sequence_number"
                    ctx.ob(f"{fq}: {unparse(node)[:50]} orders id()-valued fields only where they were renumbered", ok, at=f, node=node,
                           msg="sorting / max over raw id() values is address dependent")
            if isinstance(node, ast.FormattedValue) and _mentions_id_field(node.value) and "restrictions" in unparse(node.value):
                n += 1
                ctx.ob(f"{f.qual.split(':')[1]}: an id()-valued field is not formatted into text", False, at=f, node=node, msg="an address is written into generated text")
    ctx.note("C12.R2 ordered uses", n)
    ad = ctx.repo.func("xsdata.codegen.models:Restrictions.asdict")
    skip = asdict_skipped_keys(ctx)
    for k in ("choice", "group", "path"):
        ctx.ob(f"Restrictions.asdict never emits `{k}` (holds raw id() values)", k in skip, at=ad, construct=f"asdict skips {k}", msg="an object address is rendered into field metadata")
    # sequence is emitted, so it must be renumbered (attrs) or cleared (choices, which the renumbering does not visit)
    rn = ctx.repo.func("xsdata.codegen.handlers.reset_attribute_sequence_numbers:ResetAttributeSequenceNumbers.process")
    grn = build_cfg(rn.node)
    # every attr with a (raw, id-valued) sequence gets it overwritten by a counter that starts at find_next_sequence_number() and only grows by 1
    seq_stores = [(st, v) for st, tgt, v in stores(rn.node) if isinstance(tgt, ast.Attribute) and tgt.attr == "sequence" and v is not None]
    ok = bool(seq_stores)
    seeded = False
    for st, v in seq_stores:
        n_ = grn.node_of(st)
        for leaf in value_sources(rn, n_, v) if n_ is not None else []:
            txt = unparse(leaf)
            if isinstance(leaf, ast.Call) and call_name_of(leaf) == "find_next_sequence_number":
                seeded = True
            # the new number must not be derived from the old (address valued) one
            if ".sequence" in txt or "id(" in txt:
                ok = False
        if any(isinstance(x, ast.Attribute) and x.attr == "sequence" for x in ast.walk(v)):
            ok = False
    ok = ok and seeded and any(isinstance(x, ast.Attribute) and x.attr == "attrs" for l in walk_no_nested(rn.node) if isinstance(l, (ast.For, ast.comprehension)) for x in ast.walk(l.iter))
    ctx.ob("ResetAttributeSequenceNumbers overwrites every id-valued sequence with a counter (start = next free number of the bases, +1 per group, groups in attr order)", ok, at=rn, construct="renumbering", msg="renumbering changed")
    g = ctx.repo.func("xsdata.codegen.handlers.reset_attribute_sequence_numbers:ResetAttributeSequenceNumbers.find_next_sequence_number")
    ctx.ob("find_next_sequence_number takes the maximum over base_attrs (bases are finalised, i.e. renumbered, first)", any(unparse(c.func) == "self.base_attrs" for c in calls_in(g.node)), at=g, construct="max over renumbered bases", msg="max over raw ids")
    cc = ctx.repo.func("xsdata.codegen.handlers.create_compound_fields:CreateCompoundFields.build_attr_choice")
    clones = [c for c in calls_in(cc.node) if isinstance(c.func, ast.Attribute) and c.func.attr == "clone" and "restrictions" in unparse(c.func.value)]
    seq_arg = call_param(ctx, cc, clones[0], "sequence") if len(clones) == 1 else None
    ok = len(clones) == 1 and seq_arg is not None and any(isinstance(x, ast.Constant) and x.value is None for x in leaves_at(cc, clones[0], seq_arg))
    ctx.ob("attrs moved into a compound field's choices get sequence=None (choices are not renumbered, and their sequence is emitted)", ok, at=cc, node=clones[0] if clones else None, construct="choice sequence cleared",
           msg="the raw id() sequence number of a choice survives to Filters.field_choices and is rendered as \"sequence\": <address> - different on every run")
    pm = ctx.repo.func("xsdata.codegen.handlers.process_mixed_content_class:ProcessMixedContentClass.process")
    ctx.ob("choices created for mixed content get sequence = None", any(isinstance(tgt, ast.Attribute) and tgt.attr == "sequence" and isinstance(v, ast.Constant) and v.value is None for f_ in family(ctx.repo, pm) for _, tgt, v in stores(f_.node)), at=pm, construct="mixed choice sequence cleared", msg="raw sequence ids in mixed content choices")


def asdict_skipped_keys(ctx: Ctx) -> set[str]:
    """Keys Restrictions.asdict never copies into its result: partial evaluation over the key variable of the emitting store
    `result[key] = value` - a constant K is skipped iff the store is unreachable when key == K (membership tests against tuple
    literals or module / class constants and chains of `key == "k"` tests are all understood)."""
    from ..q import Dispatch, key_test

    ad = ctx.repo.func("xsdata.codegen.models:Restrictions.asdict")
    emit = [st for st, tgt, v in stores(ad.node) if isinstance(tgt, ast.Subscript) and isinstance(tgt.slice, ast.Name)]
    skip: set[str] | None = None
    for st in emit:
        keyvar = st.targets[0].slice.id

        def classify(t: ast.AST):
            if isinstance(t, ast.Compare) and len(t.ops) == 1 and isinstance(t.ops[0], (ast.In, ast.NotIn)) and isinstance(t.left, ast.Name) and t.left.id == keyvar:
                coll = t.comparators[0]
                if isinstance(coll, ast.Name):
                    coll = ad.module.globals.get(coll.id, coll)
                elif isinstance(coll, ast.Attribute) and ad.cls is not None:
                    coll = ad.cls.attrs.get(coll.attr, coll)
                if isinstance(coll, ast.Call) and unparse(coll.func) in ("frozenset", "set", "tuple") and coll.args:
                    coll = coll.args[0]
                if isinstance(coll, (ast.Tuple, ast.List, ast.Set)) and all(isinstance(e, ast.Constant) for e in coll.elts):
                    return frozenset(unparse(e) for e in coll.elts), isinstance(t.ops[0], ast.In)
                return None
            return key_test(t, lambda e: isinstance(e, ast.Name) and e.id == keyvar)

        d = Dispatch(ad.node, classify=classify)
        node = d.g.node_of(st)
        mine: set[str] = set()
        for k in d.keys:
            try:
                lit = ast.literal_eval(k)
            except Exception:  # noqa: BLE001
                continue
            if isinstance(lit, str) and node is not None and node.id not in {n.id for n in d.under(k)}:
                mine.add(lit)
        skip = mine if skip is None else (skip & mine)
    return skip or set()


def _mentions_id_field(e: ast.AST) -> bool:
    for n in ast.walk(e):
        if isinstance(n, ast.Attribute) and n.attr in ID_FIELDS:
            # x.restrictions.sequence / x.ref / tp.reference
            if n.attr in ("choice", "group", "sequence") and not (isinstance(n.value, ast.Attribute) and n.value.attr == "restrictions" or isinstance(n.value, ast.Name) and n.value.id in ("self", "restrictions", "res", "a_res", "e_res")):
                continue
            return True
        if isinstance(n, ast.Name) and n.id == "get_restriction_sequence":
            return True
    return False


def _id_use_ok(f: FuncInfo, call: ast.AST, depth: int = 0) -> tuple[bool, str]:
    """Admissible contexts of an id() value (the call itself, or a local that holds it)."""
    fn = f.node
    for n in walk_no_nested(fn):
        # stored into an identity field / keyword
        if isinstance(n, ast.Assign) and n.value is call:
            tgt = n.targets[0]
            if isinstance(tgt, ast.Attribute) and tgt.attr in ("reference", "choice"):
                return True, "stored in an identity field"
            if isinstance(tgt, ast.Name) and depth < 3:
                # a local temporary: every later use of it must be admissible itself
                uses = [x for x in walk_no_nested(fn) if isinstance(x, ast.Name) and x.id == tgt.id and isinstance(x.ctx, ast.Load)]
                bad = [why for ok, why in (_id_use_ok(f, u, depth + 1) for u in uses) if not ok]
                if uses and not bad:
                    return True, "held in a local that only flows into identity fields / equality tests"
                return False, bad[0] if bad else "address held in an unused local"
        if isinstance(n, ast.keyword) and n.value is call and n.arg in ("reference", "choice"):
            return True, "identity keyword"
        if isinstance(n, ast.Dict) and call in n.values:
            k = n.keys[n.values.index(call)]
            if isinstance(k, ast.Constant) and k.value in ("choice",):
                return True, "identity entry"
        if isinstance(n, ast.Return) and n.value is call and f.name == "ref":
            return True, "the ref property"
        if isinstance(n, ast.Compare) and (n.left is call or call in n.comparators) and all(isinstance(o, (ast.Eq, ast.NotEq, ast.In, ast.NotIn, ast.Is, ast.IsNot)) for o in n.ops):
            return True, "equality"
        if isinstance(n, ast.SetComp) and n.elt is call:
            return True, "identity set"
        if isinstance(n, ast.Tuple) and call in n.elts and len(n.elts) == 4:
            return True, "path tuple (consumed by CalculateAttributePaths into identity fields)"
    return False, "an object address flows somewhere other than an identity field / equality test"


@rule("C12.R3")
def sorted_source_listings(ctx: Ctx) -> None:
    """Directory listings reach order-sensitive use only through sorted()."""
    n = 0
    for f in ctx.repo.funcs_in(*SCOPE):
        for c in calls_in(f.node):
            if isinstance(c.func, ast.Attribute) and c.func.attr in ("glob", "rglob", "iterdir") or unparse(c.func) in ("os.listdir", "os.scandir", "os.walk", "glob.glob"):
                n += 1
                fq = f.qual.split(":")[1]
                if fq == "resolve_source":
                    continue  # its one consumer, cli.generate, is checked below: what reaches the transformer is sorted
                else:
                    ctx.ob(f"{fq}: {unparse(c)[:40]} result is sorted before use", _parent_call(f.node, c) is not None and unparse(_parent_call(f.node, c).func) == "sorted", at=f, node=c, msg="unsorted directory listing")
    ctx.floor("directory listing sites", n, 1)
    tr = ctx.repo.func("xsdata.cli:generate")
    gtr = build_cfg(tr.node)
    procs = [(n, c) for n in gtr.stmts() for c in node_calls(n) if isinstance(c.func, ast.Attribute) and c.func.attr == "process" and c.args]

    def _sorted_listing(n, e: ast.expr) -> bool:
        """The value is the sorted result of resolve_source(...): `sorted(resolve_source(..))`, or a list built from it and sorted in
        place (`.sort()` on every path, after its last assignment) - through temporaries."""
        fl = flows(tr, n, e)
        def from_listing(x: ast.expr) -> bool:
            if any(isinstance(y, ast.Call) and call_name_of(y) == "resolve_source" for y in ast.walk(x)):
                return True
            return any(isinstance(y, ast.Call) and call_name_of(y) == "resolve_source" for src in value_sources(tr, n, x) for y in ast.walk(src))

        if fl and all(isinstance(leaf, ast.Call) and call_name_of(leaf) == "sorted" and from_listing(leaf) for leaf, _ in fl):
            return True
        if isinstance(e, ast.Name):
            sorts = [m for m in gtr.stmts() for c2 in node_calls(m) if isinstance(c2.func, ast.Attribute) and c2.func.attr == "sort" and isinstance(c2.func.value, ast.Name) and c2.func.value.id == e.id]
            defs_ = [chain[0] for _, chain in fl if chain]
            return bool(sorts) and bool(fl) and all(from_listing(leaf) for leaf, _ in fl) and gtr.must_pass(gtr.entry, n.id, [m.id for m in sorts]) and all(
                any(m.id in gtr.reachable([d.id]) for m in sorts) and not any(d.id in gtr.reachable([m.id]) for m in sorts) for d in defs_)
        return False

    ok = bool(procs) and all(_sorted_listing(n, c.args[0]) for n, c in procs)
    ctx.ob("cli.generate hands the transformer the SORTED listing of resolve_source (glob order is file-system dependent)", ok, at=tr, construct="sorted list used",
           msg="source order follows the directory listing: class merge / naming order differs between machines")


NONDET = ("datetime.datetime.now", "datetime.now", "datetime.today", "datetime.date.today", "time.time", "time.monotonic", "random.", "uuid.", "os.getpid", "os.environ", "os.getenv", "secrets.")


@rule("C12.R4")
def clock_random_environment(ctx: Ctx) -> None:
    """No clock / randomness / environment value reaches generated text."""
    n = 0
    for f in ctx.repo.funcs_in(*SCOPE):
        for c in calls_in(f.node):
            txt = unparse(c.func)
            if any(txt == p or (p.endswith(".") and txt.startswith(p)) for p in NONDET):
                n += 1
                ctx.ob(f"{f.qual.split(':')[1]}: {txt}() does not reach generated output", False, at=f, node=c, construct=f"nondeterministic source {txt}",
                       msg="the current time is rendered into the generated file header: two runs produce different bytes")
        for node in walk_no_nested(f.node):
            if isinstance(node, ast.Attribute) and unparse(node) == "os.environ":
                n += 1
                ctx.ob(f"{f.qual.split(':')[1]}: os.environ is not consulted", False, at=f, node=node, msg="environment dependent output")
    rh = ctx.repo.func("xsdata.formats.mixins:AbstractGenerator.render_header")
    g = build_cfg(rh.node)
    now = [x for x in g.stmts() if any("now" in unparse(c.func) for c in node_calls(x))]
    tabs = [reach_table(rh, x, [{"self.config.output.include_header": True}], raw=True) for x in now]
    if now and all(tb is not None for tb in tabs):
        ctx.ob("the timestamped header is emitted only when config.output.include_header is enabled (off by default)", all(tb == {(True,): True, (False,): False} for tb in tabs), at=rh, construct="header opt-in",
               msg="timestamp emitted unconditionally")
    elif not now:
        ctx.ob("the generated header carries no timestamp", True, at=rh, construct="header opt-in")
    cfg = ctx.repo.cls("xsdata.models.config:GeneratorOutput")
    d = cfg.attrs.get("include_header")
    ok = d is not None and ("False" in unparse(d))
    ctx.ob("include_header defaults to False", ok, at=rh.module, node=d, construct="header default", msg="timestamped header on by default")
    ctx.note("C12.R4 sources", n)


@rule("C12.R5")
def renumbering_is_last(ctx: Ctx) -> None:
    """ResetAttributeSequenceNumbers runs after every processor that writes restrictions.sequence; designators do not write it."""
    init, order = processor_table(ctx)
    if order is None:
        ctx.note("C12.R5 processor table", "form not recognised: schedule obligations have no instance")
        order = []
    names = [n for _, n in order]
    if order:
        ctx.ob("ResetAttributeSequenceNumbers is the last processor of the last step", names[-1] == "ResetAttributeSequenceNumbers" and order[-1][0] == "Steps.FINALIZE", at=init, construct="renumbering last",
               msg=f"processor order ends with {names[-3:]}: a later processor can introduce raw sequence ids")
    # writers of restrictions.sequence among handlers
    writers = set()
    for f in ctx.repo.funcs_in("xsdata.codegen.handlers", "xsdata.codegen.utils", "xsdata.codegen.models"):
        for st, tgt, v in stores(f.node):
            if isinstance(tgt, ast.Attribute) and tgt.attr == "sequence" and not (isinstance(v, ast.Constant) and v.value is None):
                if f.cls is not None:
                    writers.add(f.cls.name)
    sched = {n: i for i, n in enumerate(names)}
    designators = ("MergeDuplicateClasses", "RenameDuplicateClasses", "ValidateReferences", "DesignateClassPackages")
    for w in sorted(writers):
        if w in sched:
            ctx.ob(f"{w} (writes restrictions.sequence) is scheduled before the renumbering", w == "ResetAttributeSequenceNumbers" or sched[w] < sched.get("ResetAttributeSequenceNumbers", -1), at=init,
                   construct=f"schedule {w}", msg="writes sequence after the renumbering")
        elif w in designators:
            ctx.ob(f"designator {w} does not write restrictions.sequence", False, at=init, construct=f"designator {w}", msg="designators run after the renumbering")
    steps = ctx.repo.cls("xsdata.codegen.container:Steps")
    vals = {k: v.value for k, v in steps.attrs.items() if isinstance(v, ast.Constant)}
    ctx.ob("steps are ordered UNGROUP < FLATTEN < SANITIZE < RESOLVE < CLEANUP < FINALIZE", [vals.get(k) for k in ("UNGROUP", "FLATTEN", "SANITIZE", "RESOLVE", "CLEANUP", "FINALIZE")] == sorted(vals.values()) and len(vals) == 6, at=init,
           construct="step order", msg=f"step values {vals}")
    pr, seq = step_sequence(ctx)
    if seq is not None:
        ctx.ob("process() runs the steps in increasing order and designates last", seq == ["Steps.UNGROUP", "Steps.FLATTEN", "Steps.SANITIZE", "Steps.RESOLVE", "Steps.CLEANUP", "Steps.FINALIZE"] and _designate_last(pr), at=pr, construct="process order", msg=f"order {seq}")


def _designate_last(pr: FuncInfo) -> bool:
    g = build_cfg(pr.node)
    fin = [n for n in g.stmts() if any(unparse(c.func) == "self.process_classes" for c in node_calls(n))]
    des = [n for n in g.stmts() if any(unparse(c.func) == "self.designate_classes" for c in node_calls(n))]
    return len(des) == 1 and bool(fin) and all(g.must_pass(g.entry, des[0].id, [f.id]) and f.id not in g.reachable([des[0].id]) for f in fin)


@rule("C12.R6")
def routes_agree(ctx: Ctx) -> None:
    """CLI option names are built with the separator the CLI reverses; config read and write use the same context; unset options do not override the file."""
    gen = ctx.repo.func("xsdata.cli:generate")
    rep = [c for c in walk_no_nested(gen.node) if isinstance(c, ast.Call) and call_name_of(c) == "replace" and [unparse(a) for a in c.args] == ["'__'", "'.'"]]
    comps = [x for x in walk_no_nested(gen.node) if isinstance(x, ast.DictComp) and any(r in list(ast.walk(x.key)) for r in rep)]
    ok = bool(comps) and all(len(x.generators) == 1 and [A(unparse(i)) for i in x.generators[0].ifs] == [A(f"{unparse(x.value)} is not None")] for x in comps)
    if not comps:
        # loop form: params[key.replace("__", ".")] = value  under  `value is not None` (and nothing else)
        sts = [st for st, tgt, v in stores(gen.node) if isinstance(tgt, ast.Subscript) and any(r in list(ast.walk(tgt.slice)) for r in rep)]
        def _is_none_test(t) -> bool:
            e = t.ast
            return isinstance(e, ast.Compare) and len(e.ops) == 1 and isinstance(e.ops[0], (ast.Is, ast.IsNot)) and any(isinstance(x, ast.Constant) and x.value is None for x in (e.left, e.comparators[0]))

        ok = bool(sts) and all(all(_is_none_test(t) for _, _, t in control_deps(gen, st)) and none_cond(control_deps(gen, st), want_none=False) for st in sts)
    ctx.ob("cli.generate maps option names back with k.replace('__', '.') and drops unset (None) options", ok, at=gen, construct="option mapping",
           msg="flags and config file disagree")
    gg = build_cfg(gen.node)
    reads = [n for n in gg.stmts() if any(unparse(c.func) == "GeneratorConfig.read" for c in node_calls(n))]
    upd = [n for n in gg.stmts() if any(isinstance(c.func, ast.Attribute) and c.func.attr == "update" and unparse(c.func.value).endswith(".output") and any(k.arg is None for k in c.keywords) for c in node_calls(n))]
    ctx.ob("cli.generate applies the options on top of the config file", bool(reads) and bool(upd) and all(gg.must_pass(gg.entry, u.id, [r.id for r in reads]) for u in upd), at=gen, construct="options override file", msg="route changed")
    # the options applied late (CLI route: output.update(**params)) pass the same conflict resolution as the constructor / config-file route
    out_cls = ctx.repo.cls("xsdata.models.config:GeneratorOutput")
    post, upd_m = out_cls.methods.get("__post_init__"), out_cls.methods.get("update")
    if post is not None and upd_m is not None:
        ctor_validators = {func_text(post, c) for c in calls_in(post.node) if call_name_of(c) == "validate"}
        # nested option groups validate themselves when they are constructed (config-file / constructor route): the late route must re-run those too
        for fname, ann in out_cls.ann.items():
            tname = unparse(ann).strip("'\"") if not isinstance(ann, str) else ann
            sub = ctx.repo.classes.get(f"xsdata.models.config:{tname}")
            sp = sub.methods.get("__post_init__") if sub is not None else None
            if sp is not None and any(call_name_of(c) == "validate" and func_text(sp, c) == "self.validate" for c in calls_in(sp.node)):
                ctor_validators.add(f"self.{fname}.validate")
        gu = build_cfg(upd_m.node)
        applied = [n for n in gu.stmts() if any(func_text(upd_m, c) == "objects.update" for c in node_calls(n))]
        after: set[str] = set()
        by_text: dict[str, list[int]] = {}
        for n in gu.stmts():
            for c in node_calls(n):
                if call_name_of(c) == "validate" and isinstance(c.func, ast.Attribute):
                    for t in value_texts(upd_m, n, c.func.value):
                        by_text.setdefault(f"{t}.validate", []).append(n.id)
        for t, ids in by_text.items():
            if applied and all(gu.must_pass(a.id, gu.exit, ids, normal_only=True) for a in applied):
                after.add(t)
        for v in sorted(ctor_validators):
            ctx.ob(f"GeneratorOutput.update re-runs {v}() - the conflict resolution the constructor route (__post_init__) applies", v in after, at=upd_m, construct=f"late options {v}",
                   msg="options given on the command line are applied through update() and skip this validation, while the same options in a config file / constructor pass it: "
                       "--frozen --generic-collections keeps generic_collections=True on the CLI route and reverts it on the file route (different generated code)")
    bo = ctx.repo.func_opt("xsdata.utils.click:build_options")
    if bo is None:
        raise AnalysisError("C12.R6: utils.click.build_options vanished")
    src = unparse(bo.node)
    ctx.ob("build_options names nested options with '__' between path components", "'__'.join(" in src, at=bo, construct="option separator", msg="separator differs from the one the CLI reverses")
    cfg = ctx.repo.cls("xsdata.models.config:GeneratorConfig")
    rd, wr = cfg.methods.get("read"), cfg.methods.get("write")
    def ctx_args(m):
        for c in calls_in(m.node):
            if unparse(c.func) == "XmlContext":
                return sorted(f"{k.arg}={unparse(k.value)}" for k in c.keywords)
        return None
    ctx.ob("GeneratorConfig.read and .write build their XmlContext with the same name generators", rd is not None and wr is not None and ctx_args(rd) == ctx_args(wr) and ctx_args(rd) is not None, at=rd or gen,
           construct="config context", msg=f"{ctx_args(rd) if rd else None} vs {ctx_args(wr) if wr else None}")


@rule("C12.R7")
def no_state_survives_a_run(ctx: Ctx) -> None:
    """No class-level / module-level mutable container of the generator is written by its methods (state that outlives one generation makes output history dependent)."""
    n = 0
    scope = [c for c in ctx.repo.classes.values() if c.module.name.startswith(("xsdata.codegen", "xsdata.formats.dataclass.generator", "xsdata.formats.dataclass.filters", "xsdata.formats.mixins"))]
    for ci in scope:
        mutable = {name for name, v in ci.attrs.items() if isinstance(v, (ast.Dict, ast.List, ast.Set)) or (isinstance(v, ast.Call) and unparse(v.func) in ("dict", "list", "set", "defaultdict"))}
        if not mutable:
            continue
        for m in ci.methods.values():
            for st, tgt, v in stores(m.node):
                base = tgt
                while isinstance(base, ast.Subscript):
                    base = base.value
                if isinstance(tgt, ast.Subscript) and isinstance(base, ast.Attribute) and base.attr in mutable and isinstance(base.value, ast.Name) and base.value.id in ("self", "cls", ci.name):
                    n += 1
                    ctx.ob(f"{ci.name}.{m.name}: class-level container `{base.attr}` is not written at run time", ci.name == "CodeWriter" and m.name == "register_generator", at=m, node=st,
                           msg="a class attribute shared by every instance is used as a cache: it survives the generator run, so a later generation in the same process (other config) reuses its entries")
            for c in calls_in(m.node):
                f = c.func
                if isinstance(f, ast.Attribute) and f.attr in ("append", "extend", "update", "setdefault", "add", "pop", "clear", "insert", "remove") and isinstance(f.value, ast.Attribute) \
                        and f.value.attr in mutable and isinstance(f.value.value, ast.Name) and f.value.value.id in ("self", "cls", ci.name):
                    n += 1
                    ctx.ob(f"{ci.name}.{m.name}: class-level container `{f.value.attr}` is not mutated at run time", ci.name == "CodeWriter" and m.name in ("register_generator", "unregister_generator"), at=m, node=c,
                           msg="process-lifetime state in the generator")
    lru = [f.qual for f in ctx.repo.funcs_in("xsdata.codegen", "xsdata.formats.dataclass.generator", "xsdata.formats.dataclass.filters") if any("lru_cache" in d or d.endswith(".cache") or d == "cache" for d in f.decorators)]
    ctx.ob("no function of the generator proper is memoised across runs", not lru, at=ctx.repo.module("xsdata.codegen.container"), construct="generator memo functions", msg=f"memoised: {lru}")
    ctx.note("C12.R7 class-level container writes", n)


@rule("C12.R8")
def cache_holds_the_parsed_classes(ctx: Ctx) -> None:
    """ResourceTransformer.process pickles self.classes for the sources cache BEFORE the analyser runs: the analyser rewrites the very
    objects in self.classes in place (and stores id()-based references in them), so a cache written afterwards makes the second run differ."""
    pr = ctx.repo.func("xsdata.codegen.transformer:ResourceTransformer.process")
    g = build_cfg(pr.node)
    dumps = [n for n in g.stmts() for c in node_calls(n) if call_name_of(c) in ("dumps", "dump") and c.args and "self.classes" in value_texts(pr, n, c.args[0])]
    loads = [n for n in g.stmts() for c in node_calls(n) if call_name_of(c) in ("loads", "load")]
    proc = [n for n in g.stmts() for c in node_calls(n) if func_text(pr, c) in ("self.process_classes", "self.analyze_classes")]
    if not dumps or not proc:
        ctx.abstain("cache write / analysis calls of ResourceTransformer.process", at=pr)
        return
    for d in dumps:
        ctx.ob("the sources cache is written before process_classes() (never after the analyser mutated the classes)", not any(d.id in g.reachable([p.id]) for p in proc), at=pr, node=d.ast, construct="cache before analysis",
               msg="pickle.dumps(self.classes) can run after process_classes(): the cached classes are already flattened / renamed and carry references of a dead process - the next run with --cache fails or differs")
    for ld in loads:
        ctx.ob("a cached class list is loaded before process_classes()", all(p.id in g.reachable([ld.id]) and ld.id not in g.reachable([p.id]) for p in proc), at=pr, node=ld.ast, construct="cache load before analysis", msg="cache loaded after analysis")


@rule("C12.R9")
def scc_ignores_edges_into_finished_components(ctx: Ctx) -> None:
    """strongly_connected_components (path-based): an edge to a vertex that was visited before merges boundaries only if that vertex is still
    open - a second membership test (finished / on-stack) beside `w not in index` guards the boundary pops.  Without it components of
    unrelated classes are merged depending on the (hash-ordered) visiting order: which classes share a module changes with the hash seed."""
    from ..q import callable_info

    fn = ctx.repo.func("xsdata.utils.graphs:strongly_connected_components")
    scopes = [fn] + [ci[0] for n in ast.walk(fn.node) if isinstance(n, ast.FunctionDef) and n is not fn.node for ci in [callable_info(ctx.repo, fn, ast.Name(id=n.name, ctx=ast.Load()))] if ci]
    found = 0
    for fi in scopes:
        g = build_cfg(fi.node)
        for n in g.nodes:
            pops = [c for c in node_calls(n)] if n.kind in ("stmt",) else []
            if not any(isinstance(c.func, ast.Attribute) and c.func.attr == "pop" and not c.args for c in pops):
                continue
            if n.id not in g.reachable([m for m, _ in g.succ[n.id]]):
                continue  # not inside a loop
            # pops inside the loop over the successors of a vertex: which membership tests decide them?
            members = {t.id: t for _, _, t in control_deps(fi, n) if isinstance(t.ast, ast.Compare) and len(t.ast.ops) == 1 and isinstance(t.ast.ops[0], (ast.In, ast.NotIn))}
            if not members:
                continue
            found += 1
            containers = {ast.unparse(t.ast.comparators[0]) for t in members.values()}
            ctx.ob("SCC: boundary pops for a non-tree edge are guarded by a second membership test (vertex not finished / still on the stack)", len(containers) >= 2, at=fn, node=n.ast, construct="scc cross edge guard",
                   msg=f"only {sorted(containers)} is consulted: an edge into an already emitted component pops boundaries of the current path")
    if not found:
        ctx.abstain("boundary pops of strongly_connected_components", at=fn)
