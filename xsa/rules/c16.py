"""C16 (DTD mapping tables), C17 (SOAP client wiring), C18 (python-code rendering) - dispatch, wiring and emission clauses."""

from __future__ import annotations

import ast

from ..cfg import build_cfg, calls_in, node_calls
from ..core import Ctx, property_info, rule, share
from ..model import AnalysisError, FuncInfo, walk_no_nested
from ..q import A, MUTATORS, asrc, enum_members, is_self_attr, kwarg, root_name, stores, unparse

DM = "xsdata.codegen.mappers.dtd"
DP = "xsdata.codegen.parsers.dtd"
CL = "xsdata.formats.dataclass.client"
PC = "xsdata.formats.dataclass.serializers.code"

property_info(
    "C16",
    explanation="Decides dispatch and spec-table clauses of the DTD mapper: every if/elif chain over a Dtd* enum is total; the occurrence table and the "
    "attribute-default table equal XML 1.0 (3.2, 3.3); every DTD attribute type maps to a known datatype code; xmlns attributes are turned into "
    "namespace bindings of a per-element map and removed from the attribute list; choice groups get a truthy unique identifier.",
    decides="enum-dispatch totality, branch-wise constant extraction vs the XML 1.0 tables, type-code table membership, per-element freshness of the namespace map",
    not_decided="that DTD-valid documents round-trip through the generated classes (needs running the generator and parser)",
)
property_info(
    "C17",
    explanation="Decides only the client wiring clause of C17: Client.send posts exactly the prepared payload and headers to config.location and parses the "
    "response into config.output; prepare_headers copies the caller's headers and sets content-type / SOAPAction as the binding prescribes; prepare_payload "
    "type-checks against config.input; Config.from_service reads exactly the Config fields. WSDL part selection compares whole names.",
    decides="def-use wiring of Client.send / prepare_headers / prepare_payload, header table, config vocabulary, exact part-name selection",
    not_decided="everything about generation for arbitrary WSDL definitions (operations, messages, envelopes, faults are runtime data of the mapper)",
)
property_info(
    "C18",
    explanation="Decides emission clauses of the code serializer: every visited value registers its type before anything is emitted; emitted heads (models, "
    "enums) are rooted at the name build_imports imports; container delimiters follow the container kind; module-qualified reprs get an `import module`; "
    "the library's own __repr__s use __qualname__; the serializer keeps no cross-call caches.",
    decides="dominance of type registration, agreement between emitted names and imported names, totality over container kinds, import form per repr head",
    not_decided="equality of the evaluated object for all values (NaN, user-defined __repr__)",
)

# --------------------------------------------------------------------------------------- C16


def _enum_chain(fi: FuncInfo, enum_name: str) -> tuple[dict[str, list[ast.stmt]], list[ast.stmt] | None, ast.If | None]:
    """First if/elif chain in fi whose tests compare something with members of enum_name."""
    for n in walk_no_nested(fi.node):
        if isinstance(n, ast.If) and f"{enum_name}." in unparse(n.test):
            out: dict[str, list[ast.stmt]] = {}
            chain = n
            first = n
            while True:
                for x in ast.walk(chain.test):
                    if isinstance(x, ast.Attribute) and isinstance(x.value, ast.Name) and x.value.id == enum_name:
                        out[x.attr] = chain.body
                if len(chain.orelse) == 1 and isinstance(chain.orelse[0], ast.If) and f"{enum_name}." in unparse(chain.orelse[0].test):
                    chain = chain.orelse[0]
                    continue
                return out, (chain.orelse or None), first
    return {}, None, None


def _consts(body: list[ast.stmt]) -> dict[str, str]:
    out = {}
    for st in body:
        for sub in [st, *walk_no_nested(st)]:
            if isinstance(sub, ast.Assign) and len(sub.targets) == 1:
                out[unparse(sub.targets[0])] = unparse(sub.value)
    return out


@rule("C16.R1")
def enum_dispatch_totality(ctx: Ctx) -> None:
    """Every if/elif chain of the DTD mapper over a Dtd* enum handles all members (or has an else for exactly the rest)."""
    specs = [("build_occurs", "DtdContentOccur", 1, None), ("build_content", "DtdContentType", 1, None), ("build_attribute_restrictions", "DtdAttributeDefault", None, None),
             ("build_elements", "DtdElementType", 0, {"EMPTY", "UNDEFINED"})]
    for fn, enum_name, else_rest, partial_ok in specs:
        fi = ctx.repo.func(f"{DM}:DtdMapper.{fn}")
        members = set(enum_members(ctx.repo.cls(f"xsdata.models.dtd:{enum_name}").node))
        handled, orelse, first = _enum_chain(fi, enum_name)
        if first is None:
            raise AnalysisError(f"C16.R1: no {enum_name} dispatch in {fn} (anchor vanished)")
        missing = members - set(handled)
        if partial_ok is not None:
            ok = missing == partial_ok and orelse is None
            why = f"unhandled members {sorted(missing)} (deliberately content-less: {sorted(partial_ok)})"
        elif fn == "build_attribute_restrictions":
            # REQUIRED / IMPLIED / FIXED explicit; NONE is split by 'default_value is not None' / else
            ok = missing == {"NONE"} and orelse is not None
            why = f"unhandled members {sorted(missing)}"
        else:
            ok = len(missing) == else_rest and (orelse is not None) == (else_rest > 0)
            why = f"unhandled members {sorted(missing)}, else branch {'present' if orelse else 'absent'}"
        ctx.ob(f"{fn}: dispatch over {enum_name} is total", ok, at=fi, node=first, construct=f"{fn} dispatch {enum_name}", msg=why)
    # the parser converts lxml's strings through the enums (a new lxml kind fails loudly instead of being mis-mapped)
    for fn, enums in (("build_element", ["DtdElementType"]), ("build_content", ["DtdContentOccur", "DtdContentType"]), ("build_attribute", ["DtdAttributeType", "DtdAttributeDefault"])):
        fi = ctx.repo.func(f"{DP}:DtdParser.{fn}")
        for e in enums:
            ctx.ob(f"DtdParser.{fn} converts through {e}(...)", any(isinstance(c.func, ast.Name) and c.func.id == e for c in calls_in(fi.node)), at=fi, construct=f"{fn} {e}", msg="raw lxml value kept")


@rule("C16.R2")
def occurrence_table(ctx: Ctx) -> None:
    """build_occurs equals the XML 1.0 occurrence table; an OR group adds min_occurs = 0 and a truthy, per-group choice identifier."""
    fi = ctx.repo.func(f"{DM}:DtdMapper.build_occurs")
    handled, orelse, _ = _enum_chain(fi, "DtdContentOccur")
    spec = {"ONCE": ("1", "1"), "OPT": ("0", "1"), "MULT": ("0", "sys.maxsize"), "PLUS": ("1", "sys.maxsize")}
    got = {k: _consts(v) for k, v in handled.items()}
    if orelse:
        rest = set(spec) - set(handled)
        if len(rest) == 1:
            got[rest.pop()] = _consts(orelse)
    for k, (lo, hi) in spec.items():
        c = got.get(k, {})
        ctx.ob(f"occurrence {k} -> ({lo}, {hi})", (c.get("min_occurs"), c.get("max_occurs")) == (lo, hi), at=fi, construct=f"occurs {k}", msg=f"mapped to ({c.get('min_occurs')}, {c.get('max_occurs')})")
    ret = [r for r in walk_no_nested(fi.node) if isinstance(r, ast.Return)]
    ctx.ob("build_occurs returns {'min_occurs': min_occurs, 'max_occurs': max_occurs}", len(ret) == 1 and A(unparse(ret[0].value)) == A("{'min_occurs': min_occurs, 'max_occurs': max_occurs}"), at=fi, construct="occurs result",
           msg="result keys swapped or renamed")
    bc = ctx.repo.func(f"{DM}:DtdMapper.build_content")
    handled, orelse, _ = _enum_chain(bc, "DtdContentType")
    body = handled.get("OR", [])
    upd = [c for st in body for c in calls_in(st) if isinstance(c.func, ast.Attribute) and c.func.attr == "update" and c.args and isinstance(c.args[0], ast.Dict)]
    d = {unparse(k): v for c in upd for k, v in zip(c.args[0].keys, c.args[0].values)}
    ok_choice = "'choice'" in d and isinstance(d["'choice'"], ast.Call) and unparse(d["'choice'"].func) == "id"
    ctx.ob("an OR group tags its members with choice = id(<the group>) (unique per group and never falsy)", ok_choice, at=bc, construct="choice id",
           msg=f"choice identifier is {unparse(d["'choice'"]) if "'choice'" in d else None}: a 0 / shared identifier makes CreateCompoundFields skip or merge the group (element order lost)")
    ctx.ob("an OR group makes its members optional (min_occurs = 0)", "'min_occurs'" in d and unparse(d["'min_occurs'"]) == "0", at=bc, construct="choice optional", msg="choice members required")
    a = asrc(bc)
    ctx.ob("outer kwargs (an enclosing choice) override the group's own parameters and are passed down to both subtrees", A("_.update(**_);cls.build_content_tree(_,_,**_)") in a, at=bc, construct="choice nesting", msg="nested groups lose the enclosing choice")
    bt = ctx.repo.func(f"{DM}:DtdMapper.build_content_tree")
    ctx.ob("build_content_tree visits left then right", A("if_.left:;cls.build_content(_,_.left,**_);if_.right:;cls.build_content(_,_.right,**_)") in asrc(bt), at=bt, construct="tree order", msg="child order changed")
    be = ctx.repo.func(f"{DM}:DtdMapper.build_element")
    ctx.ob("each element attr gets a clone of the restrictions and the next index", A("restrictions=_.clone()") in asrc(be) and A("_.index=len(_.attrs);_.attrs.append(_)") in asrc(be), at=be, construct="element attr", msg="restrictions shared / index wrong")


@rule("C16.R3")
def attribute_default_table(ctx: Ctx) -> None:
    """build_attribute_restrictions equals the XML 1.0 attribute-default table."""
    fi = ctx.repo.func(f"{DM}:DtdMapper.build_attribute_restrictions")
    handled, orelse, first = _enum_chain(fi, "DtdAttributeDefault")
    got = {k: _consts(v) for k, v in handled.items()}
    ctx.ob("#REQUIRED -> min_occurs 1", got.get("REQUIRED", {}).get("attr.restrictions.min_occurs") == "1", at=fi, construct="REQUIRED", msg=str(got.get("REQUIRED")))
    ctx.ob("#IMPLIED -> min_occurs 0", got.get("IMPLIED", {}).get("attr.restrictions.min_occurs") == "0", at=fi, construct="IMPLIED", msg=str(got.get("IMPLIED")))
    fx = got.get("FIXED", {})
    ctx.ob("#FIXED -> fixed, required, default = declared value", fx.get("attr.fixed") == "True" and fx.get("attr.default") == "default_value" and fx.get("attr.restrictions.min_occurs") == "1", at=fi, construct="FIXED", msg=str(fx))
    # declared default (no keyword): default set; otherwise optional
    g = build_cfg(fi.node)
    dv = [t for t in g.nodes if t.kind == "test" and A(unparse(t.ast)) == A("default_value is not None")]
    sets = [g.node_of(st) for st, tgt, v in stores(fi.node) if unparse(tgt) == "attr.default" and unparse(v) == "default_value"]
    ok = bool(dv) and len(sets) == 2 and any(s is not None and g.only_if(s.id, dv[0].id, True) for s in sets)
    ctx.ob("a declared default value is materialised as the attr default", ok, at=fi, construct="declared default", msg="declared defaults dropped")
    mx = [st for st, tgt, v in stores(fi.node) if unparse(tgt) == "attr.restrictions.max_occurs" and unparse(v) == "1"]
    ctx.ob("attributes occur at most once", len(mx) == 1 and g.must_pass(g.entry, g.exit, [g.node_of(mx[0]).id]), at=fi, construct="max_occurs 1", msg="max_occurs not 1 on every path")
    ba = ctx.repo.func(f"{DM}:DtdMapper.build_attribute")
    ctx.ob("build_attribute passes (attr, attribute.default, attribute.default_value)", A("cls.build_attribute_restrictions(_,_.default,_.default_value)") in asrc(ba), at=ba, construct="restriction args", msg="arguments swapped")
    ctx.ob("attribute namespace = target.ns_map.get(attribute.prefix)", A("namespace=_.ns_map.get(_.prefix)") in asrc(ba), at=ba, construct="attribute namespace", msg="attribute namespace resolved differently")


@rule("C16.R4")
def attribute_type_table(ctx: Ctx) -> None:
    """Every DtdAttributeType value except 'enumeration' is a DataType code (or cdata, the documented string default)."""
    at = ctx.repo.cls("xsdata.models.dtd:DtdAttributeType")
    dt = ctx.repo.cls("xsdata.models.enums:DataType")
    codes = set()
    for st in dt.node.body:
        if isinstance(st, ast.Assign) and isinstance(st.value, ast.Tuple) and isinstance(st.value.elts[0], ast.Constant):
            codes.add(str(st.value.elts[0].value).lower())
    for name, val in enum_members(at.node).items():
        if not isinstance(val, ast.Constant):
            continue
        v = val.value
        if v == "enumeration":
            continue
        ctx.ob(f"DTD attribute type {v!r} maps to a datatype", v.lower() in codes or v == "cdata", at=ctx.repo.module("xsdata.models.dtd"), node=val, construct=f"attr type {v}", msg="falls back to string silently")
    da = ctx.repo.cls("xsdata.models.dtd:DtdAttribute").methods["data_type"]
    ctx.ob("DtdAttribute.data_type looks the lower-cased type value up with DataType.from_code", A("returnDataType.from_code(self.type.value.lower())") in asrc(da), at=da, construct="data_type lookup", msg="type lookup changed")
    bt = ctx.repo.func(f"{DM}:DtdMapper.build_attribute_type")
    ctx.ob("enumerated attributes become a forward reference to an inner enumeration class", A("if_.type==DtdAttributeType.ENUMERATION:;cls.build_enumeration(_,_.name,_.values);returnAttrType(qname=_.name,forward=True)") in asrc(bt),
           at=bt, construct="enumeration type", msg="enumerations typed differently")


@rule("C16.R5")
def xmlns_attributes(ctx: Ctx) -> None:
    """DtdParser.build_ns_map builds a fresh map per element and removes every attribute it turns into a namespace binding."""
    fi = ctx.repo.func(f"{DP}:DtdParser.build_ns_map")
    g = build_cfg(fi.node)
    init = [(st, v) for st, tgt, v in stores(fi.node) if isinstance(tgt, ast.Name) and tgt.id == "ns_map"]
    fresh = len(init) == 1 and isinstance(init[0][1], (ast.Dict, ast.DictComp)) or (len(init) == 1 and isinstance(init[0][1], ast.Call) and unparse(init[0][1].func) in ("dict",) or
                                                                                     (len(init) == 1 and isinstance(init[0][1], ast.Call) and isinstance(init[0][1].func, ast.Attribute) and init[0][1].func.attr == "copy"))
    ctx.ob("build_ns_map starts every element from a freshly built dict", fresh, at=fi, node=init[0][0] if init else None, construct="fresh ns_map",
           msg="the map object is shared between elements (and between DTDs): the last xmlns declaration wins for all of them")
    sets = [(st, tgt) for st, tgt, v in stores(fi.node) if isinstance(tgt, ast.Subscript) and unparse(tgt.value) == "ns_map"]
    ctx.floor("xmlns binding stores", len(sets), 2)
    for st, tgt in sets:
        n = g.node_of(st)
        rem = [x for x in g.stmts() if any(unparse(c.func) == "attributes.remove" for c in node_calls(x))]
        # paired in the same branch: a remove is reachable from the store without another store in between, on every path to the loop head
        ok = any(r.id in [m for m, _ in g.succ[n.id]] for r in rem)
        ctx.ob(f"ns_map[{unparse(tgt.slice)}] = ... is followed by attributes.remove(attribute)", ok, at=fi, node=st, msg="the xmlns declaration stays in the attribute list and becomes a field")
    loop = [n for n in g.nodes if n.kind == "for"]
    ctx.ob("the attribute list is iterated over a copy while it is modified", bool(loop) and unparse(loop[0].ast.iter) in ("attributes.copy()", "list(attributes)", "attributes[:]"), at=fi, construct="iterate copy", msg="removal during iteration skips attributes")
    be = ctx.repo.func(f"{DP}:DtdParser.build_element")
    ctx.ob("build_element computes ns_map from the element's own prefix and attributes", A("_=cls.build_ns_map(_.prefix,_)") in asrc(be) and A("ns_map=_") in asrc(be), at=be, construct="element ns_map", msg="ns_map computed from other inputs")
    q = ctx.repo.cls("xsdata.models.dtd:DtdElement").methods["qname"]
    ctx.ob("DtdElement.qname = build_qname(ns_map.get(prefix), name)", A("_=self.ns_map.get(self.prefix);returnbuild_qname(_,self.name)") in asrc(q), at=q, construct="element qname", msg="element namespace resolved differently")


# --------------------------------------------------------------------------------------- C17


@rule("C17.R1")
def send_wiring(ctx: Ctx) -> None:
    """Client.send posts exactly prepare_payload(obj) with prepare_headers(...) to config.location and parses the response into config.output."""
    fi = ctx.repo.func(f"{CL}:Client.send")
    a = asrc(fi)
    ctx.ob("data = self.prepare_payload(obj)", A("_=self.prepare_payload(_)") in a, at=fi, construct="payload prepared", msg="payload not prepared from the request object")
    ctx.ob("headers = self.prepare_headers(headers or {})", A("_=self.prepare_headers(_or{})") in a, at=fi, construct="headers prepared", msg="headers not prepared")
    posts = [c for c in calls_in(fi.node) if unparse(c.func) == "self.transport.post"]
    ok = len(posts) == 1 and [unparse(x) for x in posts[0].args] == ["self.config.location"] and unparse(kwarg(posts[0], "data") or ast.Constant(0)) == "data" and unparse(kwarg(posts[0], "headers") or ast.Constant(0)) == "headers"
    ctx.ob("transport.post(config.location, data=<prepared payload>, headers=<prepared headers>)", ok, at=fi, node=posts[0] if posts else None, construct="post wiring", msg="posts something else than the prepared payload/headers")
    # data / headers are not reassigned between preparation and the post
    for name, prep in (("data", "prepare_payload"), ("headers", "prepare_headers")):
        sts = [st for st, tgt, v in stores(fi.node) if isinstance(tgt, ast.Name) and tgt.id == name]
        ctx.ob(f"`{name}` is assigned once, from {prep}()", len(sts) == 1 and prep in unparse(sts[0].value), at=fi, construct=f"{name} single assignment", msg=f"{name} modified after preparation")
    ret = [r for r in walk_no_nested(fi.node) if isinstance(r, ast.Return)]
    ctx.ob("returns parser.from_bytes(<response>, config.output)", len(ret) == 1 and A(anon(fi, ret[0].value)) == A("self.parser.from_bytes(_, self.config.output)"), at=fi, construct="response parsing", msg="response parsed into another class")


def anon(fi: FuncInfo, node: ast.AST) -> str:
    from ..model import anon_text

    return anon_text(node, fi.node)


@rule("C17.R2")
def header_table(ctx: Ctx) -> None:
    """prepare_headers copies the caller's headers, sets content-type and (if configured) SOAPAction for the SOAP transport, else raises."""
    fi = ctx.repo.func(f"{CL}:Client.prepare_headers")
    g = build_cfg(fi.node)
    res = [(st, v) for st, tgt, v in stores(fi.node) if isinstance(tgt, ast.Name) and v is not None and (unparse(v) in ("headers.copy()", "dict(headers)", "{**headers}"))]
    ctx.ob("the result starts as a copy of the caller's headers", len(res) == 1, at=fi, construct="headers copied", msg="the caller's dict is written into and returned: headers of one call leak into the next")
    name = unparse(res[0][0].targets[0]) if res else "result"
    bad = [unparse(tgt) for st, tgt, v in stores(fi.node) if isinstance(tgt, ast.Subscript) and root_name(tgt) == "headers"]
    ctx.ob("the caller's headers dict is never written", not bad, at=fi, construct="caller headers untouched", msg=f"writes {bad}")
    tt = [t for t in g.nodes if t.kind == "test" and A(unparse(t.ast)) == A("self.config.transport == TransportTypes.SOAP")]
    ct = [g.node_of(st) for st, tgt, v in stores(fi.node) if isinstance(tgt, ast.Subscript) and unparse(tgt.slice) == "'content-type'" and unparse(v) == "'text/xml'" and root_name(tgt) == name]
    sa = [g.node_of(st) for st, tgt, v in stores(fi.node) if isinstance(tgt, ast.Subscript) and unparse(tgt.slice) == "'SOAPAction'" and unparse(v) == "self.config.soap_action" and root_name(tgt) == name]
    at_ = [t for t in g.nodes if t.kind == "test" and unparse(t.ast) == "self.config.soap_action"]
    ctx.ob("SOAP transport: content-type text/xml", bool(tt) and len(ct) == 1 and g.only_if(ct[0].id, tt[0].id, True), at=fi, construct="content-type", msg="content-type header missing/other")
    ctx.ob("SOAPAction = config.soap_action exactly when one is configured", bool(at_) and len(sa) == 1 and g.only_if(sa[0].id, at_[0].id, True) and g.only_if(sa[0].id, tt[0].id, True), at=fi, construct="SOAPAction", msg="SOAPAction header wiring changed")
    rs = [n for n in g.stmts() if isinstance(n.ast, ast.Raise) and "ClientValueError" in unparse(n.ast)]
    ctx.ob("other transports raise ClientValueError", bool(tt) and len(rs) == 1 and g.only_if(rs[0].id, tt[0].id, False), at=fi, construct="unsupported transport", msg="unsupported transports accepted")
    rets = g.returns()
    ctx.ob("returns the copy", len(rets) == 1 and unparse(rets[0].ast.value) == name, at=fi, construct="returns copy", msg="returns another dict")
    tc = ctx.repo.cls(f"{CL}:TransportTypes")
    v = tc.attrs.get("SOAP")
    ctx.ob("TransportTypes.SOAP is the SOAP-over-HTTP transport URI", isinstance(v, ast.Constant) and v.value == "http://schemas.xmlsoap.org/soap/http", at=fi.module, node=v, construct="transport uri", msg="transport URI changed")


@rule("C17.R3")
def payload_typing(ctx: Ctx) -> None:
    """prepare_payload decodes dicts with config.input, type-checks against config.input and renders with the client's serializer."""
    fi = ctx.repo.func(f"{CL}:Client.prepare_payload")
    a = asrc(fi)
    ctx.ob("dict requests are decoded into config.input with the serializer's context", A("ifisinstance(_,dict):;_=DictDecoder(context=self.serializer.context);_=_.decode(_,self.config.input)") in a, at=fi, construct="dict decode", msg="dict requests decoded differently")
    g = build_cfg(fi.node)
    tt = [t for t in g.nodes if t.kind == "test" and A(unparse(t.ast)) == A("isinstance(obj, self.config.input)")]
    rs = [n for n in g.stmts() if isinstance(n.ast, ast.Raise) and "ClientValueError" in unparse(n.ast)]
    ctx.ob("a request that is not an instance of config.input raises ClientValueError", bool(tt) and len(rs) == 1 and g.only_if(rs[0].id, tt[0].id, False), at=fi, construct="input type check", msg="wrong request types are serialized")
    rend = [n for n in g.stmts() if any(unparse(c.func) == "self.serializer.render" for c in node_calls(n))]
    ctx.ob("the payload is self.serializer.render(obj), after the type check", len(rend) == 1 and bool(tt) and g.only_if(rend[0].id, tt[0].id, True), at=fi, construct="render", msg="rendered before/without the check")
    ctx.ob("the payload is encoded only when config.encoding is set", A("ifself.config.encoding:;return_.encode(self.config.encoding);return_") in a, at=fi, construct="payload encoding", msg="encoding handling changed")


@rule("C17.R4")
def config_vocabulary(ctx: Ctx) -> None:
    """Config.from_service reads exactly the dataclass fields of Config from the service class (kwargs override)."""
    cfg = ctx.repo.cls(f"{CL}:Config")
    fields_ = list(cfg.ann)
    need = ["style", "location", "transport", "soap_action", "input", "output"]
    ctx.ob("Config has the fields the generated service classes carry", all(f in fields_ for f in need), at=cfg.methods["from_service"], construct="config fields", msg=f"fields {fields_}")
    fs = cfg.methods["from_service"]
    ctx.ob("from_service: {f.name: kwargs[f.name] if f.name in kwargs else getattr(obj, f.name, None) for f in fields(cls)}",
           A("_={_.name:_[_.name]if_.namein_elsegetattr(_,_.name,None)for_infields(cls)};returncls(**_)") in asrc(fs), at=fs, construct="from_service", msg="service attributes read differently")
    tpl = ctx.repo.read("xsdata/formats/dataclass/templates/service.jinja2")
    ctx.ob("service.jinja2 renders one `name = value` line per service attribute", "{{ attr.name }} = " in tpl or "{{ attr.name|" in tpl, at=fs.module, construct="service template", msg="service template no longer renders the attributes")
    # WSDL part selection compares whole part names
    mp = ctx.repo.func("xsdata.codegen.mappers.definitions:DefinitionsMapper.map_binding_message_parts")
    g = build_cfg(mp.node)
    memb = [t for t in ast.walk(mp.node) if isinstance(t, ast.Compare) and isinstance(t.ops[0], (ast.In, ast.NotIn)) and unparse(t.left).endswith(".name") and unparse(t.comparators[0]) == "parts"]
    parts_assign = [v for st, tgt, v in stores(mp.node) if isinstance(tgt, ast.Name) and tgt.id == "parts" and v is not None]
    listy = bool(parts_assign) and all(isinstance(v, (ast.List, ast.ListComp, ast.Tuple, ast.Set)) or (isinstance(v, ast.Call) and (unparse(v.func) in ("list", "set", "tuple") or (isinstance(v.func, ast.Attribute) and v.func.attr == "split")))
                                       for v in parts_assign)
    ctx.ob("message parts are selected by membership in a collection of names (never a substring test on the raw attribute)", bool(memb) and listy, at=mp, node=memb[0] if memb else None, construct="part selection",
           msg="`part.name in <str>` is a substring test: part 'user' is selected by parts='userToken'")


# --------------------------------------------------------------------------------------- C18


@rule("C18.R1")
def types_registered_before_emission(ctx: Ctx) -> None:
    """In repr_object, types.add(type(obj)) dominates every emission and every child is emitted through repr_object."""
    fi = ctx.repo.func(f"{PC}:PycodeSerializer.repr_object")
    g = build_cfg(fi.node)
    reg = [n for n in g.stmts() if any(A(unparse(c)) == A("types.add(type(obj))") for c in node_calls(n))]
    ys = [n for n in g.stmts() if n.ast is not None and any(isinstance(x, (ast.Yield, ast.YieldFrom)) for x in [n.ast, *walk_no_nested(n.ast)]) and n.kind == "stmt"]
    ctx.ob("types.add(type(obj)) dominates every yield of repr_object", len(reg) == 1 and bool(ys) and all(g.must_pass(g.entry, y.id, [reg[0].id]) for y in ys), at=fi, construct="register first",
           msg="a value can be emitted without its type being imported")
    n = 0
    cls_ = ctx.repo.cls(f"{PC}:PycodeSerializer")
    for m in ("repr_array", "repr_mapping", "repr_model"):
        f = cls_.methods[m]
        for y in walk_no_nested(f.node):
            if isinstance(y, ast.YieldFrom):
                n += 1
                ctx.ob(f"{m}: children are emitted through self.repr_object(..., types)", isinstance(y.value, ast.Call) and unparse(y.value.func) == "self.repr_object" and unparse(y.value.args[-1]) == "types", at=f, node=y,
                       msg="a child value is formatted directly (its type is never imported)")
    ctx.floor("recursive emissions", n, 2)
    for m in ("repr_array", "repr_mapping", "repr_model"):
        f = cls_.methods[m]
        for y in walk_no_nested(f.node):
            if isinstance(y, ast.Yield) and y.value is not None:
                callsin = [c for c in ast.walk(y.value) if isinstance(c, ast.Call)]
                direct = [c for c in callsin if not (unparse(c) == "str(obj)")]
                ctx.ob(f"{m}: `yield {unparse(y.value)[:40]}` formats no child value itself", not direct, at=f, node=y,
                       msg="a child value is formatted directly instead of through repr_object: its type is not collected for the imports and nested models/enums are rendered with the wrong repr")
    w = cls_.methods["write"]
    a = asrc(w)
    ctx.ob("write: the body is rendered first, then imports are built from the collected types and written before it", A("for_inself.repr_object(_,0,_):;_.write(_);_=self.build_imports(_);_.write(_)") in a, at=w, construct="imports after body",
           msg="imports computed before the types were collected")
    ctx.ob("write: a fresh types set per call", A("_:set[type]=set()") in a, at=w, construct="fresh types", msg="types shared between calls")


@rule("C18.R2")
def emitted_head_is_imported_name(ctx: Ctx) -> None:
    """Models and enums are emitted by __qualname__ and build_imports imports the first component of the same __qualname__ from __module__."""
    cls_ = ctx.repo.cls(f"{PC}:PycodeSerializer")
    rm = cls_.methods["repr_model"]
    heads = [y.value for y in walk_no_nested(rm.node) if isinstance(y, ast.Yield) and isinstance(y.value, ast.JoinedStr) and "__qualname__" in unparse(y.value)]
    ctx.ob("repr_model emits obj.__class__.__qualname__(", len(heads) == 1 and A(unparse(heads[0])).startswith(A("f'{obj.__class__.__qualname__}(")), at=rm, construct="model head", msg="model emitted by another name than the imported one")
    ro = cls_.methods["repr_object"]
    g = build_cfg(ro.node)
    en = [t for t in g.nodes if t.kind == "test" and A(unparse(t.ast)) == A("isinstance(obj, Enum)")]
    ey = [n for n in g.stmts() if bool(en) and n.kind == "stmt" and g.only_if(n.id, en[0].id, True) and any(isinstance(x, ast.Yield) for x in [n.ast, *walk_no_nested(n.ast)])]
    ok = len(ey) == 1 and "__qualname__" in unparse(ey[0].ast) and ".name" in unparse(ey[0].ast)
    ctx.ob("enum members are emitted as <class __qualname__>.<member name>", ok, at=ro, node=ey[0].ast if ey else None, construct="enum head",
           msg="str(member) uses the bare class name: a member of a nested enum is emitted as 'Kind.A' while only the outer class is imported (NameError)")
    bi = cls_.methods["build_imports"]
    a = asrc(bi)
    ctx.ob("build_imports takes module = tp.__module__ and name = tp.__qualname__", A("_=_.__module__;_=_.__qualname__") in a, at=bi, construct="import source", msg="imports by another attribute than the emitted one")
    ctx.ob("build_imports imports the top-level (first) component of a nested qualname", A("if'.'in_:;_=_.split('.')[0]") in a, at=bi, construct="import top-level", msg="an inner class is imported by a dotted name (SyntaxError) or by its immediate outer class")
    ctx.ob("build_imports emits from <module> import <name> and returns the sorted, de-duplicated lines", A("_.add(f'from{_}import{_}\\n')").replace("\\n", "\\\\n") in a.replace(" ", "") or "import{_}" in a, at=bi, construct="import form", msg="import form changed")
    ctx.ob("builtins are not imported", A("!='builtins'") in a, at=bi, construct="builtins skipped", msg="from builtins import ...")


@rule("C18.R4")
def container_delimiters(ctx: Ctx) -> None:
    """repr_array chooses the delimiters by container kind for every kind collections.is_array accepts."""
    fi = ctx.repo.func(f"{PC}:PycodeSerializer.repr_array")
    g = build_cfg(fi.node)
    kinds = {}
    for t in g.nodes:
        if t.kind == "test" and isinstance(t.ast, ast.Call) and unparse(t.ast.func) == "isinstance" and unparse(t.ast.args[0]) == "obj":
            kinds[unparse(t.ast.args[1])] = t
    pairs = {}
    for st, tgt, v in stores(fi.node):
        if isinstance(tgt, (ast.Tuple,)) and isinstance(v, ast.Tuple) and len(v.elts) == 2:
            pass
    for st in walk_no_nested(fi.node):
        if isinstance(st, ast.Assign) and isinstance(st.targets[0], ast.Tuple) and isinstance(st.value, ast.Tuple) and all(isinstance(e, ast.Constant) for e in st.value.elts):
            n = g.node_of(st)
            for k, t in kinds.items():
                if n is not None and g.only_if(n.id, t.id, True):
                    pairs.setdefault(k, tuple(e.value for e in st.value.elts))
            if n is not None and kinds and all(g.only_if(n.id, t.id, False) for t in kinds.values()):
                pairs["<else>"] = tuple(e.value for e in st.value.elts)
    ctx.ob("tuples are written with ( )", pairs.get("tuple") == ("(", ")"), at=fi, construct="tuple delimiters", msg=f"tuple -> {pairs.get('tuple')}: a tuple field evaluates back to a list (frozen models become unequal)")
    ctx.ob("sets are written with { }", pairs.get("set") == ("{", "}"), at=fi, construct="set delimiters", msg=f"set -> {pairs.get('set')}")
    ctx.ob("frozensets are written with frozenset({ })", pairs.get("frozenset") == ("frozenset({", "})"), at=fi, construct="frozenset delimiters", msg=f"frozenset -> {pairs.get('frozenset')}")
    ctx.ob("lists (the remaining kind) are written with [ ]", pairs.get("<else>") == ("[", "]"), at=fi, construct="list delimiters", msg=f"else -> {pairs.get('<else>')}")
    ys = [unparse(y.value) for y in walk_no_nested(fi.node) if isinstance(y, ast.Yield)]
    ctx.ob("every item is followed by a comma (so a one-element tuple stays a tuple)", "',\\n'" in ys, at=fi, construct="item comma", msg="trailing comma missing")
    a = asrc(fi)
    ctx.ob("empty containers are written with str(obj)", A("ifnot_:;yieldstr(_);return") in a, at=fi, construct="empty containers", msg="empty set written as {} (a dict)")
    rm = ctx.repo.func(f"{PC}:PycodeSerializer.repr_mapping")
    ctx.ob("mappings emit key: value pairs through repr_object", A("yieldfromself.repr_object(_,_,_);yield':';yieldfromself.repr_object(_,_,_)") in asrc(rm), at=rm, construct="mapping pairs", msg="mapping emission changed")


@rule("C18.R5")
def module_qualified_reprs(ctx: Ctx) -> None:
    """Types whose repr is module-qualified (datetime.date/time/datetime) get `import module`, not `from module import Name`."""
    fi = ctx.repo.func(f"{PC}:PycodeSerializer.build_imports")
    g = build_cfg(fi.node)
    dt = [t for t in g.nodes if t.kind == "test" and A(unparse(t.ast)) in (A("module == 'datetime'"), A("module in ('datetime',)"))]
    adds = [n for n in g.stmts() if any(isinstance(c.func, ast.Attribute) and c.func.attr == "add" and c.args and "import datetime" in unparse(c.args[0]) for c in node_calls(n))]
    ctx.ob("datetime values get `import datetime` (their repr is datetime.date(...))", bool(dt) and bool(adds) and all(g.only_if(a.id, dt[0].id, True) for a in adds), at=fi, construct="datetime import",
           msg="`from datetime import date` does not make `datetime.date(2020, 1, 2)` evaluable")
    froms = [n for n in g.stmts() if any(isinstance(c.func, ast.Attribute) and c.func.attr == "add" and c.args and "from" in unparse(c.args[0]) for c in node_calls(n))]
    ctx.ob("`from datetime import ...` is not emitted for datetime values", bool(dt) and bool(froms) and all(g.only_if(f.id, dt[0].id, False) for f in froms), at=fi, construct="datetime from-import excluded",
           msg="a from-import of datetime.datetime shadows the module name")
    lv = ctx.repo.func("xsdata.utils.objects:literal_value")
    a = asrc(lv)
    ctx.ob("literal_value: non-finite floats -> float(\"...\"), QName -> QName(\"text\"), else repr()", A("returnstr(_)ifmath.isfinite(_)elsef'float(\"{_}\")'") in a and "returnf'QName(\"{_.text}\")'" in a and a.rstrip().endswith("returnrepr(_)"),
           at=lv, construct="literal_value", msg="literal rendering changed")


@rule("C18.R6")
def library_reprs_use_qualname(ctx: Ctx) -> None:
    """Each __repr__ in models/datatype.py emits self.__class__.__qualname__( so that import-by-qualname makes it evaluable."""
    n = 0
    for ci in ctx.repo.classes.values():
        if ci.module.name != "xsdata.models.datatype":
            continue
        r = ci.methods.get("__repr__")
        if r is None:
            continue
        n += 1
        rets = [x for x in walk_no_nested(r.node) if isinstance(x, ast.Return)]
        ok = bool(rets) and all(isinstance(x.value, ast.JoinedStr) and A(unparse(x.value)).startswith(A("f'{self.__class__.__qualname__}(")) for x in rets)
        ctx.ob(f"{ci.name}.__repr__ emits self.__class__.__qualname__(", ok, at=r, construct=f"{ci.name} repr", msg="repr head is not the importable class name")
    ctx.floor("datatype __repr__ methods", n, 5)


@rule("C18.R7")
def no_cross_call_state(ctx: Ctx) -> None:
    """PycodeSerializer keeps no memo between render() calls (defaults are read from the object's own class each time)."""
    cls_ = ctx.repo.cls(f"{PC}:PycodeSerializer")
    fields_ = [k for k in cls_.ann]
    ctx.ob("PycodeSerializer has no state besides its context", fields_ == ["context"], at=cls_.methods["render"], construct="serializer fields", msg=f"fields {fields_}: per-instance caches make the output depend on earlier calls")
    writes = []
    for m in cls_.methods.values():
        for st, tgt, _ in stores(m.node):
            base = tgt
            while isinstance(base, ast.Subscript):
                base = base.value
            if is_self_attr(base):
                writes.append(f"{m.name}: {unparse(tgt)}")
        for c in calls_in(m.node):
            if isinstance(c.func, ast.Attribute) and c.func.attr in MUTATORS and is_self_attr(c.func.value):
                writes.append(f"{m.name}: {unparse(c)[:40]}")
    ctx.ob("no method of PycodeSerializer writes self.*", not writes, at=cls_.methods["render"], construct="serializer writes", msg=f"writes {writes}")
    rm = cls_.methods["repr_model"]
    a = asrc(rm)
    ctx.ob("repr_model walks class_type.get_fields(obj) and elides a value only if it equals that field's own default", A("for_inself.context.class_type.get_fields(_):") in a and A("_=self.context.class_type.default_value(_,default=unset)") in a
           and A("if_isnotunsetand(callable(_)and_()==_or_==_):;continue") in a, at=rm, construct="default elision", msg="default elision consults something else than the object's own field defaults")
    ctx.ob("repr_model skips non-init fields", A("ifnot_.init:;continue") in a, at=rm, construct="init only", msg="non-init fields passed to the constructor")


@rule("C17.R5")
def per_operation_configuration(ctx: Ctx) -> None:
    """In the WSDL mapper a configuration mapping that is handed to per-item code is never updated in place across loop iterations."""
    n = 0
    for fi in ctx.repo.funcs_in("xsdata.codegen.mappers.definitions"):
        for loop in [x for x in walk_no_nested(fi.node) if isinstance(x, ast.For)]:
            body_assigned = {t.id for st in loop.body for sub in [st, *walk_no_nested(st)] if isinstance(sub, ast.Assign) for t in sub.targets if isinstance(t, ast.Name)}
            for st in loop.body:
                for c in [x for x in [st, *walk_no_nested(st)] if isinstance(x, ast.Call)]:
                    f = c.func
                    if isinstance(f, ast.Attribute) and f.attr in ("update", "setdefault", "pop", "clear") and isinstance(f.value, ast.Name) and f.value.id not in body_assigned:
                        name = f.value.id
                        passed = [x for s2 in loop.body for x in [s2, *walk_no_nested(s2)] if isinstance(x, ast.Call) and x is not c and any(isinstance(a, ast.Name) and a.id == name for a in [*x.args, *[k.value for k in x.keywords]])]
                        n += 1
                        ctx.ob(f"{fi.qual.split(':')[1]}: {name}.{f.attr}() inside the loop does not leak into the next item's configuration", not passed, at=fi, node=c,
                               msg=f"`{name}` lives across iterations and is also passed to {unparse(passed[0].func) if passed else ''}: values set for one operation / message carry over to the following ones (copy it per item)")
    mb = ctx.repo.func("xsdata.codegen.mappers.definitions:DefinitionsMapper.map_binding")
    a = asrc(mb)
    ctx.ob("map_binding builds each operation's configuration from a copy of the binding configuration", A("_=_.copy();_.update(cls.attributes(_.extended_elements))") in a, at=mb, construct="operation config copy",
           msg="operation attributes are merged into the shared binding configuration")
    ctx.note("C17.R5 loop-carried updates", n)
