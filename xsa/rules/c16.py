"""C16 (DTD mapping tables), C17 (SOAP client wiring), C18 (python-code rendering) - dispatch, wiring and emission clauses."""

from __future__ import annotations

import ast
import re

from ..cfg import build_cfg, calls_in, node_calls
from ..core import Ctx, property_info, rule, share
from ..model import AnalysisError, FuncInfo, anon_text, walk_no_nested
from ..q import truthy_guard, call_keywords, Dispatch, family, call_param, passes, value_texts, func_text, reach_table, reach_env, L, call_name_of, control_deps, entry_conditions, expand, leaves_at, node_containing, raw_forms, expand_at, flow_conditions, flows, forms, return_values, str_template, template_text, tests_like, A, MUTATORS, asrc, enum_members, is_self_attr, kwarg, root_name, stores, unparse

DM = "xsdata.codegen.mappers.dtd"
DP = "xsdata.codegen.parsers.dtd"
CL = "xsdata.formats.dataclass.client"
PC = "xsdata.formats.dataclass.serializers.code"

property_info(
    "C16",
    explanation="Decides dispatch and spec-table clauses of the DTD mapper: every if/elif chain over a Dtd* enum is total; the occurrence table and the "
    "attribute-default table equal XML 1.0 (3.2, 3.3); every DTD attribute type maps to a known datatype code; xmlns attributes are turned into "
    "namespace bindings of a per-element map and removed from the attribute list; choice groups get a truthy unique identifier.",
    decides="enum-dispatch totality, branch-wise constant extraction vs the XML 1.0 tables, type-code table membership, per-element freshness of the namespace map",
    not_decided="that DTD-valid documents round-trip through the generated classes (needs running the generator and parser)",
)
property_info(
    "C17",
    explanation="Decides only the client wiring clause of C17: Client.send posts exactly the prepared payload and headers to config.location and parses the "
    "response into config.output; prepare_headers copies the caller's headers and sets content-type / SOAPAction as the binding prescribes; prepare_payload "
    "type-checks against config.input; Config.from_service reads exactly the Config fields. WSDL part selection compares whole names.",
    decides="def-use wiring of Client.send / prepare_headers / prepare_payload, header table, config vocabulary, exact part-name selection",
    not_decided="everything about generation for arbitrary WSDL definitions (operations, messages, envelopes, faults are runtime data of the mapper)",
)
property_info(
    "C18",
    explanation="Decides emission clauses of the code serializer: every visited value registers its type before anything is emitted; emitted heads (models, "
    "enums) are rooted at the name build_imports imports; container delimiters follow the container kind; module-qualified reprs get an `import module`; "
    "the library's own __repr__s use __qualname__; the serializer keeps no cross-call caches.",
    decides="dominance of type registration, agreement between emitted names and imported names, totality over container kinds, import form per repr head",
    not_decided="equality of the evaluated object for all values (NaN, user-defined __repr__)",
)

# --------------------------------------------------------------------------------------- C16


def _enum_dispatch(fi: FuncInfo, enum_name: str) -> Dispatch:
    """Partial evaluation of a function over the tests that compare something with a member of ``enum_name`` (key = member name)."""
    def classify(t: ast.AST):
        if isinstance(t, ast.Compare) and len(t.ops) == 1:
            sides = [t.left, t.comparators[0]]
            op = t.ops[0]
            if isinstance(op, (ast.Eq, ast.Is, ast.NotEq, ast.IsNot)):
                for x in sides:
                    if isinstance(x, ast.Attribute) and isinstance(x.value, ast.Name) and x.value.id == enum_name:
                        return frozenset([x.attr]), isinstance(op, (ast.Eq, ast.Is))
            if isinstance(op, (ast.In, ast.NotIn)):
                coll = sides[1]
                if isinstance(coll, ast.Name) and coll.id in fi.module.globals:
                    coll = fi.module.globals[coll.id]  # a module-level table: `x in TABLE`
                    if isinstance(coll, ast.Call) and coll.args and unparse(coll.func) in ("frozenset", "set", "tuple", "dict"):
                        coll = coll.args[0]
                elts = coll.elts if isinstance(coll, (ast.Tuple, ast.List, ast.Set)) else ([k for k in coll.keys if k is not None] if isinstance(coll, ast.Dict) else None)
                if elts is not None:
                    ms = [x.attr for x in elts if isinstance(x, ast.Attribute) and isinstance(x.value, ast.Name) and x.value.id == enum_name]
                    if ms and len(ms) == len(elts):
                        return frozenset(ms), isinstance(op, ast.In)
        return None

    d = Dispatch(fi.node, classify=classify)
    # module-level lookup tables keyed by the enum: TABLE[x] evaluates to the entry of the member under consideration
    d.tables = {name: {k.attr: v for k, v in zip(val.keys, val.values) if isinstance(k, ast.Attribute) and isinstance(k.value, ast.Name) and k.value.id == enum_name}
                for name, val in fi.module.globals.items() if isinstance(val, ast.Dict)}
    return d


def _effects(nodes) -> list[str]:
    """Side effects (calls / stores / raises / returns) among CFG nodes, as text - used to tell a handled member from a fall-through."""
    out = []
    for n in nodes:
        if n.kind == "stmt" and n.ast is not None and not isinstance(n.ast, (ast.Pass, ast.Continue, ast.Break)) and not (isinstance(n.ast, ast.Return) and (n.ast.value is None or isinstance(n.ast.value, ast.Constant))):
            out.append(unparse(n.ast)[:60])
    return out


def _const_stores(nodes, fn: ast.AST | None = None, d: Dispatch | None = None, fi: FuncInfo | None = None, key: str | None = None) -> dict[str, set[str]]:
    """target text (alias temporaries of the receiver looked through) -> set of stored value texts; with a Dispatch, the values are those
    the stored expression can have under ``key`` (temporaries, conditional expressions and module-level lookup tables evaluated)."""
    out: dict[str, set[str]] = {}
    for n in nodes:
        if n.kind == "stmt" and isinstance(n.ast, (ast.Assign, ast.AnnAssign)):
            tgts = n.ast.targets if isinstance(n.ast, ast.Assign) else [n.ast.target]
            if n.ast.value is not None:
                for t in tgts:
                    k = unparse(expand(fn, t)) if fn is not None and isinstance(t, ast.Attribute) else unparse(t)
                    vals = {unparse(x) for x in d.values_under(fi, key, n, n.ast.value)} if d is not None and fi is not None else {unparse(n.ast.value)}
                    out.setdefault(k, set()).update(vals)
    return out


@rule("C16.R1")
def enum_dispatch_totality(ctx: Ctx) -> None:
    """Every dispatch of the DTD mapper over a Dtd* enum handles all members (explicitly, or by a default branch for exactly the rest)."""
    specs = [("build_occurs", "DtdContentOccur", set()), ("build_content", "DtdContentType", set()), ("build_attribute_restrictions", "DtdAttributeDefault", set()),
             ("build_elements", "DtdElementType", {"EMPTY", "UNDEFINED"})]
    for fn, enum_name, contentless in specs:
        fi = ctx.repo.func(f"{DM}:DtdMapper.{fn}")
        members = set(enum_members(ctx.repo.cls(f"xsdata.models.dtd:{enum_name}").node))
        d = _enum_dispatch(fi, enum_name)
        # members that are keys / entries of a table the function consults (a dict display in the function, or a module-level constant it
        # names): the dispatch is data-driven there
        if _table_driven(fi, enum_name, d):
            ctx.abstain(f"{fn}: dispatch over {enum_name}", at=fi, why="no branch per member: members are looked up in a table, or the function does not branch on the enum")
            continue
        default_nodes = d.exclusive(None)
        default_acts = bool(_effects(default_nodes))
        missing = members - set(d.keys)
        # a member is handled if it has its own branch, or falls into a default branch that does something
        # a dispatch written at value level (named booleans / conditional expressions, no branching statement) gives every member a value:
        # there is no member that could fall through; the values themselves are compared with the tables by R2 / R3
        value_level = not d.tests
        unhandled = set() if value_level else {m for m in missing if not default_acts}
        if contentless:
            ok = unhandled == contentless
            why = f"unhandled members {sorted(unhandled)} (deliberately content-less: {sorted(contentless)})"
        else:
            ok = not unhandled and (len(missing) <= 1 or value_level)
            why = f"members without their own branch {sorted(missing)}, default branch {'present' if default_acts else 'absent'}"
        ctx.ob(f"{fn}: dispatch over {enum_name} is total", ok, at=fi, construct=f"{fn} dispatch {enum_name}", msg=why)
    # the parser converts lxml's strings through the enums (a new lxml kind fails loudly instead of being mis-mapped)
    for fn, enums in (("build_element", ["DtdElementType"]), ("build_content", ["DtdContentOccur", "DtdContentType"]), ("build_attribute", ["DtdAttributeType", "DtdAttributeDefault"])):
        fi = ctx.repo.func(f"{DP}:DtdParser.{fn}")
        for e in enums:
            ctx.ob(f"DtdParser.{fn} converts through {e}(...)", any(isinstance(c.func, ast.Name) and c.func.id == e for c in calls_in(fi.node)), at=fi, construct=f"{fn} {e}", msg="raw lxml value kept")


def _table_driven(fi: FuncInfo, enum_name: str, d) -> bool:
    """The function consults a table (a dict / tuple display in its body or a module-level constant it names) whose entries mention members
    of the enum it does not branch on - or it does not branch on the enum at all: the per-member behaviour is not in its control flow."""
    tables = [x for x in ast.walk(fi.node) if isinstance(x, (ast.Dict, ast.Tuple, ast.List))] + [
        fi.module.globals[x.id] for x in ast.walk(fi.node) if isinstance(x, ast.Name) and isinstance(fi.module.globals.get(x.id), (ast.Dict, ast.Tuple, ast.List, ast.Call))]
    members = {y.attr for t_ in tables for y in ast.walk(t_) if isinstance(y, ast.Attribute) and isinstance(y.value, ast.Name) and y.value.id == enum_name}
    return not d.keys or bool(members - set(d.keys))


@rule("C16.R2")
def occurrence_table(ctx: Ctx) -> None:
    """build_occurs equals the XML 1.0 occurrence table; an OR group adds min_occurs = 0 and a truthy, per-group choice identifier."""
    fi = ctx.repo.func(f"{DM}:DtdMapper.build_occurs")
    d = _enum_dispatch(fi, "DtdContentOccur")
    g = d.g
    spec = {"ONCE": ("1", "1"), "OPT": ("0", "1"), "MULT": ("0", "sys.maxsize"), "PLUS": ("1", "sys.maxsize")}
    rest = set(spec) - set(d.keys)
    if _table_driven(fi, "DtdContentOccur", d):
        ctx.abstain("occurrence bounds of build_occurs", at=fi, why="the bounds are looked up in a table keyed by DtdContentOccur members, not chosen by branches")
        spec = {}
    for k, (lo, hi) in spec.items():
        key = k if k in d.keys else (None if len(rest) == 1 and k in rest else k)
        under = d.under(key)
        ids = {n.id for n in under}
        got: dict[str, set[str]] = {"min_occurs": set(), "max_occurs": set()}
        for r in [n for n in under if n.kind == "stmt" and isinstance(n.ast, ast.Return) and n.ast.value is not None]:
            pairs = [(kk.value, vv) for dct in ast.walk(r.ast.value) if isinstance(dct, ast.Dict) for kk, vv in zip(dct.keys, dct.values) if isinstance(kk, ast.Constant)]
            pairs += [(k_.arg, k_.value) for c_ in ast.walk(r.ast.value) if isinstance(c_, ast.Call) and isinstance(c_.func, ast.Name) and c_.func.id == "dict" for k_ in c_.keywords if k_.arg]
            for kname, vv in pairs:
                if kname in got:
                    for leaf in d.values_under(fi, key, r, vv):
                        got[kname].add(unparse(leaf))
        texts = got["min_occurs"] | got["max_occurs"]
        if texts and not all(re.fullmatch(r"-?\d+|sys\.maxsize|maxsize", t) for t in texts):
            ctx.abstain(f"occurrence bounds of {k}: {sorted(texts)[:3]}", at=fi, why="the bounds are computed, not constants the table can be compared with")
            continue
        ctx.ob(f"occurrence {k} -> ({lo}, {hi})", got["min_occurs"] == {lo} and got["max_occurs"] == {hi}, at=fi, construct=f"occurs {k}", msg=f"mapped to ({sorted(got['min_occurs'])}, {sorted(got['max_occurs'])})")
    bc = ctx.repo.func(f"{DM}:DtdMapper.build_content")
    dc = _enum_dispatch(bc, "DtdContentType")
    or_nodes = dc.specific("OR")
    entries: dict[str, ast.expr] = {}
    for n in or_nodes:
        if n.kind != "stmt" or n.ast is None:
            continue
        for c in node_calls(n):
            if isinstance(c.func, ast.Attribute) and c.func.attr == "update":
                if c.args and isinstance(c.args[0], ast.Dict):
                    entries.update({k.value: v for k, v in zip(c.args[0].keys, c.args[0].values) if isinstance(k, ast.Constant)})
                entries.update({k.arg: k.value for k in c.keywords if k.arg})
        for st, tgt, v in stores(n.ast) if isinstance(n.ast, ast.stmt) else []:
            if isinstance(tgt, ast.Subscript) and isinstance(tgt.slice, ast.Constant) and v is not None:
                entries[tgt.slice.value] = v
        for dct in [x for x in ast.walk(n.ast) if isinstance(x, ast.Dict)]:
            entries.update({k.value: v for k, v in zip(dct.keys, dct.values) if isinstance(k, ast.Constant) and k.value in ("choice", "min_occurs") and k.value not in entries})
    ch = entries.get("choice")
    ok_choice = isinstance(ch, ast.Call) and unparse(ch.func) == "id" and len(ch.args) == 1
    ctx.ob("an OR group tags its members with choice = id(<the group>) (unique per group and never falsy)", ok_choice, at=bc, construct="choice id",
           msg=f"choice identifier is {unparse(ch) if ch is not None else None}: a 0 / shared identifier makes CreateCompoundFields skip or merge the group (element order lost)")
    mo = entries.get("min_occurs")
    ctx.ob("an OR group makes its members optional (min_occurs = 0)", isinstance(mo, ast.Constant) and mo.value == 0, at=bc, construct="choice optional", msg="choice members required")
    # the enclosing choice (outer **kwargs) overrides the group's own parameters: update(**kwargs) comes after the group's own entries, and the merged dict is passed down
    upd_kw = [n for n in or_nodes if n.kind == "stmt" and any(isinstance(c.func, ast.Attribute) and c.func.attr == "update" and (any(k.arg is None for k in c.keywords) or (c.args and unparse(c.args[0]) == "kwargs")) for c in node_calls(n))]
    own = [n for n in or_nodes if n.kind == "stmt" and any(isinstance(x, ast.Constant) and x.value == "choice" for x in ast.walk(n.ast))]
    down = [n for n in or_nodes if n.kind == "stmt" and any(call_name_of(c) == "build_content_tree" and any(k.arg is None for k in c.keywords) for c in node_calls(n))]
    ok = bool(upd_kw) and bool(own) and bool(down) and all(u.id in dc.g.reachable([o.id]) for u in upd_kw for o in own) and all(dn.id in dc.g.reachable([u.id]) for dn in down for u in upd_kw)
    if not ok and down:
        # display form: {**build_occurs(...), "choice": ..., "min_occurs": 0, **kwargs} - the outer kwargs are spread AFTER the group's own entries
        for n in or_nodes:
            if n.kind != "stmt" or n.ast is None:
                continue
            for dct in [x for x in ast.walk(n.ast) if isinstance(x, ast.Dict)]:
                keys = [k.value if isinstance(k, ast.Constant) else ("**" + unparse(v)) for k, v in zip(dct.keys, dct.values)]
                if "choice" in keys and "**kwargs" in keys and keys.index("**kwargs") > keys.index("choice") and all(dn.id in dc.g.reachable([n.id]) for dn in down):
                    ok = True
    ctx.ob("outer kwargs (an enclosing choice) override the group's own parameters and are passed down to both subtrees", ok, at=bc, construct="choice nesting", msg="nested groups lose the enclosing choice")
    bt = ctx.repo.func(f"{DM}:DtdMapper.build_content_tree")
    gt = build_cfg(bt.node)
    def _side(n, e) -> str:
        """'left' / 'right' when the argument is content.left / content.right (through temporaries, getattr(content, "left"), an unrolled loop)."""
        got = set()
        for leaf in leaves_at(bt, n, e):
            if isinstance(leaf, ast.Attribute):
                got.add(leaf.attr)
            elif isinstance(leaf, ast.Call) and call_name_of(leaf) == "getattr" and len(leaf.args) >= 2:
                got |= {x.value for x in leaves_at(bt, n, leaf.args[1]) if isinstance(x, ast.Constant)}
            else:
                got.add("?")
        return next(iter(got)) if len(got) == 1 else "?"

    sides = [(n, _side(n, c.args[1]) if len(c.args) > 1 else "?") for n in gt.stmts() for c in node_calls(n) if call_name_of(c) == "build_content"]
    left = [n for n, a in sides if a == "left"]
    right = [n for n, a in sides if a == "right"]
    ok = len(left) == 1 and len(right) == 1 and right[0].id in gt.reachable([left[0].id]) and left[0].id not in gt.reachable([right[0].id])
    if any(a == "?" for _, a in sides):
        ok = None
    if ok is not None:
        ctx.ob("build_content_tree visits left then right", ok, at=bt, construct="tree order", msg="child order changed")
    be = ctx.repo.func(f"{DM}:DtdMapper.build_element")
    clones = [c for c in calls_in(be.node) if call_name_of(c) == "clone"]
    gb = build_cfg(be.node)
    app = [n for n in gb.stmts() if any(isinstance(c.func, ast.Attribute) and c.func.attr == "append" and unparse(c.func.value).endswith(".attrs") for c in node_calls(n))]
    # the index given to the new attr: a store into .index, or the index= argument of the constructor; evaluated where its value is computed
    idx_sites = [(gb.node_of(st_), v_) for st_, tgt_, v_ in stores(be.node) if isinstance(tgt_, ast.Attribute) and tgt_.attr == "index" and v_ is not None]
    idx_sites += [(node_containing(gb, c), kwarg(c, "index")) for c in calls_in(be.node) if call_name_of(c) == "Attr" and kwarg(c, "index") is not None]
    ok = bool(clones) and len(idx_sites) == 1 and bool(app)
    for n_, v_ in idx_sites[:1]:
        chain_ = [c for _leaf, ch in flows(be, n_, v_) for c in ch] if n_ is not None else []
        ev = chain_[-1] if chain_ else n_
        ok = ok and ev is not None and A("len(target.attrs)") in {A(x) for x in raw_forms(be, n_, v_)} and all(a.id in gb.reachable([ev.id]) and (ev.id == a.id or ev.id not in gb.reachable([a.id])) for a in app)
    ctx.ob("each element attr gets a clone of the restrictions and the next index (len(target.attrs) before it is appended)", ok, at=be, construct="element attr", msg="restrictions shared / index wrong")


@rule("C16.R3")
def attribute_default_table(ctx: Ctx) -> None:
    """build_attribute_restrictions equals the XML 1.0 attribute-default table."""
    fi = ctx.repo.func(f"{DM}:DtdMapper.build_attribute_restrictions")
    d = _enum_dispatch(fi, "DtdAttributeDefault")
    g = d.g

    table_driven = _table_driven(fi, "DtdAttributeDefault", d)
    if table_driven:
        ctx.abstain("attribute-default table of build_attribute_restrictions", at=fi, why="the per-keyword settings are looked up in a table keyed by DtdAttributeDefault members")
    else:
        rq, im, fx = (_const_stores(d.under(k_), fi.node, d, fi, k_) for k_ in ("REQUIRED", "IMPLIED", "FIXED"))
        ctx.ob("#REQUIRED -> min_occurs 1", rq.get("attr.restrictions.min_occurs") == {"1"}, at=fi, construct="REQUIRED", msg=str(rq))
        ctx.ob("#IMPLIED -> min_occurs 0", im.get("attr.restrictions.min_occurs") == {"0"}, at=fi, construct="IMPLIED", msg=str(im))
        ctx.ob("#FIXED -> fixed, required, default = declared value", fx.get("attr.fixed") == {"True"} and fx.get("attr.default") == {"default_value"} and fx.get("attr.restrictions.min_occurs") == {"1"}, at=fi, construct="FIXED", msg=str(fx))
    # no keyword (NONE): a declared default value is materialised and makes the attribute required-with-default; otherwise optional
    none_nodes = d.under(None) if "NONE" not in d.keys else d.under("NONE")
    none_key = None if "NONE" not in d.keys else "NONE"
    sets = [n for n in none_nodes if n.kind == "stmt" and isinstance(n.ast, ast.Assign) and unparse(n.ast.targets[0]) == "attr.default" and unparse(n.ast.value) == "default_value"]
    if sets and not any(d.only_if_under(none_key, n.id, t.id, p_) for n in sets for t in d.g.nodes if t.kind == "test" for p_ in (True, False)):
        sets = []
    nn_tests = [(t, isinstance(t.ast.ops[0], ast.IsNot)) for t in g.nodes if t.kind == "test" and isinstance(t.ast, ast.Compare) and len(t.ast.ops) == 1 and isinstance(t.ast.ops[0], (ast.Is, ast.IsNot))
                and unparse(t.ast.left) == "default_value" and isinstance(t.ast.comparators[0], ast.Constant) and t.ast.comparators[0].value is None]
    # with no keyword (the NONE case) the default is stored exactly when a default value was declared
    def _named_not_none(n) -> bool:
        """... or the store is guarded by a named boolean that, with no keyword, is `default_value is not None`."""
        for t in g.nodes:
            if t.kind == "test" and isinstance(t.ast, ast.Name) and d.only_if_under(none_key, n.id, t.id, True):
                vals = d.values_under(fi, none_key, t, t.ast)
                if vals and all(isinstance(v, ast.Compare) and len(v.ops) == 1 and isinstance(v.ops[0], ast.IsNot) and unparse(v.left) == "default_value"
                                and isinstance(v.comparators[0], ast.Constant) and v.comparators[0].value is None for v in vals):
                    return True
        return False

    ok = bool(sets) and all(any(d.only_if_under(none_key, n.id, t.id, pol) for t, pol in nn_tests) or _named_not_none(n) for n in sets)
    if not table_driven:
        ctx.ob("a declared default value is materialised as the attr default", ok, at=fi, construct="declared default", msg="declared defaults dropped")
    mx = [(st, v) for st, tgt, v in stores(fi.node) if isinstance(tgt, ast.Attribute) and unparse(expand(fi.node, tgt)) == "attr.restrictions.max_occurs"]
    ctx.ob("attributes occur at most once", bool(mx) and all(unparse(v) == "1" for _, v in mx) and g.must_pass(g.entry, g.exit, [g.node_of(st).id for st, _ in mx], normal_only=True), at=fi, construct="max_occurs 1", msg="max_occurs not 1 on every path")
    ba = ctx.repo.func(f"{DM}:DtdMapper.build_attribute")
    gba = build_cfg(ba.node)
    calls = [(n, c) for n in gba.stmts() for c in node_calls(n) if call_name_of(c) == "build_attribute_restrictions"]
    ok = len(calls) == 1 and len(calls[0][1].args) == 3 and "_.default" in forms(ba, calls[0][0], calls[0][1].args[1]) and "_.default_value" in forms(ba, calls[0][0], calls[0][1].args[2])
    ctx.ob("build_attribute passes (attr, attribute.default, attribute.default_value)", ok, at=ba, construct="restriction args", msg="arguments swapped")
    ns = [(gba.node_of(c), kwarg(c, "namespace")) for c in calls_in(ba.node) if kwarg(c, "namespace") is not None]
    looked_up = lambda n, v: n is not None and any("target.ns_map" in f and "attribute.prefix" in f for f in raw_forms(ba, n, v))  # noqa: E731
    # (the construction may be written once per branch: the lookup where the prefix is declared, None where it is not)
    ok = bool(ns) and any(looked_up(n, v) for n, v in ns) and all(looked_up(n, v) or (isinstance(v, ast.Constant) and v.value is None) for n, v in ns)
    ctx.ob("attribute namespace is looked up from target.ns_map by attribute.prefix", ok, at=ba, construct="attribute namespace", msg="attribute namespace resolved differently")


@rule("C16.R4")
def attribute_type_table(ctx: Ctx) -> None:
    """Every DtdAttributeType value except 'enumeration' is a DataType code (or cdata, the documented string default)."""
    at = ctx.repo.cls("xsdata.models.dtd:DtdAttributeType")
    dt = ctx.repo.cls("xsdata.models.enums:DataType")
    codes = set()
    for st in dt.node.body:
        if isinstance(st, ast.Assign) and isinstance(st.value, ast.Tuple) and isinstance(st.value.elts[0], ast.Constant):
            codes.add(str(st.value.elts[0].value).lower())
    for name, val in enum_members(at.node).items():
        if not isinstance(val, ast.Constant):
            continue
        v = val.value
        if v == "enumeration":
            continue
        ctx.ob(f"DTD attribute type {v!r} maps to a datatype", v.lower() in codes or v == "cdata", at=ctx.repo.module("xsdata.models.dtd"), node=val, construct=f"attr type {v}", msg="falls back to string silently")
    da = ctx.repo.cls("xsdata.models.dtd:DtdAttribute").methods["data_type"]
    rv = return_values(da.node)
    ok = bool(rv) and all(isinstance(v, ast.Call) and unparse(v.func) == "DataType.from_code" and len(v.args) == 1 and any(isinstance(x, ast.Call) and call_name_of(x) == "lower" for x in ast.walk(v.args[0])) and "self.type" in unparse(v.args[0]) for v in rv)
    ctx.ob("DtdAttribute.data_type looks the lower-cased type value up with DataType.from_code", ok, at=da, construct="data_type lookup", msg="type lookup changed")
    bt = ctx.repo.func(f"{DM}:DtdMapper.build_attribute_type")
    de = _enum_dispatch(bt, "DtdAttributeType")
    en_nodes = de.specific("ENUMERATION") if "ENUMERATION" in de.keys else []
    builds = [c for n in en_nodes if n.kind != "test" for c in node_calls(n) if call_name_of(c) == "build_enumeration"]
    fwd = [c for n in en_nodes if n.kind != "test" for c in node_calls(n) if call_name_of(c) == "AttrType" and isinstance(kwarg(c, "forward"), ast.Constant) and kwarg(c, "forward").value is True]
    ctx.ob("enumerated attributes become a forward reference to an inner enumeration class", bool(builds) and bool(fwd), at=bt, construct="enumeration type", msg="enumerations typed differently")


@rule("C16.R5")
def xmlns_attributes(ctx: Ctx) -> None:
    """DtdParser.build_ns_map builds a fresh map per element and removes every attribute it turns into a namespace binding."""
    fi = ctx.repo.func(f"{DP}:DtdParser.build_ns_map")
    g = build_cfg(fi.node)
    rv = [v for v in return_values(fi.node)]
    ret_names = {r.value.id for r in walk_no_nested(fi.node) if isinstance(r, ast.Return) and isinstance(r.value, ast.Name)}
    init = [(st, v) for st, tgt, v in stores(fi.node) if isinstance(tgt, ast.Name) and tgt.id in ret_names]

    def _fresh(v):
        return isinstance(v, (ast.Dict, ast.DictComp)) or (isinstance(v, ast.Call) and (unparse(v.func) == "dict" or (isinstance(v.func, ast.Attribute) and v.func.attr == "copy")))

    fresh = bool(init) and all(_fresh(v) for _, v in init)
    ctx.ob("build_ns_map starts every element from a freshly built dict", fresh, at=fi, node=init[0][0] if init else None, construct="fresh ns_map",
           msg="the map object is shared between elements (and between DTDs): the last xmlns declaration wins for all of them")
    # bindings taken from the element's own attributes (value = <attribute>.default_value, through temporaries) - not the built-in prefixes
    sets = [(st, tgt) for st, tgt, v in stores(fi.node) if isinstance(tgt, ast.Subscript) and isinstance(tgt.value, ast.Name) and tgt.value.id in ret_names and v is not None
            and any(isinstance(x, ast.Attribute) and x.attr == "default_value" for leaf in leaves_at(fi, st, v) for x in ast.walk(leaf))]
    if not sets:
        ctx.abstain("xmlns binding stores of build_ns_map", at=fi)
    rem = [x for x in g.stmts() if any(isinstance(c.func, ast.Attribute) and c.func.attr == "remove" and unparse(c.func.value) == "attributes" for c in node_calls(x))]
    loops = [n for n in g.nodes if n.kind == "for"]
    for i, (st, tgt) in enumerate(sets):
        n = g.node_of(st)
        # on every path from the binding back to the loop head (or to the exit) the attribute is removed
        targets = [l.id for l in loops if n is not None and n.id in g.reachable([m for m, lab in g.succ[l.id] if lab == "iter"], blocked=[l.id])] + [g.exit]
        ok = n is not None and bool(rem) and all(g.must_pass(n.id, t, [r.id for r in rem]) for t in targets)
        ctx.ob(f"xmlns binding #{i + 1} ({L(fi, tgt.slice)}) is followed by attributes.remove(attribute)", ok, at=fi, node=st, construct=f"xmlns binding {L(fi, tgt.slice)} removed", msg="the xmlns declaration stays in the attribute list and becomes a field")
    # the list that is modified in the loop is iterated over a snapshot (copy / list / slice / tuple), never a lazy view of itself
    def _snapshot(it: ast.expr) -> bool:
        if isinstance(it, ast.Call) and ((isinstance(it.func, ast.Attribute) and it.func.attr == "copy") or (isinstance(it.func, ast.Name) and it.func.id in ("list", "tuple", "sorted"))):
            return True
        if isinstance(it, ast.Subscript) and isinstance(it.slice, ast.Slice):
            return True
        return isinstance(it, (ast.ListComp, ast.List, ast.Tuple))

    # (the loops in whose body the list is modified)
    mod_loops = [l for l in loops if any(r.id in g.reachable([m for m, lab in g.succ[l.id] if lab == "iter"], blocked=[l.id]) for r in rem)]
    its = [expand_at(fi, l, l.ast.iter) for l in mod_loops if l.ast is not None]
    # what is modified: the receivers of .remove(); the loop may read it only through a snapshot (also as an argument of a lazy helper)
    modified = {unparse(c.func.value) for r in rem for c in node_calls(r) if isinstance(c.func, ast.Attribute) and c.func.attr == "remove"}

    def _reads_only_snapshots(it: ast.expr) -> bool:
        if _snapshot(it):
            return True
        raw = [x for x in ast.walk(it) if isinstance(x, (ast.Name, ast.Attribute)) and unparse(x) in modified]
        wrapped = {id(x) for sub in ast.walk(it) if isinstance(sub, ast.expr) and sub is not it and _snapshot(sub) for x in ast.walk(sub)}
        return bool(raw) and all(id(x) in wrapped for x in raw)

    ctx.ob("the attribute list is iterated over a copy while it is modified", bool(its) and all(_reads_only_snapshots(it) for it in its), at=fi, construct="iterate copy", msg="removal during iteration skips attributes")
    be = ctx.repo.func(f"{DP}:DtdParser.build_element")
    gbe = build_cfg(be.node)
    kws = [(gbe.node_of(c), call_keywords(be, c)[0].get("ns_map")) for c in calls_in(be.node) if call_keywords(be, c)[0].get("ns_map") is not None]  # (also through **params)
    ok = bool(kws) and all(n is not None and any(f.startswith("cls.build_ns_map(_.prefix,") for f in forms(be, n, v)) for n, v in kws)
    ctx.ob("build_element computes ns_map from the element's own prefix and attributes", ok, at=be, construct="element ns_map", msg="ns_map computed from other inputs")
    q = ctx.repo.cls("xsdata.models.dtd:DtdElement").methods["qname"]
    gq = build_cfg(q.node)
    rets = gq.returns()
    ok = bool(rets) and all(isinstance(r.ast.value, ast.Call) and call_name_of(r.ast.value) == "build_qname" and len(r.ast.value.args) == 2 and "self.ns_map.get(self.prefix)" in forms(q, r, r.ast.value.args[0])
                            and unparse(r.ast.value.args[1]) == "self.name" for r in rets)
    ctx.ob("DtdElement.qname = build_qname(ns_map.get(prefix), name)", ok, at=q, construct="element qname", msg="element namespace resolved differently")


# --------------------------------------------------------------------------------------- C17


@rule("C17.R1")
def send_wiring(ctx: Ctx) -> None:
    """Client.send posts exactly prepare_payload(obj) with prepare_headers(...) to config.location and parses the response into config.output."""
    fi = ctx.repo.func(f"{CL}:Client.send")
    g = build_cfg(fi.node)
    posts = [(n, c) for n in g.stmts() for c in node_calls(n) if unparse(c.func) == "self.transport.post"]
    ok = len(posts) == 1
    data_leaves = hdr_leaves = []
    if ok:
        n, c = posts[0]
        ok = "self.config.location" in value_texts(fi, n, call_param(ctx, fi, c, "url") or (c.args[0] if c.args else None))
        d_arg, h_arg = call_param(ctx, fi, c, "data"), call_param(ctx, fi, c, "headers")
        data_leaves = [(leaf, chain[-1] if chain else n) for leaf, chain in flows(fi, n, d_arg)] if d_arg is not None else []
        hdr_leaves = [(leaf, chain[-1] if chain else n) for leaf, chain in flows(fi, n, h_arg)] if h_arg is not None else []
    pay = bool(data_leaves) and all(isinstance(x, ast.Call) and unparse(x.func) == "self.prepare_payload" and len(x.args) == 1 and {unparse(y) for y in leaves_at(fi, w, x.args[0])} == {"obj"} for x, w in data_leaves)

    def _caller_headers(x: ast.Call, w) -> bool:
        lv = leaves_at(fi, w, x.args[0])
        return bool(lv) and all((isinstance(y, ast.Name) and y.id == "headers") or (isinstance(y, ast.Dict) and not y.keys) for y in lv)

    # (the preparation may be written once per branch: `prepare_headers(headers)` / `prepare_headers({})`)
    hdr = bool(hdr_leaves) and all(isinstance(x, ast.Call) and unparse(x.func) == "self.prepare_headers" and len(x.args) == 1 and _caller_headers(x, w) for x, w in hdr_leaves) \
        and any(isinstance(y, ast.Name) and y.id == "headers" for x, w in hdr_leaves for y in leaves_at(fi, w, x.args[0]))
    ctx.ob("the posted data is exactly self.prepare_payload(obj)", pay, at=fi, construct="payload prepared", msg="payload not prepared from the request object (or modified after preparation)")
    ctx.ob("the posted headers are exactly self.prepare_headers(<caller headers or {}>)", hdr, at=fi, construct="headers prepared", msg="headers not prepared (or modified after preparation)")
    ctx.ob("transport.post(config.location, data=<prepared payload>, headers=<prepared headers>)", ok and pay and hdr, at=fi, node=posts[0][1] if posts else None, construct="post wiring", msg="posts something else than the prepared payload/headers")
    rv = [(r, leaf) for r in g.returns() for leaf, _ in flows(fi, r, r.ast.value)]
    okr = bool(rv) and all(isinstance(v, ast.Call) and unparse(v.func) == "self.parser.from_bytes" and len(v.args) == 2 and "self.config.output" in value_texts(fi, r, v.args[1])
                           and all(isinstance(x, ast.Call) and unparse(x.func) == "self.transport.post" for x, _ in flows(fi, r, v.args[0])) for r, v in rv)
    ctx.ob("returns parser.from_bytes(<response of the post>, config.output)", okr, at=fi, construct="response parsing", msg="response parsed into another class")


def anon(fi: FuncInfo, node: ast.AST) -> str:
    from ..model import anon_text

    return anon_text(node, fi.node)


@rule("C17.R2")
def header_table(ctx: Ctx) -> None:
    """prepare_headers copies the caller's headers, sets content-type and (if configured) SOAPAction for the SOAP transport, else raises."""
    fi = ctx.repo.func(f"{CL}:Client.prepare_headers")
    g = build_cfg(fi.node)
    rets = g.returns()
    ret_leaves = [leaf for r in rets for leaf, _ in flows(fi, r, r.ast.value)]
    copied = bool(ret_leaves) and all(unparse(x) in ("headers.copy()", "dict(headers)", "{**headers}") for x in ret_leaves)
    ctx.ob("the result is a copy of the caller's headers", copied, at=fi, construct="headers copied", msg="the caller's dict is written into and returned: headers of one call leak into the next")
    names = {r.ast.value.id for r in rets if isinstance(r.ast.value, ast.Name)}
    bad = [unparse(tgt) for st, tgt, v in stores(fi.node) if isinstance(tgt, ast.Subscript) and root_name(tgt) == "headers"] + [
        unparse(c)[:40] for c in calls_in(fi.node) if isinstance(c.func, ast.Attribute) and c.func.attr in MUTATORS and root_name(c.func.value) == "headers"]
    ctx.ob("the caller's headers dict is never written", not bad, at=fi, construct="caller headers untouched", msg=f"writes {bad}")

    def is_soap(conds, want: bool) -> bool:
        return any("TransportTypes.SOAP" in t and (("==" in t and pol == want) or ("!=" in t and pol != want)) for t, pol in conds)

    def hdr_stores(key: str):
        out = []
        for st, tgt, v in stores(fi.node):
            if isinstance(tgt, ast.Subscript) and isinstance(tgt.slice, ast.Constant) and tgt.slice.value == key and root_name(tgt) in names:
                n = g.node_of(st)
                out.append((n, v, {(t, pol) for t, pol, _ in control_deps(fi, n)} if n is not None else set()))
        return out

    ct = hdr_stores("content-type")
    ctx.ob("SOAP transport: content-type text/xml", len(ct) == 1 and isinstance(ct[0][1], ast.Constant) and ct[0][1].value == "text/xml" and is_soap(ct[0][2], True), at=fi, construct="content-type", msg="content-type header missing/other")
    sa = hdr_stores("SOAPAction")
    ok = len(sa) == 1 and sa[0][0] is not None and "self.config.soap_action" in forms(fi, sa[0][0], sa[0][1]) and is_soap(sa[0][2], True) and any(pol and t in ("self.config.soap_action",) for t, pol in sa[0][2])
    ctx.ob("SOAPAction = config.soap_action exactly when one is configured", ok, at=fi, construct="SOAPAction", msg="SOAPAction header wiring changed")
    rs = [n for n in g.stmts() if isinstance(n.ast, ast.Raise) and "ClientValueError" in unparse(n.ast)]
    ctx.ob("other transports raise ClientValueError", len(rs) == 1 and is_soap({(t, pol) for t, pol, _ in control_deps(fi, rs[0])}, False), at=fi, construct="unsupported transport", msg="unsupported transports accepted")
    tc = ctx.repo.cls(f"{CL}:TransportTypes")
    v = tc.attrs.get("SOAP")
    ctx.ob("TransportTypes.SOAP is the SOAP-over-HTTP transport URI", isinstance(v, ast.Constant) and v.value == "http://schemas.xmlsoap.org/soap/http", at=fi.module, node=v, construct="transport uri", msg="transport URI changed")


@rule("C17.R3")
def payload_typing(ctx: Ctx) -> None:
    """prepare_payload decodes dicts with config.input, type-checks against config.input and renders with the client's serializer."""
    fi = ctx.repo.func(f"{CL}:Client.prepare_payload")
    g = build_cfg(fi.node)
    dec = [(n, c) for n in g.stmts() for c in node_calls(n) if call_name_of(c) == "decode"]
    ok = len(dec) == 1 and len(dec[0][1].args) == 2 and "self.config.input" in raw_forms(fi, dec[0][0], dec[0][1].args[1]) and any(t == "isinstance(_,dict)" and pol for t, pol, _ in control_deps(fi, dec[0][0])) \
        and any(isinstance(c, ast.Call) and call_name_of(c) == "DictDecoder" and unparse(kwarg(c, "context") or ast.Constant(0)) == "self.serializer.context" for c in calls_in(fi.node))
    ctx.ob("dict requests are decoded into config.input with the serializer's context", ok, at=fi, construct="dict decode", msg="dict requests decoded differently")
    tt = tests_like(fi, "isinstance(_, self.config.input)")
    rs = [n for n in g.stmts() if isinstance(n.ast, ast.Raise) and "ClientValueError" in unparse(n.ast)]
    dec = dec or []
    ctx.ob("a request that is not an instance of config.input raises ClientValueError", bool(tt) and len(rs) == 1 and g.only_if(rs[0].id, tt[0].id, False), at=fi, construct="input type check", msg="wrong request types are serialized")
    rend = [n for n in g.stmts() if any(unparse(c.func) == "self.serializer.render" for c in node_calls(n))]
    ctx.ob("the payload is self.serializer.render(obj), after the type check", len(rend) == 1 and bool(tt) and g.only_if(rend[0].id, tt[0].id, True), at=fi, construct="render", msg="rendered before/without the check")
    enc = [(r, leaf) for r in g.returns() for leaf, _ in flows(fi, r, r.ast.value) if isinstance(leaf, ast.Call) and call_name_of(leaf) == "encode"]
    ok = bool(enc) and all(len(leaf.args) == 1 and "self.config.encoding" in raw_forms(fi, r, leaf.args[0]) and any(t == "self.config.encoding" and pol for t, pol, _ in control_deps(fi, r)) for r, leaf in enc)
    ctx.ob("the payload is encoded only when config.encoding is set (with that encoding)", ok, at=fi, construct="payload encoding", msg="encoding handling changed")


@rule("C17.R4")
def config_vocabulary(ctx: Ctx) -> None:
    """Config.from_service reads exactly the dataclass fields of Config from the service class (kwargs override)."""
    cfg = ctx.repo.cls(f"{CL}:Config")
    fields_ = list(cfg.ann)
    need = ["style", "location", "transport", "soap_action", "input", "output"]
    ctx.ob("Config has the fields the generated service classes carry", all(f in fields_ for f in need), at=cfg.methods["from_service"], construct="config fields", msg=f"fields {fields_}")
    fs = cfg.methods["from_service"]
    body = list(walk_no_nested(fs.node))
    ok = any(isinstance(c, ast.Call) and call_name_of(c) == "fields" for c in body) and any(isinstance(c, ast.Call) and call_name_of(c) == "getattr" and len(c.args) == 3 for c in body) \
        and any(isinstance(x, ast.Name) and x.id == "kwargs" for x in body) and not any(isinstance(x, ast.Constant) and isinstance(x.value, str) and x.value in need for x in body)
    ctx.ob("from_service reads every dataclass field of Config from the service class (getattr with a default; kwargs override) - no literal field list",
           ok, at=fs, construct="from_service", msg="service attributes read differently")
    tpl = ctx.repo.read("xsdata/formats/dataclass/templates/service.jinja2")
    ctx.ob("service.jinja2 renders one `name = value` line per service attribute", "{{ attr.name }} = " in tpl or "{{ attr.name|" in tpl, at=fs.module, construct="service template", msg="service template no longer renders the attributes")
    # WSDL part selection compares whole part names
    mp = ctx.repo.func("xsdata.codegen.mappers.definitions:DefinitionsMapper.map_binding_message_parts")
    g = build_cfg(mp.node)
    memb = [t for t in ast.walk(mp.node) if isinstance(t, ast.Compare) and isinstance(t.ops[0], (ast.In, ast.NotIn)) and unparse(t.left).endswith(".name") and isinstance(t.comparators[0], ast.Name)]

    def _listy(v: ast.expr) -> bool:
        return isinstance(v, (ast.List, ast.ListComp, ast.Tuple, ast.Set, ast.SetComp)) or (isinstance(v, ast.Call) and (unparse(v.func) in ("list", "set", "tuple", "frozenset") or (isinstance(v.func, ast.Attribute) and v.func.attr == "split")))

    gmp = build_cfg(mp.node)
    listy = bool(memb)
    for t in memb:
        n_ = node_containing(gmp, t)
        leaves = [leaf for leaf, _ in flows(mp, n_, t.comparators[0])] if n_ is not None else []
        # every value the collection can hold at the test is a list / tuple / set of names (built by a display, list(), or str.split())
        listy = listy and bool(leaves) and all(_listy(x) for x in leaves)
    ctx.ob("message parts are selected by membership in a collection of names (never a substring test on the raw attribute)", bool(memb) and listy, at=mp, node=memb[0] if memb else None, construct="part selection",
           msg="`part.name in <str>` is a substring test: part 'user' is selected by parts='userToken'")


# --------------------------------------------------------------------------------------- C18


@rule("C18.R1")
def types_registered_before_emission(ctx: Ctx) -> None:
    """In repr_object, types.add(type(obj)) dominates every emission and every child is emitted through repr_object."""
    fi = ctx.repo.func(f"{PC}:PycodeSerializer.repr_object")
    g = build_cfg(fi.node)
    reg = [n for n in g.stmts() if any(unparse(c.func) == "types.add" and len(c.args) == 1 and "type(obj)" in raw_forms(fi, n, c.args[0]) for c in node_calls(n))]
    ys = [n for n in g.stmts() if n.ast is not None and any(isinstance(x, (ast.Yield, ast.YieldFrom)) for x in [n.ast, *walk_no_nested(n.ast)]) and n.kind == "stmt"]
    ctx.ob("types.add(type(obj)) dominates every yield of repr_object", len(reg) == 1 and bool(ys) and all(g.must_pass(g.entry, y.id, [reg[0].id]) for y in ys), at=fi, construct="register first",
           msg="a value can be emitted without its type being imported")
    n = 0
    cls_ = ctx.repo.cls(f"{PC}:PycodeSerializer")
    for m in ("repr_array", "repr_mapping", "repr_model"):
        f = cls_.methods[m]
        for y in walk_no_nested(f.node):
            if isinstance(y, ast.YieldFrom):
                n += 1
                ctx.ob(f"{m}: children are emitted through self.repr_object(..., types)", isinstance(y.value, ast.Call) and unparse(y.value.func) == "self.repr_object" and unparse(y.value.args[-1]) == "types", at=f, node=y,
                       msg="a child value is formatted directly (its type is never imported)")
    ctx.floor("recursive emissions", n, 2)
    for m in ("repr_array", "repr_mapping", "repr_model"):
        f = cls_.methods[m]
        for y in walk_no_nested(f.node):
            if isinstance(y, ast.Yield) and y.value is not None:
                # the values held by the container: items of a loop over obj / obj.items() / obj.values(), and getattr(obj, ...) results
                children: set[str] = set()
                for lp in walk_no_nested(f.node):
                    if isinstance(lp, ast.For):
                        it = lp.iter
                        base = it.func.value if isinstance(it, ast.Call) and isinstance(it.func, ast.Attribute) and it.func.attr in ("items", "values", "keys") else (
                            it.args[0] if isinstance(it, ast.Call) and isinstance(it.func, ast.Name) and it.func.id in ("enumerate", "iter", "list", "tuple", "sorted", "reversed") and it.args else it)
                        if "obj" in value_texts(f, lp, base):
                            children |= {x.id for x in ast.walk(lp.target) if isinstance(x, ast.Name)}
                for st_, tgt_, v_ in stores(f.node):
                    if isinstance(tgt_, ast.Name) and isinstance(v_, ast.Call) and call_name_of(v_) == "getattr" and v_.args and unparse(v_.args[0]) == "obj":
                        children.add(tgt_.id)
                direct = [x for x in ast.walk(y.value) if isinstance(x, ast.Name) and isinstance(x.ctx, ast.Load) and x.id in children]
                direct += [c for c in ast.walk(y.value) if isinstance(c, ast.Call) and isinstance(c.func, ast.Name) and c.func.id in ("repr", "str", "format") and unparse(c) != "str(obj)"]
                ctx.ob(f"{m}: `yield {unparse(y.value)[:40]}` formats no child value itself", not direct, at=f, node=y,
                       msg="a child value is formatted directly instead of through repr_object: its type is not collected for the imports and nested models/enums are rendered with the wrong repr")
    w = cls_.methods["write"]
    gw = build_cfg(w.node)
    ro = [n for n in gw.nodes if n.ast is not None and n.kind in ("stmt", "for") and any(call_name_of(c) == "repr_object" for c in node_calls(n))]
    bi = [n for n in gw.stmts() if any(call_name_of(c) == "build_imports" for c in node_calls(n))]
    tnames = {unparse(c.args[-1]) for n in ro for c in node_calls(n) if call_name_of(c) == "repr_object" and c.args}
    inames = {unparse(c.args[0]) for n in bi for c in node_calls(n) if call_name_of(c) == "build_imports" and c.args}
    order_ok = bool(ro) and len(bi) == 1 and all(gw.must_pass(gw.entry, bi[0].id, [r.id]) for r in ro) and not any(r.id in gw.reachable([bi[0].id]) for r in ro)
    ctx.ob("write: the body is rendered first, then imports are built from the types collected while rendering", order_ok and len(tnames) == 1 and tnames == inames, at=w, construct="imports after body",
           msg="imports computed before (or from another set than) the types collected by repr_object")
    tdefs = [v for st, tgt, v in stores(w.node) if isinstance(tgt, ast.Name) and tgt.id in tnames]
    ctx.ob("write: a fresh types set per call", bool(tdefs) and all(isinstance(v, ast.Set) or (isinstance(v, ast.Call) and unparse(v.func) == "set") for v in tdefs), at=w, construct="fresh types", msg="types shared between calls")


def _qualname_heads(fi: FuncInfo, nodes=None) -> list[tuple[ast.AST, list[tuple[str, object]]]]:
    """String templates yielded by the function (optionally restricted to some CFG nodes)."""
    g = build_cfg(fi.node)
    out = []
    for n in (nodes if nodes is not None else g.stmts()):
        if n.ast is None or n.kind != "stmt":
            continue
        for y in [n.ast, *walk_no_nested(n.ast)]:
            if isinstance(y, ast.Yield) and y.value is not None:
                for leaf, _ in flows(fi, n, y.value):
                    t = str_template(leaf)
                    if t is not None:
                        out.append((y, t))
    return out


QUALNAME_OF_OBJ = {"obj.__class__.__qualname__", "type(obj).__qualname__"}


@rule("C18.R2")
def emitted_head_is_imported_name(ctx: Ctx) -> None:
    """Models and enums are emitted by __qualname__ and build_imports imports the first component of the same __qualname__ from __module__."""
    cls_ = ctx.repo.cls(f"{PC}:PycodeSerializer")
    rm = cls_.methods["repr_model"]
    heads = [(y, t) for y, t in _qualname_heads(rm) if t and t[0][0] == "hole" and len(t) > 1 and t[1][0] == "lit" and str(t[1][1]).startswith("(")]
    ctx.ob("repr_model emits obj.__class__.__qualname__(", len(heads) == 1 and unparse(heads[0][1][0][1]) in QUALNAME_OF_OBJ, at=rm, construct="model head", msg="model emitted by another name than the imported one")
    ro = cls_.methods["repr_object"]
    g = build_cfg(ro.node)
    en = tests_like(ro, "isinstance(_, Enum)")
    # what is yielded for enum members: the yield statement itself, or the definition of the yielded value, runs only if isinstance(obj, Enum)
    ey = []
    et = []
    for n in g.stmts():
        if n.kind != "stmt" or n.ast is None or not en:
            continue
        for y in [n.ast, *walk_no_nested(n.ast)]:
            if isinstance(y, ast.Yield) and y.value is not None:
                for leaf, chain in flows(ro, n, y.value):
                    where = [n, *chain]
                    if any(g.only_if(w.id, t.id, True) for w in where for t in en):
                        tpl = str_template(leaf)
                        if tpl is not None:
                            ey.append(chain[-1] if chain else n)
                            et.append(tpl)
    ok = len(et) == 1 and [k for k, _ in et[0]] == ["hole", "lit", "hole"] and bool(raw_forms(ro, ey[0], et[0][0][1]) & QUALNAME_OF_OBJ) and et[0][1][1] == "." and "obj.name" in raw_forms(ro, ey[0], et[0][2][1])
    ctx.ob("enum members are emitted as <class __qualname__>.<member name>", ok, at=ro, node=ey[0].ast if ey else None, construct="enum head",
           msg="str(member) uses the bare class name: a member of a nested enum is emitted as 'Kind.A' while only the outer class is imported (NameError)")
    bi = cls_.methods["build_imports"]
    stmts = _import_statements(ctx, bi)
    froms = [x for x in stmts if template_text(x[0]).startswith("from {} import {}")]
    ctx.ob("build_imports emits `from <module> import <name>` lines", len(froms) >= 1, at=bi, construct="import form", msg=f"import statements {[template_text(x[0]) for x in stmts]}")
    whole = A(" ".join(unparse(f.node) for f in family(ctx.repo, bi)))
    for t, node, conds, fx in froms:
        holes = [v for k, v in t if k == "hole"]
        mod_forms = forms(fx, node, holes[0]) | _caller_forms(ctx, bi, fx, node, holes[0])
        ctx.ob("build_imports takes the module from tp.__module__", "_.__module__" in mod_forms, at=bi, construct="import module source", msg=f"module is {sorted(mod_forms)[:2]}")
        name_leaves = [leaf for leaf, _ in flows(fx, node, holes[1])]
        name_src = " ".join(sorted({x for leaf in name_leaves for x in forms(fx, node, leaf)} | {anon_text(leaf, fx.node) for leaf in name_leaves} | _caller_forms(ctx, bi, fx, node, holes[1])))
        leaf_texts = {t for leaf in name_leaves for t in value_texts(fx, node, leaf)} | {unparse(leaf) for leaf in name_leaves}
        first_part = re.compile(r"""\.(split|partition)\(['"]\.['"](,\s*1)?\)\[0\]""")
        top = any(first_part.search(t) for t in leaf_texts) or any(first_part.search(unparse(x)) for f_ in family(ctx.repo, bi) for x in ast.walk(f_.node) if isinstance(x, ast.Subscript))
        contraband = [p for p in ("rsplit", "rpartition", ".__name__", "[-1]", "[-2]") if any(p in t for t in leaf_texts)]
        ctx.ob("build_imports takes the name from tp.__qualname__ and imports its top-level (first) component", "__qualname__" in name_src + whole and top and not contraband, at=bi, construct="import top-level",
               msg="an inner class is imported by a dotted name (SyntaxError), by its immediate outer class or by __name__" + (f" ({contraband})" if contraband else ""))
        ctx.ob("builtins are not imported", any(("'builtins'" in txt and (("!=" in txt and pol) or ("==" in txt and not pol))) for txt, pol in conds), at=bi, construct="builtins skipped", msg="from builtins import ...")
    rv = return_values(bi.node)
    ctx.ob("build_imports returns the sorted, de-duplicated lines", bool(rv) and all(any(isinstance(c, ast.Call) and call_name_of(c) == "sorted" for c in ast.walk(v)) for v in rv), at=bi, construct="imports sorted", msg="import order depends on set iteration")


def _caller_forms(ctx: Ctx, root: FuncInfo, fx: FuncInfo, node, e: ast.expr) -> set[str]:
    """When a value of helper ``fx`` comes from one of its parameters: the forms of the corresponding argument at the call sites in the
    family of ``root`` (the helper was given `tp.__module__` instead of `tp`)."""
    out: set[str] = set()
    if fx is root:
        return out
    params = [a.arg for a in fx.params]
    for leaf, _ in flows(fx, node, e):
        for nm in [x for x in ast.walk(leaf) if isinstance(x, ast.Name) and x.id in params]:
            for f_ in family(ctx.repo, root):
                for c in calls_in(f_.node):
                    if call_name_of(c) == fx.name:
                        a = call_param(ctx, f_, c, nm.id)
                        if a is not None:
                            out |= {anon_text(a, f_.node)} | {t.replace(" ", "") for t in value_texts(f_, c, a)}
    return out


def _import_statements(ctx: Ctx, bi: FuncInfo):
    """(template, cfg node, flow conditions) for every import statement build_imports can emit: the strings added to the import set, and the
    strings returned by the helpers it still calls (an extracted per-type helper used inside a comprehension)."""
    out = []
    for fi in family(ctx.repo, bi):
        g = build_cfg(fi.node)
        for n in g.stmts():
            for c in node_calls(n):
                if isinstance(c.func, ast.Attribute) and c.func.attr == "add" and len(c.args) == 1:
                    for leaf, chain in flows(fi, n, c.args[0]):
                        t = str_template(leaf)
                        if t is not None:
                            out.append((t, n, flow_conditions(fi, n, chain), fi))
        if fi is not bi:
            for r in g.returns():
                for leaf, chain in flows(fi, r, r.ast.value) if r.ast.value is not None else []:
                    t = str_template(leaf)
                    if t is not None and any(k == "lit" and "import" in str(v) for k, v in t):
                        out.append((t, r, flow_conditions(fi, r, chain), fi))
            for n in g.stmts():  # a generator helper yields the statements
                y = n.ast.value if n.kind == "stmt" and isinstance(n.ast, ast.Expr) else None
                if isinstance(y, ast.Yield) and y.value is not None:
                    for leaf, chain in flows(fi, n, y.value):
                        t = str_template(leaf)
                        if t is not None and any(k == "lit" and "import" in str(v) for k, v in t):
                            out.append((t, n, flow_conditions(fi, n, chain), fi))
    return out


@rule("C18.R4")
def container_delimiters(ctx: Ctx) -> None:
    """repr_array chooses the delimiters by container kind for every kind collections.is_array accepts."""
    fi = ctx.repo.func(f"{PC}:PycodeSerializer.repr_array")
    g = build_cfg(fi.node)

    def kind_of(t: ast.AST):
        if isinstance(t, ast.Call) and unparse(t.func) == "isinstance" and len(t.args) == 2 and unparse(t.args[0]) == "obj":
            tp = t.args[1]
            return frozenset(unparse(e) for e in tp.elts) if isinstance(tp, ast.Tuple) else frozenset([unparse(tp)]), True
        return None

    d = Dispatch(fi.node, classify=kind_of, extra=lambda t: True if unparse(t) == "obj" else None)  # non-empty container
    # the expressions yielded before / after the items: the hole of a template "{}\n" (opening) and of a template ending in "{}" (closing)
    open_e: list[tuple[object, ast.expr]] = []
    close_e: list[tuple[object, ast.expr]] = []
    for n in g.stmts():
        if n.kind != "stmt" or n.ast is None:
            continue
        for y in [n.ast, *walk_no_nested(n.ast)]:
            if isinstance(y, ast.Yield) and y.value is not None:
                t = str_template(y.value)
                if t is None:
                    continue
                holes = [v for k, v in t if k == "hole"]
                txt = template_text(t)
                if txt == "{}\n" and holes:
                    open_e.append((n, holes[0]))
                elif txt.endswith("{}") and not txt.endswith("\n") and holes:
                    close_e.append((n, holes[-1]))
    pairs: dict[str | None, set[tuple]] = {}
    for key in [*sorted(d.keys), None]:
        ids = {n.id for n in d.under(key)}

        def consts(sites):
            out = set()
            for n, e in sites:
                for leaf, chain in flows(fi, n, e):
                    if isinstance(leaf, ast.Constant) and isinstance(leaf.value, str) and all(c.id in ids for c in chain):
                        out.add(leaf.value)
            return out

        pairs[key] = {(o, c) for o in consts(open_e) for c in consts(close_e)}
    # keys are tested in the order the code tests them: under(`set`) also sees the frozenset branch only if frozenset is not tested first - use `specific`
    def only(key):
        mine = pairs.get(key, set())
        others = set().union(*[v for k, v in pairs.items() if k != key]) if len(pairs) > 1 else set()
        return mine - others if len(mine) > 1 else mine

    if not d.keys or not set(d.keys) <= {"tuple", "set", "frozenset", "list"}:
        ctx.abstain("container delimiters of repr_array", at=fi, why="no isinstance(obj, <builtin kind>) dispatch in the function: the delimiters are chosen through a table / helper")
    else:
        ctx.ob("tuples are written with ( )", only("tuple") == {("(", ")")}, at=fi, construct="tuple delimiters", msg=f"tuple -> {sorted(only('tuple'))}: a tuple field evaluates back to a list (frozen models become unequal)")
        ctx.ob("sets are written with { }", only("set") == {("{", "}")}, at=fi, construct="set delimiters", msg=f"set -> {sorted(only('set'))}")
        ctx.ob("frozensets are written with frozenset({ })", only("frozenset") == {("frozenset({", "})")}, at=fi, construct="frozenset delimiters", msg=f"frozenset -> {sorted(only('frozenset'))}")
        ctx.ob("lists (the remaining kind) are written with [ ]", only(None) == {("[", "]")}, at=fi, construct="list delimiters", msg=f"else -> {sorted(only(None))}")
    ys = [y.value.value for y in walk_no_nested(fi.node) if isinstance(y, ast.Yield) and isinstance(y.value, ast.Constant) and isinstance(y.value.value, str)]
    ctx.ob("every item is followed by a comma (so a one-element tuple stays a tuple)", any(v.startswith(",") for v in ys), at=fi, construct="item comma", msg="trailing comma missing")
    empty = [n for n in g.stmts() if n.kind == "stmt" and any(isinstance(y, ast.Yield) and unparse(y.value) == "str(obj)" for y in [n.ast, *walk_no_nested(n.ast)])]
    ok = bool(empty) and all(any(isinstance(t.ast, ast.Name) and t.ast.id == "obj" and not pol for _txt, pol, t in control_deps(fi, n)) for n in empty)
    ctx.ob("empty containers are written with str(obj)", ok, at=fi, construct="empty containers", msg="empty set written as {} (a dict)")
    rm = ctx.repo.func(f"{PC}:PycodeSerializer.repr_mapping")
    loops = [n for n in walk_no_nested(rm.node) if isinstance(n, ast.For) and ".items()" in unparse(n.iter)]
    ok = False
    if loops:
        tgt = loops[0].target
        if isinstance(tgt, ast.Tuple) and len(tgt.elts) == 2:
            kt, vt = {unparse(tgt.elts[0])}, {unparse(tgt.elts[1])}
        else:
            kt, vt = {f"{unparse(tgt)}[0]"}, {f"{unparse(tgt)}[1]"}
        from ..model import ordered_stmts

        body_nodes = [x for st in ordered_stmts(loops[0]) for x in ([st.value] if isinstance(st, ast.Expr) else [])]
        emitted = [{unparse(l) for l in leaves_at(rm, y, y.value.args[0])} | {unparse(y.value.args[0])} for y in body_nodes
                   if isinstance(y, ast.YieldFrom) and isinstance(y.value, ast.Call) and call_name_of(y.value) == "repr_object" and y.value.args]
        seps = [y.value.value for y in body_nodes if isinstance(y, ast.Yield) and isinstance(y.value, ast.Constant)]
        ok = len(emitted) == 2 and bool(emitted[0] & kt) and bool(emitted[1] & vt) and any(str(x).strip() == ":" for x in seps)
    if loops and any(isinstance(x, (ast.For, ast.While)) for st in loops[0].body for x in ast.walk(st)):
        ctx.abstain("mapping pairs: the parts of an entry are emitted by a nested loop", at=rm)
    else:
        ctx.ob("mappings emit key: value pairs through repr_object", ok, at=rm, construct="mapping pairs", msg="mapping emission changed")


@rule("C18.R5")
def module_qualified_reprs(ctx: Ctx) -> None:
    """Types whose repr is module-qualified (datetime.date/time/datetime) get `import module`, not `from module import Name`."""
    fi = ctx.repo.func(f"{PC}:PycodeSerializer.build_imports")
    stmts = _import_statements(ctx, fi)
    plain = [(t, n, c) for t, n, c, _ in stmts if template_text(t).strip() == "import datetime"]
    is_dt = lambda conds, want: any("'datetime'" in txt and (("==" in txt and pol == want) or ("!=" in txt and pol != want) or ("in(" in txt and "notin" not in txt and pol == want)) for txt, pol in conds)  # noqa: E731
    ctx.ob("datetime values get `import datetime` (their repr is datetime.date(...))", bool(plain) and all(is_dt(c, True) for _, _, c in plain), at=fi, construct="datetime import",
           msg="`from datetime import date` does not make `datetime.date(2020, 1, 2)` evaluable")
    froms = [(t, n, c) for t, n, c, _ in stmts if template_text(t).startswith("from {} import")]
    ctx.ob("`from datetime import ...` is not emitted for datetime values", bool(froms) and all(is_dt(c, False) for _, _, c in froms), at=fi, construct="datetime from-import excluded",
           msg="a from-import of datetime.datetime shadows the module name")
    lv = ctx.repo.func("xsdata.utils.objects:literal_value")
    g = build_cfg(lv.node)
    rets = g.returns()
    shapes = []
    for r in rets:
        deps = control_deps(lv, r)
        for leaf, _ in flows(lv, r, r.ast.value):
            t = str_template(leaf)
            shapes.append((template_text(t) if t is not None else anon_text(leaf, lv.node), {txt for txt, pol, _ in deps if pol}))
    nonfinite = [s for s, c in shapes if s == 'float("{}")']
    qn = [s for s, c in shapes if s == 'QName("{}")' and "isinstance(_,QName)" in c]
    fallback = [s for s, c in shapes if s == "repr(_)"]
    if not nonfinite and not qn and not fallback:
        ctx.abstain("literal_value rendering", at=lv, why=f"none of the returned shapes is a text template or repr(): {[s for s, _ in shapes][:3]} (rendering chosen through a table of callables)")
    else:
        ctx.ob("literal_value: non-finite floats -> float(\"...\"), QName -> QName(\"text\"), else repr()", bool(nonfinite) and bool(qn) and bool(fallback), at=lv, construct="literal_value",
               msg=f"literal rendering changed: {[s for s, _ in shapes]}")


@rule("C18.R6")
def library_reprs_use_qualname(ctx: Ctx) -> None:
    """Each __repr__ in models/datatype.py emits self.__class__.__qualname__( so that import-by-qualname makes it evaluable."""
    n = 0
    for ci in ctx.repo.classes.values():
        if ci.module.name != "xsdata.models.datatype":
            continue
        r = ci.methods.get("__repr__")
        if r is None:
            continue
        n += 1
        rets = [x for x in walk_no_nested(r.node) if isinstance(x, ast.Return)]
        ok = bool(rets) and all(isinstance(x.value, ast.JoinedStr) and A(unparse(x.value)).startswith(A("f'{self.__class__.__qualname__}(")) for x in rets)
        ctx.ob(f"{ci.name}.__repr__ emits self.__class__.__qualname__(", ok, at=r, construct=f"{ci.name} repr", msg="repr head is not the importable class name")
    ctx.floor("datatype __repr__ methods", n, 5)


@rule("C18.R7")
def no_cross_call_state(ctx: Ctx) -> None:
    """PycodeSerializer keeps no memo between render() calls (defaults are read from the object's own class each time)."""
    cls_ = ctx.repo.cls(f"{PC}:PycodeSerializer")
    fields_ = [k for k in cls_.ann]
    ctx.ob("PycodeSerializer has no state besides its context", fields_ == ["context"], at=cls_.methods["render"], construct="serializer fields", msg=f"fields {fields_}: per-instance caches make the output depend on earlier calls")
    writes = []
    for m in cls_.methods.values():
        for st, tgt, _ in stores(m.node):
            base = tgt
            while isinstance(base, ast.Subscript):
                base = base.value
            if is_self_attr(base):
                writes.append(f"{m.name}: {unparse(tgt)}")
        for c in calls_in(m.node):
            if isinstance(c.func, ast.Attribute) and c.func.attr in MUTATORS and is_self_attr(c.func.value):
                writes.append(f"{m.name}: {unparse(c)[:40]}")
    ctx.ob("no method of PycodeSerializer writes self.*", not writes, at=cls_.methods["render"], construct="serializer writes", msg=f"writes {writes}")
    rm = cls_.methods["repr_model"]
    grm = build_cfg(rm.node)
    loops = [n for n in grm.nodes if n.kind == "for" and n.ast is not None and unparse(n.ast.iter) == "self.context.class_type.get_fields(obj)"]
    dv = [c for c in calls_in(rm.node) if unparse(c.func) == "self.context.class_type.default_value" and c.args and isinstance(loops[0].ast.target if loops else None, ast.Name) and unparse(c.args[0]) == loops[0].ast.target.id]
    emits = [n for n in grm.stmts() if n.kind == "stmt" and any(isinstance(y, ast.YieldFrom) and isinstance(y.value, ast.Call) and call_name_of(y.value) == "repr_object" for y in [n.ast, *walk_no_nested(n.ast)])]
    # a field's value is emitted unless it is a non-init field or equals the default obtained for that very field
    ok = bool(loops) and bool(dv) and bool(emits) and all(any(t == "_.init" and pol for t, pol, _ in control_deps(rm, n)) for n in emits)
    # "no default" must be distinguishable from a default of None: default_value(field, default=<sentinel object>) and the elision requires `is not <sentinel>`
    sentinels = {unparse(kwarg(c, "default")) for c in dv if isinstance(kwarg(c, "default"), ast.Name)}
    mod_sent = {s for s in sentinels if isinstance(rm.module.globals.get(s), ast.Call) and unparse(rm.module.globals[s].func) == "object"}
    skips = [n for n in grm.stmts() if isinstance(n.ast, ast.Continue) and any("==" in t and pol for t, pol, _ in [*control_deps(rm, n), *entry_conditions(rm, n)])]
    sent_ok = bool(mod_sent) and len(sentinels) == 1 and all(kwarg(c, "default") is not None for c in dv) and bool(skips) and all(
        any(isinstance(t.ast, ast.Compare) and isinstance(t.ast.ops[0], ast.IsNot) and unparse(t.ast.comparators[0]) in mod_sent and pol for _x, pol, t in control_deps(rm, n)) for n in skips)
    ctx.ob("repr_model elides a value only if the field HAS a default (a sentinel distinguishes 'no default' from a default of None) that equals it", sent_ok, at=rm, construct="default sentinel",
           msg="a required field whose value is None is elided: the emitted constructor call raises TypeError (missing argument)")
    ctx.ob("repr_model walks class_type.get_fields(obj), takes each field's own default from class_type.default_value(field) and skips non-init fields", ok, at=rm, construct="default elision",
           msg="default elision consults something else than the object's own field defaults / non-init fields passed to the constructor")


@rule("C17.R5")
def per_operation_configuration(ctx: Ctx) -> None:
    """In the WSDL mapper a configuration mapping that is handed to per-item code is never updated in place across loop iterations."""
    n = 0
    for fi in ctx.repo.funcs_in("xsdata.codegen.mappers.definitions"):
        for loop in [x for x in walk_no_nested(fi.node) if isinstance(x, ast.For)]:
            body_assigned = {t.id for st in loop.body for sub in [st, *walk_no_nested(st)] if isinstance(sub, ast.Assign) for t in sub.targets if isinstance(t, ast.Name)}
            for st in loop.body:
                for c in [x for x in [st, *walk_no_nested(st)] if isinstance(x, ast.Call)]:
                    f = c.func
                    if isinstance(f, ast.Attribute) and f.attr in ("update", "setdefault", "pop", "clear") and isinstance(f.value, ast.Name) and f.value.id not in body_assigned:
                        name = f.value.id
                        passed = [x for s2 in loop.body for x in [s2, *walk_no_nested(s2)] if isinstance(x, ast.Call) and x is not c and any(isinstance(a, ast.Name) and a.id == name for a in [*x.args, *[k.value for k in x.keywords]])]
                        n += 1
                        ctx.ob(f"{fi.qual.split(':')[1]}: {name}.{f.attr}() inside the loop does not leak into the next item's configuration", not passed, at=fi, node=c,
                               msg=f"`{name}` lives across iterations and is also passed to {unparse(passed[0].func) if passed else ''}: values set for one operation / message carry over to the following ones (copy it per item)")
    mb = ctx.repo.func("xsdata.codegen.mappers.definitions:DefinitionsMapper.map_binding")
    upd = [c for c in calls_in(mb.node) if isinstance(c.func, ast.Attribute) and c.func.attr in ("update", "setdefault") and isinstance(c.func.value, ast.Name)]
    copies = {tgt.id for st, tgt, v in stores(mb.node) if isinstance(tgt, ast.Name) and (isinstance(v, ast.Dict) or (isinstance(v, ast.Call) and ((isinstance(v.func, ast.Attribute) and v.func.attr == "copy") or unparse(v.func) == "dict")))}
    # the mapping handed to each operation is a per-iteration copy, and nothing is merged into the shared binding configuration itself
    per_op = [c for c in calls_in(mb.node) if call_name_of(c) == "map_binding_operation"]
    passes_shared = any(isinstance(a_, ast.Name) and a_.id == "config" for c in per_op for a_ in [*c.args, *[k.value for k in c.keywords]])
    ctx.ob("map_binding builds each operation's configuration from a copy of the binding configuration", bool(per_op) and not passes_shared and all(c.func.value.id in copies for c in upd) and bool(copies), at=mb, construct="operation config copy",
           msg="operation attributes are merged into the shared binding configuration")
    ctx.note("C17.R5 loop-carried updates", n)

from .c12 import cache_holds_the_parsed_classes  # noqa: E402

share("C16", "C16.R6", cache_holds_the_parsed_classes)  # a second run over the same DTD (with --cache) must generate the same, working code


@rule("C16.R7")
def dtd_declarations_override_builtin_prefixes(ctx: Ctx) -> None:
    """DtdParser.build_ns_map: the xmlns declarations of the DTD win over the built-in prefixes (xs, xsi, xlink, xml): the built-ins are put
    into the map first and the declared bindings are stored over them - never the other way round."""
    fi = ctx.repo.func(f"{DP}:DtdParser.build_ns_map")
    g = build_cfg(fi.node)
    common = [n for n in g.stmts() if n.ast is not None and any(call_name_of(c) == "common" for c in node_calls(n))]
    decl = [g.node_of(st) for st, tgt, v in stores(fi.node) if isinstance(tgt, ast.Subscript) and v is not None and any(isinstance(x, ast.Attribute) and x.attr == "default_value" for leaf in leaves_at(fi, st, v) for x in ast.walk(leaf))]
    decl = [d for d in decl if d is not None]
    if not common or not decl:
        ctx.abstain("built-in / declared prefix writes of build_ns_map", at=fi)
        return
    for cnode in common:
        late = any(cnode.id in g.reachable([d.id]) for d in decl)
        soft = any(isinstance(c.func, ast.Attribute) and c.func.attr == "setdefault" for c in node_calls(cnode)) or any(isinstance(x, ast.Dict) and None in x.keys for x in ast.walk(cnode.ast))
        if late and soft:
            ctx.abstain("built-in prefixes added after the declared ones in a non-overriding form", at=fi)
            continue
        ctx.ob("build_ns_map: the built-in prefixes are in the map before the DTD's own xmlns declarations are stored", not late, at=fi, node=cnode.ast, construct="declared prefixes win",
               msg="the built-in bindings are written after (over) the declared ones: a DTD that binds xlink / xs / xsi to another URI gets fields in the wrong namespace and its valid documents are rejected")


@rule("C17.R7")
def part_prefixes_resolve_in_the_parts_own_scope(ctx: Ctx) -> None:
    """In the WSDL mapper, a prefix split off a per-item attribute inside a loop (`prefix, name = text.split(part.element)`) is resolved
    against that item's own prefix map (`part.ns_map`), never against a map that accumulates the maps of all items of the loop: two parts may
    bind the same prefix to different namespaces."""
    n = 0
    for fi in ctx.repo.funcs_in("xsdata.codegen.mappers.definitions"):
        loops = [x for x in walk_no_nested(fi.node) if isinstance(x, ast.For) and isinstance(x.target, ast.Name)]
        for loop in loops:
            item = loop.target.id
            inside = [x for st in loop.body for x in [st, *walk_no_nested(st)]]
            prefixes: set[str] = set()
            for a in inside:
                if isinstance(a, ast.Assign) and isinstance(a.value, ast.Call) and call_name_of(a.value) == "split" and a.value.args and root_name(a.value.args[0]) == item:
                    for t in a.targets:
                        if isinstance(t, (ast.Tuple, ast.List)) and t.elts and isinstance(t.elts[0], ast.Name):
                            prefixes.add(t.elts[0].id)
            if not prefixes:
                continue
            accumulated = {c.func.value.id for c in calls_in(fi.node) if isinstance(c.func, ast.Attribute) and c.func.attr == "update" and isinstance(c.func.value, ast.Name) and c.args
                           and any(isinstance(x, ast.Attribute) and x.attr == "ns_map" and root_name(x) in {lp.target.id for lp in loops} for x in ast.walk(c.args[0]))}
            for x in inside:
                recv = key = None
                if isinstance(x, ast.Call) and isinstance(x.func, ast.Attribute) and x.func.attr == "get" and x.args:
                    recv, key = x.func.value, x.args[0]
                elif isinstance(x, ast.Subscript) and isinstance(x.ctx, ast.Load):
                    recv, key = x.value, x.slice
                if recv is None or not (isinstance(key, ast.Name) and key.id in prefixes):
                    continue
                own = isinstance(recv, ast.Attribute) and recv.attr == "ns_map" and root_name(recv) == item
                if own:
                    n += 1
                    ctx.ob(f"{fi.qual.split(':')[1]}: the prefix of `{item}` is resolved in `{item}.ns_map`", True, at=fi, node=x, construct=f"{item} prefix scope")
                elif isinstance(recv, ast.Name) and recv.id in accumulated:
                    n += 1
                    ctx.ob(f"{fi.qual.split(':')[1]}: the prefix of `{item}` is resolved in `{item}.ns_map`", False, at=fi, node=x, construct=f"{item} prefix scope",
                           msg=f"`{unparse(recv)}` accumulates the prefix maps of all items of the loop (`{recv.id}.update(... .ns_map)`): when two parts bind the same prefix to different namespaces the last "
                               "binding wins for every part and the part's type / element qname lands in the wrong namespace")
                else:
                    ctx.abstain(f"prefix scope of `{item}` in {fi.name}", at=fi, why=f"the prefix is looked up in `{unparse(recv)}`, whose relation to the item's own map is not recognised")
    ctx.note("C17.R7 per-item prefix lookups", n)
    if not n:
        ctx.abstain("per-item prefix lookups of the WSDL mapper", at=ctx.repo.module("xsdata.codegen.mappers.definitions"), why="no loop splits a prefix off its item and looks it up")


@rule("C17.R6")
def explicit_empty_namespace_is_kept(ctx: Ctx) -> None:
    """DefinitionsMapper: a helper that is called with namespace="" (an explicitly unqualified SOAP child such as Fault/detail) does not treat
    the argument by truthiness - `namespace or default` / `if namespace` would turn the empty namespace into the inherited one."""
    mod = "xsdata.codegen.mappers.definitions"
    callees: dict[str, FuncInfo] = {}
    for f in ctx.repo.funcs_in(mod):
        for c in calls_in(f.node):
            for k in c.keywords:
                if k.arg == "namespace" and isinstance(k.value, ast.Constant) and k.value.value == "":
                    for h in ctx.res.resolve_call(f, c).funcs:
                        callees[h.qual] = h
    if not callees:
        ctx.abstain('call sites passing namespace=""', at=ctx.repo.func(f"{mod}:DefinitionsMapper.build_envelope_fault"))
        return
    for q, h in sorted(callees.items()):
        g = build_cfg(h.node)
        bad = [t for t in g.nodes if t.kind == "test" and isinstance(t.ast, ast.Name) and t.ast.id == "namespace"]
        bad += [x for x in walk_no_nested(h.node) if isinstance(x, ast.BoolOp) and any(isinstance(v, ast.Name) and v.id == "namespace" for v in x.values[:-1])]
        ctx.ob(f"{q.split(':')[1]}: the namespace argument is not defaulted by truthiness (the empty string is a value)", not bad, at=h, node=getattr(bad[0], "ast", bad[0]) if bad else None, construct=f"namespace truthiness {h.name}",
               msg='an explicit namespace="" falls back to the inherited namespace: Fault/detail becomes soapenv:detail and a real SOAP fault cannot be bound')


@rule("C16.R8")
def xmlns_declarations_are_recognised_by_their_value(ctx: Ctx) -> None:
    """DtdParser.build_ns_map takes every xmlns / xmlns:p attribute that declares a value into the element's namespace map - whatever its
    default keyword (#FIXED or a plain default): the skip guard looks at attribute.default_value, never at the keyword attribute.default."""
    fi = ctx.repo.func(f"{DP}:DtdParser.build_ns_map")
    fam = family(ctx.repo, fi)
    value_tests = kind_tests = 0
    where = None
    for f in fam:
        g = build_cfg(f.node)
        for t in g.nodes:
            if t.kind != "test" or t.ast is None:
                continue
            for x in ast.walk(t.ast):
                if isinstance(x, ast.Attribute) and isinstance(x.ctx, ast.Load):
                    if x.attr == "default_value":
                        value_tests += 1
                    elif x.attr == "default":
                        kind_tests += 1
                        where = where or t.ast
    # a declaration without a value (#IMPLIED / #REQUIRED xmlns:p) binds nothing: every store of a declared value into a mapping happens
    # only where that value was tested non-empty (else None overwrites the built-in binding of the prefix and the attribute is dropped)
    unguarded = []
    for f in fam:
        for st, tgt, v in stores(f.node):
            if isinstance(tgt, ast.Subscript) and v is not None:
                for leaf in (leaves_at(f, st, v) or [v]):
                    if isinstance(leaf, ast.Attribute) and leaf.attr == "default_value":
                        unguarded.append((f, st))
    # decided only in the unambiguous case: the declared value is stored and NO test in the function looks at a declared value at all
    # (a test that exists but guards the store through copies / a two-phase collection is not second-guessed)
    if value_tests > 0:
        unguarded = []
    if unguarded:
        ctx.ob("build_ns_map binds a prefix only to a declared, non-empty value", False, at=unguarded[0][0], node=unguarded[0][1], construct="xmlns value present",
               msg="`ns_map[...] = attribute.default_value` can run for an xmlns attribute declared without a value (#IMPLIED / #REQUIRED): the prefix is bound to None - over the built-in binding of xlink / xs / xsi / xml - "
                   "and prefixed attributes of the element lose their namespace (a DTD-valid document then fails with Unknown attribute)")
    if value_tests == 0 and kind_tests == 0:
        if not unguarded:
            ctx.abstain("xmlns recognition of build_ns_map", at=fi, why="no test on attribute.default_value / attribute.default in the function or its helpers")
        return
    ctx.ob("build_ns_map recognises a namespace declaration by its declared value (attribute.default_value), not by the default keyword", value_tests >= 1 and kind_tests == 0, at=fi, node=where,
           construct="xmlns by value", msg="an xmlns attribute with a plain default (`xmlns:p CDATA 'urn:x'`) is not moved into the namespace map: the element loses its namespace and keeps a stray attribute")


@rule("C18.R6")
def enum_members_never_take_the_scalar_path(ctx: Ctx) -> None:
    """PycodeSerializer.repr_object: the generic literal rendering (literal_value / repr) is reached only for values that are NOT Enum
    members - an Enum whose class mixes in str / int is still written as <Class>.<member>."""
    ro = ctx.repo.func(f"{PC}:PycodeSerializer.repr_object")
    g = build_cfg(ro.node)
    en = tests_like(ro, "isinstance(_, Enum)")
    lit = [n for n in g.stmts() if any(call_name_of(c) == "literal_value" for c in node_calls(n))]
    if not en or not lit:
        ctx.abstain("enum-before-scalar order of repr_object", at=ro, why="the Enum test or the literal_value call is not in the function (moved into a helper that is not inlined)")
        return
    bad = [n for n in lit if not any(g.only_if(n.id, t.id, False) for t in en)]
    ctx.ob("literal_value(obj) is reached only when isinstance(obj, Enum) is false", not bad, at=ro, node=bad[0].ast if bad else None, construct="enum before scalars",
           msg="a str / int based Enum member takes the scalar path and is written as its repr (<Unit.IN: 'in'>): the generated source does not compile")


@rule("C16.R9")
def mutated_results_are_fresh(ctx: Ctx) -> None:
    """In the DTD mapper, a mapping that a caller receives from a helper and then updates in place (`params = cls.build_occurs(..);
    params.update(..)`) is created by that helper for this call: a dict display / dict() / comprehension / copy - never an entry of a
    class-level or module-level table, which the caller's update would rewrite for every later content particle and DTD."""
    mod = "xsdata.codegen.mappers.dtd"
    funcs = {fi.name: fi for fi in ctx.repo.funcs_in(mod) if fi.cls is not None}
    n = 0
    for fi in funcs.values():
        mutated = {c.func.value.id for c in calls_in(fi.node) if isinstance(c.func, ast.Attribute) and c.func.attr in MUTATORS and isinstance(c.func.value, ast.Name)}
        mutated |= {tgt.value.id for st, tgt, v in stores(fi.node) if isinstance(tgt, ast.Subscript) and isinstance(tgt.value, ast.Name)}
        for st, tgt, v in stores(fi.node):
            if not (isinstance(tgt, ast.Name) and tgt.id in mutated and isinstance(v, ast.Call) and isinstance(v.func, ast.Attribute) and isinstance(v.func.value, ast.Name) and v.func.value.id in ("cls", "self")):
                continue
            helper = funcs.get(v.func.attr)
            if helper is None:
                continue
            g = build_cfg(helper.node)
            for r in g.returns():
                if r.ast is None or r.ast.value is None:
                    continue
                for leaf, _chain in flows(helper, r, r.ast.value):
                    fresh = isinstance(leaf, (ast.Dict, ast.DictComp, ast.List, ast.ListComp, ast.Set, ast.SetComp)) or (
                        isinstance(leaf, ast.Call) and (call_name_of(leaf) in ("dict", "list", "set", "copy", "deepcopy", "defaultdict", "OrderedDict")))
                    shared = False
                    if not fresh:
                        base = leaf
                        while isinstance(base, ast.Subscript):
                            base = base.value
                        if isinstance(base, ast.Call) and isinstance(base.func, ast.Attribute) and base.func.attr in ("get", "setdefault"):
                            base = base.func.value
                        shared = (isinstance(base, ast.Attribute) and isinstance(base.value, ast.Name) and base.value.id in ("cls", "self") and base is not leaf) or (
                            isinstance(base, ast.Name) and base.id.isupper() and base is not leaf)
                    n += 1
                    if fresh:
                        ctx.ob(f"{helper.name}() hands {fi.name}() a mapping of its own (the caller updates it in place)", True, at=helper, node=r.ast, construct=f"fresh result of {helper.name}")
                    elif shared:
                        ctx.ob(f"{helper.name}() hands {fi.name}() a mapping of its own (the caller updates it in place)", False, at=helper, node=r.ast, construct=f"fresh result of {helper.name}",
                               msg=f"returns `{unparse(leaf)}`, an entry of a shared table, and {fi.name}() then calls `{tgt.id}.update(...)` on it: the first choice group mapped rewrites the table (min_occurs 0, a stale choice id) "
                                   "for every later particle with the same occurrence indicator - in this and in every later DTD of the process")
                    else:
                        ctx.abstain(f"freshness of the result of {helper.name}", at=helper, why=f"returned value `{unparse(leaf)}` is neither a fresh container nor a recognisable table entry")
    ctx.note("C16.R9 helper results updated in place", n)
