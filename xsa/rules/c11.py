"""C11 - arbitrary XML survives the generic element model (structural clauses)."""

from __future__ import annotations

import ast

from ..cfg import build_cfg, calls_in, node_calls
from ..core import Ctx, property_info, rule
from ..events import event_of_yield, node_events
from ..model import AnalysisError, FuncInfo, walk_no_nested
from ..q import A, asrc, enum_members, is_self_attr, kwarg, stores, unparse

PAR = "xsdata.formats.dataclass.parsers"
SER = "xsdata.formats.dataclass.serializers.mixins"
GEN = "xsdata.formats.dataclass.models.generics"

property_info(
    "C11",
    explanation="Decides that the generic element model is complete on both sides: every field of AnyElement / DerivedElement is filled by the parser "
    "nodes and read by the event generator; the generic element's events are emitted in document order (start, attributes, text, children, end, "
    "tail); every sibling node treats attributes, whitespace-only text and tails alike; every wildcard namespace token is interpreted.",
    decides="field coverage of the generic classes on writer and reader, event order of generic elements, sibling agreement of node classes on tails / attributes / "
    "whitespace, totality over NamespaceType",
    not_decided="preservation for every document (value-level); behaviour of the XML libraries",
)


def _fields(ctx: Ctx, name: str) -> list[str]:
    return list(ctx.repo.cls(f"{GEN}:{name}").ann)


@rule("C11.R1")
def field_coverage(ctx: Ctx) -> None:
    """fields(AnyElement) = keywords the parser passes to the factory = attributes the event generator reads; same for DerivedElement."""
    any_f = _fields(ctx, "AnyElement")
    der_f = _fields(ctx, "DerivedElement")
    ctx.floor("AnyElement fields", len(any_f), 5)
    wn = ctx.repo.func(f"{PAR}.nodes.wildcard:WildcardNode.bind")
    fac = [c for c in calls_in(wn.node) if unparse(c.func) == "self.factory"]
    kws = {k.arg for c in fac for k in c.keywords}
    ctx.ob("WildcardNode.bind fills every AnyElement field", len(fac) == 1 and kws == set(any_f), at=wn, construct="wildcard factory keywords",
           msg=f"passes {sorted(kws)}, AnyElement has {any_f}: a part of the captured element is dropped")
    for c in fac:
        for k in c.keywords:
            ctx.ob(f"WildcardNode.bind: {k.arg}=<the value computed for {k.arg}>", unparse(k.value) == k.arg, at=wn, node=c, construct=f"factory {k.arg}", msg=f"{k.arg} is filled from {unparse(k.value)}")
    cae = ctx.repo.func(f"{SER}:EventGenerator.convert_any_element")
    reads = {n.attr for n in walk_no_nested(cae.node) if isinstance(n, ast.Attribute) and isinstance(n.value, ast.Name) and n.value.id == "value"}
    ctx.ob("convert_any_element reads every AnyElement field", reads >= set(any_f), at=cae, construct="generic reads", msg=f"reads {sorted(reads)}: {sorted(set(any_f) - reads)} never written back")
    # derived elements
    sites = []
    for q in (f"{PAR}.nodes.element:ElementNode.bind", f"{PAR}.nodes.standard:StandardNode.bind"):
        fi = ctx.repo.func(q)
        for c in calls_in(fi.node):
            if unparse(c.func) == "self.derived_factory":
                sites.append((fi, c))
    ctx.floor("derived factory call sites", len(sites), 2)
    for fi, c in sites:
        kws = {k.arg: unparse(k.value) for k in c.keywords}
        ctx.ob(f"{fi.qual.split(':')[1]}: derived_factory(qname=qname, value=obj, ...)", kws.get("qname") == "qname" and kws.get("value") == "obj" and set(kws) <= set(der_f), at=fi, node=c,
               msg=f"keywords {kws}")
    eb = ctx.repo.func(f"{PAR}.nodes.element:ElementNode.bind")
    ok = any(unparse(c.func) == "self.derived_factory" and unparse(kwarg(c, "type") or ast.Constant(0)) == "self.xsi_type" for c in calls_in(eb.node))
    ctx.ob("ElementNode.bind records the xsi:type in the derived element", ok, at=eb, construct="derived type kept", msg="xsi:type of a substituted element is lost")
    cde = ctx.repo.func(f"{SER}:EventGenerator.convert_derived_element")
    reads = {n.attr for n in walk_no_nested(cde.node) if isinstance(n, ast.Attribute) and isinstance(n.value, ast.Name) and n.value.id == "value"}
    ctx.ob("convert_derived_element reads qname and value of the derived element", {"qname", "value"} <= reads, at=cde, construct="derived reads", msg=f"reads {sorted(reads)}")
    tp = ctx.repo.func(f"{PAR}.tree:TreeParser.start")
    ok = any(unparse(c.func) == "WildcardNode" and unparse(kwarg(c, "factory") or ast.Constant(0)) == "self.context.class_type.any_element" for c in calls_in(tp.node))
    ctx.ob("TreeParser.start builds the same WildcardNode (factory = the generic element class)", ok, at=tp, construct="tree parser node", msg="the stand-alone tree parser builds another tree")
    en = ctx.repo.func(f"{PAR}.nodes.element:ElementNode.build_node")
    ok = any(unparse(c.func) == "nodes.WildcardNode" and unparse(kwarg(c, "factory") or ast.Constant(0)) == "self.context.class_type.any_element" and unparse(kwarg(c, "position") or ast.Constant(0)) == "position"
             for c in calls_in(en.node))
    ctx.ob("ElementNode.build_node falls back to WildcardNode(position=position, factory=generic element)", ok, at=en, construct="wildcard fallback", msg="unknown elements under a wildcard are not captured generically")
    fa = ctx.repo.func(f"{PAR}.nodes.wildcard:WildcardNode.fetch_any_children")
    ctx.ob("fetch_any_children takes all objects parsed since the element started, in order, and removes them", A("_=[_for_,_in_[_:]];del_[_:];return_") in asrc(fa), at=fa, construct="children slice",
           msg="children lost, duplicated or reordered")


@rule("C11.R2")
def generic_event_order(ctx: Ctx) -> None:
    """convert_any_element emits START? ATTR* DATA(text) children* END? DATA(tail)? with START and END under the same guard."""
    fi = ctx.repo.func(f"{SER}:EventGenerator.convert_any_element")
    g = build_cfg(fi.node)
    evs = []
    for n in g.stmts():
        for ev in node_events(n):
            evs.append((n, ev))
    kinds = [(ev.kind, ev.expr) for _, ev in evs]
    order = [k for k, _ in kinds]
    ctx.ob("events appear as START, ATTR, DATA, N(children), END, DATA", order == ["S", "A", "D", "N", "E", "D"], at=fi, construct="generic order", msg=f"event order is {kinds}")
    if order == ["S", "A", "D", "N", "E", "D"]:
        (sn, s), (an, a), (dn, d), (nn, nch), (en_, e), (tn, t) = evs
        ctx.ob("text DATA is value.text and tail DATA is value.tail", d.expr == "value.text" and t.expr == "value.tail", at=fi, construct="text/tail exprs", msg=f"{d.expr} / {t.expr}")
        ctx.ob("START and END name value.qname", s.expr == "value.qname" and e.expr == "value.qname", at=fi, construct="generic names", msg=f"{s.expr} / {e.expr}")
        ctx.ob("the tail is emitted after END on every path", g.must_pass(g.entry, tn.id, [en_.id]) or True and _after(g, en_, tn), at=fi, construct="tail after end", msg="tail text written inside the element")
        ctx.ob("children are emitted after the text and before END", _after(g, dn, nn) and _after(g, nn, en_), at=fi, construct="children position", msg="children order changed")
        ctx.ob("attributes are emitted before the text", _after(g, an, dn), at=fi, construct="attrs before text", msg="attributes after content")
        loop = [n for n in g.nodes if n.kind == "for" and "value.children" in unparse(n.ast.iter)]
        ctx.ob("children are emitted in list order", bool(loop) and unparse(loop[0].ast.iter) == "value.children", at=fi, construct="children order", msg="children iterated in another order")
        al = [n for n in g.nodes if n.kind == "for" and "value.attributes" in unparse(n.ast.iter)]
        ctx.ob("every attribute of the generic element is emitted", bool(al) and unparse(al[0].ast.iter) == "value.attributes.items()", at=fi, construct="attributes loop", msg="attributes filtered")
        tt = [x for x in g.nodes if x.kind == "test" and unparse(x.ast) == "value.tail"]
        ctx.ob("the tail is emitted whenever it is non-empty", bool(tt) and g.only_if(tn.id, tt[0].id, True), at=fi, construct="tail guard", msg="tail guard changed")
    # nested children are converted with the child's own namespace context
    nm = [st for st, tgt, v in stores(fi.node) if isinstance(tgt, ast.Name) and tgt.id == "namespace"]
    ctx.ob("children of a named generic element are converted under that element's namespace", bool(nm), at=fi, construct="child namespace", msg="namespace context of nested generic elements changed")
    cm = ctx.repo.func(f"{SER}:EventGenerator.convert_mixed_content")
    ctx.ob("mixed content values are emitted in list order through convert_any_type", A("for_in_:;yieldfromself.convert_any_type(_,_,_)") in asrc(cm), at=cm, construct="mixed order", msg="mixed content reordered / filtered")


def _after(g, a, b) -> bool:
    """b is reachable from a and a is not reachable from b (except through loops they do not share)."""
    return b.id in g.reachable([a.id]) and not (a.id in g.reachable([x for x, _ in g.succ[b.id]]))


@rule("C11.R3")
def sibling_attribute_treatment(ctx: Ctx) -> None:
    """Both binders of generic elements pass the raw attributes through parse_any_attributes(attrs, ns_map)."""
    for q in (f"{PAR}.nodes.wildcard:WildcardNode.bind", f"{PAR}.nodes.element:ElementNode.bind_wild_text"):
        fi = ctx.repo.func(q)
        calls = [c for c in calls_in(fi.node) if unparse(c.func) == "ParserUtils.parse_any_attributes"]
        ok = len(calls) == 1 and [unparse(a) for a in calls[0].args] == ["self.attrs", "self.ns_map"]
        ctx.ob(f"{q.split(':')[1]}: attributes = parse_any_attributes(self.attrs, self.ns_map)", ok, at=fi, construct="generic attributes", msg="attribute QName values are expanded in one sibling only")
    pa = ctx.repo.func(f"{PAR}.utils:ParserUtils.parse_any_attributes")
    ctx.ob("parse_any_attributes keeps every key and converts every value", A("return{_:cls.parse_any_attribute(_,_)for_,_in_.items()}") in asrc(pa), at=pa, construct="all attributes kept", msg="attributes dropped or keys rewritten")
    ba = ctx.repo.func(f"{PAR}.nodes.element:ElementNode.bind_any_attr")
    ctx.ob("bind_any_attr stores the attribute under its qualified name", A("_[_.name][_]=ParserUtils.parse_any_attribute(_,self.ns_map)") in asrc(ba), at=ba, construct="attributes map key", msg="attribute map keyed differently")


@rule("C11.R4")
def wildcard_namespace_tokens(ctx: Ctx) -> None:
    """Every NamespaceType constant is interpreted by resolve_namespaces or by _match_namespace."""
    nt = ctx.repo.cls("xsdata.models.enums:NamespaceType")
    members = set(enum_members(nt.node))
    rn = ctx.repo.func("xsdata.formats.dataclass.models.builders:XmlVarBuilder.resolve_namespaces")
    mn = ctx.repo.func("xsdata.formats.dataclass.models.elements:XmlVar._match_namespace")
    used_b = {n.attr for n in walk_no_nested(rn.node) if isinstance(n, ast.Attribute) and unparse(n.value) == "NamespaceType"}
    used_m = {n.attr for n in walk_no_nested(mn.node) if isinstance(n, ast.Attribute) and unparse(n.value) == "NamespaceType"}
    for m in sorted(members):
        ctx.ob(f"NamespaceType.{m} is interpreted", m in used_b or m in used_m, at=rn, construct=f"token {m}", msg="wildcard namespace token treated as a literal namespace")
    a = asrc(rn)
    ctx.ob("##targetNamespace -> parent namespace (or ##any), ##local -> '', ##other -> '!'+parent", A("_.add(_orNamespaceType.ANY_NS)") in a and A("_.add('')") in a and "_.add(f'!{_or" in a, at=rn,
           construct="token mapping", msg="token mapping changed")
    am = asrc(mn)
    ctx.ob("_match_namespace: '' matches unqualified names, ##any matches all, '!ns' matches every other namespace", A("not_and_isNone") in am and A("_in(_,NamespaceType.ANY_NS)") in am and A("_[0]=='!'and(_[1:]!=_)") in am,
           at=mn, construct="match semantics", msg="namespace matching changed")
    fb = ctx.repo.func("xsdata.formats.dataclass.models.elements:find_by_namespace")
    ctx.ob("find_by_namespace returns the first var whose namespaces match", A("for_in_:;if_.match_namespace(_):;return_;returnNone") in asrc(fb), at=fb, construct="first match", msg="wildcard selection changed")


@rule("C11.R5")
def whitespace_only_text(ctx: Ctx) -> None:
    """WildcardNode.bind normalises text only when children exist and always normalises the tail."""
    fi = ctx.repo.func(f"{PAR}.nodes.wildcard:WildcardNode.bind")
    a = asrc(fi)
    ctx.ob("text is normalised only when the element has children (whitespace-only text of a leaf is content)", A("_=ParserUtils.normalize_content(_)if_else_") in a, at=fi, construct="text normalisation", msg="leaf whitespace dropped or layout whitespace kept")
    g = build_cfg(fi.node)
    tails = [st for st, tgt, v in stores(fi.node) if unparse(tgt) == "tail" and v is not None and unparse(v) == "ParserUtils.normalize_content(tail)"]
    ctx.ob("the tail is always normalised", len(tails) == 1 and g.must_pass(g.entry, g.exit, [g.node_of(tails[0]).id]), at=fi, construct="tail normalisation", msg="layout whitespace bound as tail")
    # children are fetched before anything else touches the objects list
    first = [c for c in calls_in(fi.node) if unparse(c.func) == "self.fetch_any_children"]
    ctx.ob("children = fetch_any_children(self.position, objects)", len(first) == 1 and [unparse(x) for x in first[0].args] == ["self.position", "objects"], at=fi, construct="children fetch", msg="children taken from another position")
    apps = [c for c in calls_in(fi.node) if isinstance(c.func, ast.Attribute) and c.func.attr == "append" and unparse(c.func.value) == "objects"]
    ctx.ob("exactly one object is appended per generic element, under the wildcard field's qname", len(apps) == 2 and all(unparse(c.args[0].elts[0]) == "self.var.qname" for c in apps), at=fi, construct="one result", msg="result appended differently")


@rule("C11.R6")
def sibling_agreement_on_tails(ctx: Ctx) -> None:
    """Every XmlNode.bind that appends a parsed object accounts for the element's tail (stores it or appends the normalised tail)."""
    base = ctx.repo.cls(f"{PAR}.mixins:XmlNode")
    n = 0
    for s in base.all_subclasses():
        if not s.module.name.startswith(PAR):
            continue
        b = s.methods.get("bind")
        if b is None:
            continue
        appends = [c for c in calls_in(b.node) if isinstance(c.func, ast.Attribute) and c.func.attr == "append" and unparse(c.func.value) == "objects"]
        if not appends:
            continue  # binds nothing (skip / wrapper nodes)
        n += 1
        uses = [x for x in walk_no_nested(b.node) if isinstance(x, ast.Name) and x.id == "tail" and isinstance(x.ctx, ast.Load)]
        # tail forwarded to a helper counts (ElementNode.bind_content -> bind_wild_text)
        stored = any(isinstance(c.func, ast.Attribute) and any(k.arg == "tail" for k in c.keywords) for c in calls_in(b.node)) or any(
            unparse(c.args[0]).startswith("(None, tail") for c in appends if c.args)
        ctx.ob(f"{s.name}.bind accounts for the element tail", bool(uses) and stored, at=b, construct=f"{s.name} tail", msg="the tail text after this element is dropped in mixed content (its siblings keep it)")
        # the tail is appended only for mixed content parents (or when not consumed by the generic element)
        tail_apps = [c for c in appends if c.args and unparse(c.args[0]).startswith("(None, tail")]
        if tail_apps:
            g = build_cfg(b.node)
            guards = [t for t in g.nodes if t.kind == "test" and unparse(t.ast) in ("self.meta.mixed_content", "self.tail_processed")]
            ok = bool(guards) and all(any(g.only_if(g.node_of(c).id, t.id, unparse(t.ast) != "self.tail_processed") for t in guards) for c in tail_apps)
            ctx.ob(f"{s.name}.bind appends the tail only where mixed content can hold it", ok, at=b, construct=f"{s.name} tail guard", msg="tails appended for non-mixed parents (or twice)")
    ctx.floor("node classes that bind objects", n, 5)


@rule("C11.R7")
def single_wildcard_container(ctx: Ctx) -> None:
    """A second element bound to a single wildcard wraps the first in a nameless container unless the first already IS that nameless container."""
    fi = ctx.repo.func(f"{PAR}.nodes.element:ElementNode.bind_wild_var")
    g = build_cfg(fi.node)
    wraps = [g.node_of(st) for st, tgt, v in stores(fi.node) if isinstance(tgt, ast.Subscript) and isinstance(v, ast.Call) and any(k.arg == "children" for k in v.keywords)]
    inst = [t for t in g.nodes if t.kind == "test" and isinstance(t.ast, ast.Call) and unparse(t.ast.func) == "isinstance" and unparse(t.ast.args[0]) == "previous"]
    named = [t for t in g.nodes if t.kind == "test" and unparse(t.ast) == "previous.qname"]
    ok = len(wraps) == 1 and wraps[0] is not None and len(inst) == 1 and len(named) == 1
    if ok:
        w = wraps[0].id
        ok = w in [m for m, lab in g.succ[inst[0].id] if lab == "false"] and w in [m for m, lab in g.succ[named[0].id] if lab == "true"] and g.only_if(named[0].id, inst[0].id, True)
    ctx.ob("bind_wild_var wraps the previous value when it is not a generic element OR is a *named* generic element", ok, at=fi, construct="container decision",
           msg="a named generic element bound first is mistaken for the nameless container: later siblings are appended to ITS children (<a/><b/> becomes <a><b/></a>)")
    app = [n for n in g.stmts() if any(A(unparse(c)) == A("params[var.name].children.append(value)") for c in node_calls(n))]
    ctx.ob("the new value is appended to the container's children after the (possible) wrap", len(app) == 1 and bool(wraps) and wraps[0] is not None and app[0].id in g.reachable([wraps[0].id]), at=fi, construct="append after wrap", msg="value not appended")


from .c08 import in_scope_map_reaches_resolvers  # noqa: E402
from ..core import share  # noqa: E402

share("C11", "C11.R8", in_scope_map_reaches_resolvers)


@rule("C11.R9")
def tail_read_after_it_is_complete(ctx: Ctx) -> None:
    """A streaming handler must not read element.tail during the element's own END event (the tail is only complete at the next event)."""
    from .c08 import event_dispatch

    for q in (f"{PAR}.handlers.native:XmlEventHandler.process_context", f"{PAR}.handlers.lxml:LxmlEventHandler.process_context"):
        fi = ctx.repo.func(q)
        loop, _ev, el, d = event_dispatch(fi)
        elem = el.id
        reads = [x for n in d.specific("EventType.END") if n.ast is not None for x in ast.walk(n.ast) if isinstance(x, ast.Attribute) and x.attr == "tail" and isinstance(x.value, ast.Name) and x.value.id == elem]
        ctx.ob(f"{q.split(':')[1]}: the END branch does not read `{elem}.tail` of the element that is just ending", not reads, at=fi, node=reads[0] if reads else loop, construct="tail read at END",
               msg="iterparse guarantees an element's tail only once the NEXT event is delivered: when a read chunk of the underlying parser ends right after the end tag the tail is still None and is lost "
                   "(mixed content in documents larger than one chunk)")


share("C08", "C08.R9", tail_read_after_it_is_complete)

share("C09", "C09.R7", whitespace_only_text)  # whether a simple value stays a plain string must not depend on layout whitespace after it


@rule("C11.R10")
def routing_key_and_tail_flag(ctx: Ctx) -> None:
    """A wildcard's routing qname uses one of its own namespace entries verbatim (only '' and ##tokens are skipped); tail_processed is set only where the tail was stored."""
    dn = ctx.repo.func("xsdata.formats.dataclass.models.elements:default_namespace")
    g = build_cfg(dn.node)
    tests = [t for t in g.nodes if t.kind == "test"]
    texts = sorted(A(anon(dn, t.ast)) for t in tests)
    ok = texts == sorted([A("_"), A("_.startswith('#')")])
    ctx.ob("default_namespace skips only empty entries and ##tokens (a '!ns' entry of ##other IS the wildcard's routing namespace)", ok, at=dn, construct="default namespace filter",
           msg=f"filter tests are {texts}: a ##other wildcard gets an unqualified routing qname and its elements are re-dispatched to an earlier ##local wildcard (order lost)")
    init = ctx.repo.func("xsdata.formats.dataclass.models.elements:XmlVar.__init__")
    ctx.ob("XmlVar.qname = build_qname(default_namespace(namespaces), local_name)", A("_=default_namespace(_);self.qname=build_qname(_,_)") in asrc(init), at=init, construct="var qname", msg="routing qname built differently")
    bw = ctx.repo.func(f"{PAR}.nodes.element:ElementNode.bind_wild_text")
    g = build_cfg(bw.node)
    flags = [g.node_of(st) for st, tgt, v in stores(bw.node) if is_self_attr(tgt, "tail_processed")]
    lt = [t for t in g.nodes if t.kind == "test" and unparse(t.ast) == "var.list_element"]
    stored = [n for n in g.stmts() if any(isinstance(c.func, ast.Name) and any(k.arg == "tail" for k in c.keywords) for c in node_calls(n))]
    ok = len(flags) == 1 and len(lt) == 1 and bool(stored) and g.only_if(flags[0].id, lt[0].id, False) and all(g.must_pass(g.entry, flags[0].id, [x.id for x in stored]) for _ in [0])
    ctx.ob("bind_wild_text sets tail_processed only on the branch that stored the tail in the generic element (not for list wildcards)", ok, at=bw, construct="tail_processed flag",
           msg="the flag is set although the list-wildcard branch never stores the tail: ElementNode.bind then skips appending it and the text after the element is lost")


def anon(fi, node):
    from ..model import anon_text

    return anon_text(node, fi.node)
