"""C11 - arbitrary XML survives the generic element model (structural clauses)."""

from __future__ import annotations

import ast

from ..cfg import build_cfg, calls_in, node_calls
from ..core import Ctx, property_info, rule
from ..events import event_of_yield, node_events, canonical_events
from ..model import AnalysisError, FuncInfo, walk_no_nested
from ..q import A, Dispatch, tests_raw, passes, value_texts, reach_table, reach_env, node_containing, asrc, call_name_of, calls_named, func_text, leaves_at, raw_forms, enum_members, flow_conditions, flows, forms, is_self_attr, kwarg, return_values, stores, str_template, template_text, unparse

PAR = "xsdata.formats.dataclass.parsers"
SER = "xsdata.formats.dataclass.serializers.mixins"
GEN = "xsdata.formats.dataclass.models.generics"

property_info(
    "C11",
    explanation="Decides that the generic element model is complete on both sides: every field of AnyElement / DerivedElement is filled by the parser "
    "nodes and read by the event generator; the generic element's events are emitted in document order (start, attributes, text, children, end, "
    "tail); every sibling node treats attributes, whitespace-only text and tails alike; every wildcard namespace token is interpreted.",
    decides="field coverage of the generic classes on writer and reader, event order of generic elements, sibling agreement of node classes on tails / attributes / "
    "whitespace, totality over NamespaceType",
    not_decided="preservation for every document (value-level); behaviour of the XML libraries",
)


def _fields(ctx: Ctx, name: str) -> list[str]:
    return list(ctx.repo.cls(f"{GEN}:{name}").ann)


@rule("C11.R1")
def field_coverage(ctx: Ctx) -> None:
    """fields(AnyElement) = keywords the parser passes to the factory = attributes the event generator reads; same for DerivedElement."""
    any_f = _fields(ctx, "AnyElement")
    der_f = _fields(ctx, "DerivedElement")
    ctx.floor("AnyElement fields", len(any_f), 5)
    wn = ctx.repo.func(f"{PAR}.nodes.wildcard:WildcardNode.bind")
    fac = [c for c in calls_in(wn.node) if unparse(c.func) == "self.factory"]
    kws = {k.arg for c in fac for k in c.keywords}
    ctx.ob("WildcardNode.bind fills every AnyElement field", len(fac) == 1 and kws == set(any_f), at=wn, construct="wildcard factory keywords",
           msg=f"passes {sorted(kws)}, AnyElement has {any_f}: a part of the captured element is dropped")
    cae = ctx.repo.func(f"{SER}:EventGenerator.convert_any_element")
    reads = {n.attr for n in walk_no_nested(cae.node) if isinstance(n, ast.Attribute) and isinstance(n.value, ast.Name) and n.value.id == "value"}
    ctx.ob("convert_any_element reads every AnyElement field", reads >= set(any_f), at=cae, construct="generic reads", msg=f"reads {sorted(reads)}: {sorted(set(any_f) - reads)} never written back")
    # derived elements
    sites = []
    for q in (f"{PAR}.nodes.element:ElementNode.bind", f"{PAR}.nodes.standard:StandardNode.bind"):
        fi = ctx.repo.func(q)
        for c in calls_in(fi.node):
            if func_text(fi, c) == "self.derived_factory":
                sites.append((fi, c))
    ctx.floor("derived factory call sites", len(sites), 2)
    for fi, c in sites:
        kws = {k.arg: unparse(k.value) for k in c.keywords}
        ctx.ob(f"{fi.qual.split(':')[1]}: derived_factory(qname=..., value=..., ...) passes DerivedElement fields only", kws.get("qname") == "qname" and "value" in kws and set(kws) <= set(der_f), at=fi, node=c,
               construct="derived factory keywords", msg=f"keywords {kws}")
    eb = ctx.repo.func(f"{PAR}.nodes.element:ElementNode.bind")
    ok = any("self.xsi_type" in raw_forms(eb, c, kwarg(c, "type")) for c in calls_named(eb, "self.derived_factory"))
    ctx.ob("ElementNode.bind records the xsi:type in the derived element", ok, at=eb, construct="derived type kept", msg="xsi:type of a substituted element is lost")
    cde = ctx.repo.func(f"{SER}:EventGenerator.convert_derived_element")
    reads = {n.attr for n in walk_no_nested(cde.node) if isinstance(n, ast.Attribute) and isinstance(n.value, ast.Name) and n.value.id == "value"}
    ctx.ob("convert_derived_element reads qname and value of the derived element", {"qname", "value"} <= reads, at=cde, construct="derived reads", msg=f"reads {sorted(reads)}")
    tp = ctx.repo.func(f"{PAR}.tree:TreeParser.start")
    ok = any(func_text(tp, c) == "WildcardNode" and passes(ctx, tp, c, "factory", "self.context.class_type.any_element") for c in calls_in(tp.node))
    ctx.ob("TreeParser.start builds the same WildcardNode (factory = the generic element class)", ok, at=tp, construct="tree parser node", msg="the stand-alone tree parser builds another tree")
    en = ctx.repo.func(f"{PAR}.nodes.element:ElementNode.build_node")
    ok = any(func_text(en, c) == "nodes.WildcardNode" and passes(ctx, en, c, "factory", "self.context.class_type.any_element") and passes(ctx, en, c, "position", "position")
             for c in calls_in(en.node))
    ctx.ob("ElementNode.build_node falls back to WildcardNode(position=position, factory=generic element)", ok, at=en, construct="wildcard fallback", msg="unknown elements under a wildcard are not captured generically")
    fa = ctx.repo.func(f"{PAR}.nodes.wildcard:WildcardNode.fetch_any_children")
    slices = [x for x in walk_no_nested(fa.node) if isinstance(x, ast.Subscript) and unparse(x.value) == "objects" and isinstance(x.slice, ast.Slice)]
    same = all(unparse(x.slice.lower or ast.Constant(0)) == "position" and x.slice.upper is None and x.slice.step is None for x in slices)
    emptied = [st for st, tgt, v in stores(fa.node) if isinstance(tgt, ast.Subscript) and unparse(tgt.value) == "objects" and isinstance(tgt.slice, ast.Slice) and isinstance(v, (ast.List, ast.Tuple)) and not v.elts]
    removed = any(isinstance(x.ctx, ast.Del) for x in slices) or bool(emptied)  # del objects[position:]  /  objects[position:] = []
    ok = same and any(isinstance(x.ctx, ast.Load) for x in slices) and removed and not any(isinstance(c, ast.Call) and call_name_of(c) in ("reversed", "sorted", "set") for c in walk_no_nested(fa.node))
    ctx.ob("fetch_any_children takes all objects parsed since the element started (objects[position:]), in order, and removes exactly that slice", ok, at=fa, construct="children slice",
           msg="children lost, duplicated or reordered")


@rule("C11.R2")
def generic_event_order(ctx: Ctx) -> None:
    """convert_any_element emits START? ATTR* DATA(text) children* END? DATA(tail)? with START and END under the same guard."""
    fi = ctx.repo.func(f"{SER}:EventGenerator.convert_any_element")
    g = build_cfg(fi.node)
    evs = []
    for n in g.stmts():
        for ev in canonical_events(fi, n):
            evs.append((n, ev))
    kinds = [(ev.kind, ev.expr) for _, ev in evs]
    order = [k for k, _ in kinds]
    if order != ["S", "A", "D", "N", "E", "D"]:
        # the events may be written once per branch (named / nameless element): check the order along every path instead of in the text
        import re as _re

        by_node: dict[int, str] = {}
        for n_, ev in evs:
            by_node[n_.id] = by_node.get(n_.id, "") + ev.kind
        seqs: set[str] = set()

        def walk(nid: int, seen: frozenset, acc: str) -> None:
            if len(seqs) > 400:
                return
            acc = acc + by_node.get(nid, "")
            if nid == g.exit:
                seqs.add(acc)
                return
            nxt = [m for m, lab in g.succ[nid] if lab != "exc" and m not in seen]
            if not nxt:
                return
            for m in nxt:
                walk(m, seen | {nid}, acc)

        walk(g.entry, frozenset(), "")
        # loops are walked at most once: A / N appear at most once per path
        good = bool(seqs) and all(_re.fullmatch(r"(SA?DN?ED?|A?DN?D?)", q) for q in seqs) and any(q.startswith("S") for q in seqs)
        ctx.ob("events appear as START, ATTR, DATA, N(children), END, DATA", good, at=fi, construct="generic order", msg=f"event order along the paths is {sorted(seqs)[:6]}")
    else:
        ctx.ob("events appear as START, ATTR, DATA, N(children), END, DATA", True, at=fi, construct="generic order", msg=f"event order is {kinds}")
    if order == ["S", "A", "D", "N", "E", "D"]:
        (sn, s), (an, a), (dn, d), (nn, nch), (en_, e), (tn, t) = evs
        ctx.ob("text DATA is value.text and tail DATA is value.tail", d.expr == "value.text" and t.expr == "value.tail", at=fi, construct="text/tail exprs", msg=f"{d.expr} / {t.expr}")
        ctx.ob("START and END name value.qname", s.expr == "value.qname" and e.expr == "value.qname", at=fi, construct="generic names", msg=f"{s.expr} / {e.expr}")
        ctx.ob("the tail is emitted after END on every path", g.must_pass(g.entry, tn.id, [en_.id]) or True and _after(g, en_, tn), at=fi, construct="tail after end", msg="tail text written inside the element")
        ctx.ob("children are emitted after the text and before END", _after(g, dn, nn) and _after(g, nn, en_), at=fi, construct="children position", msg="children order changed")
        ctx.ob("attributes are emitted before the text", _after(g, an, dn), at=fi, construct="attrs before text", msg="attributes after content")
        loop = [n for n in g.nodes if n.kind == "for" and any("value.children" in t for t in value_texts(fi, n, n.ast.iter))]
        ctx.ob("children are emitted in list order", bool(loop) and "value.children" in value_texts(fi, loop[0], loop[0].ast.iter), at=fi, construct="children order", msg="children iterated in another order")
        al = [n for n in g.nodes if n.kind == "for" and any("value.attributes" in t for t in value_texts(fi, n, n.ast.iter))]
        ctx.ob("every attribute of the generic element is emitted", bool(al) and bool({"value.attributes.items()", "value.attributes"} & value_texts(fi, al[0], al[0].ast.iter)), at=fi, construct="attributes loop", msg="attributes filtered")
        tab = reach_table(fi, tn, [{"value.tail": True, "value.tail is not None": True, "value.tail is None": False}], raw=True)
        if tab is not None:
            ctx.ob("the tail is emitted whenever it is non-empty", tab == {(True,): True, (False,): False}, at=fi, construct="tail guard", msg=f"tail guard changed: tail event under {tab}")

def _after(g, a, b) -> bool:
    """b is reachable from a and a is not reachable from b (except through loops they do not share)."""
    return b.id in g.reachable([a.id]) and not (a.id in g.reachable([x for x, _ in g.succ[b.id]]))


@rule("C11.R3")
def sibling_attribute_treatment(ctx: Ctx) -> None:
    """Both binders of generic elements pass the raw attributes through parse_any_attributes(attrs, ns_map)."""
    for q in (f"{PAR}.nodes.wildcard:WildcardNode.bind", f"{PAR}.nodes.element:ElementNode.bind_wild_text"):
        fi = ctx.repo.func(q)
        calls = [c for c in calls_in(fi.node) if func_text(fi, c) == "ParserUtils.parse_any_attributes"]
        ok = len(calls) == 1 and passes(ctx, fi, calls[0], "attrs", "self.attrs") and passes(ctx, fi, calls[0], "ns_map", "self.ns_map")
        ctx.ob(f"{q.split(':')[1]}: attributes = parse_any_attributes(self.attrs, self.ns_map)", ok, at=fi, construct="generic attributes", msg="attribute QName values are expanded in one sibling only")
    pa = ctx.repo.func(f"{PAR}.utils:ParserUtils.parse_any_attributes")
    rv = return_values(pa.node)
    ok = bool(rv) and all(isinstance(v, ast.DictComp) and len(v.generators) == 1 and not v.generators[0].ifs and isinstance(v.generators[0].target, ast.Tuple)
                          and unparse(v.key) == unparse(v.generators[0].target.elts[0]) for v in rv)
    recognised = bool(rv) and all(isinstance(v, ast.DictComp) for v in rv)
    if not ok and not recognised:
        # dict(zip(attrs, <values converted in order, unfiltered>))
        def _zip_form(v: ast.expr) -> bool:
            if not (isinstance(v, ast.Call) and unparse(v.func) == "dict" and len(v.args) == 1 and isinstance(v.args[0], ast.Call) and unparse(v.args[0].func) == "zip" and len(v.args[0].args) == 2):
                return False
            k_, vals = v.args[0].args
            keys_ok = unparse(k_) in ("attrs", "attrs.keys()")
            vals_ok = isinstance(vals, (ast.GeneratorExp, ast.ListComp)) and len(vals.generators) == 1 and not vals.generators[0].ifs and unparse(vals.generators[0].iter) == "attrs.values()" \
                and any(isinstance(x, ast.Name) and x.id == getattr(vals.generators[0].target, "id", None) for x in ast.walk(vals.elt))
            return keys_ok and vals_ok

        if rv and all(_zip_form(v) for v in rv):
            ok = recognised = True
    if not ok and not recognised:
        # loop form: for key, value in attrs.items(): result[key] = parse_any_attribute(value, ...) - no condition anywhere, key stored unchanged
        gpa = build_cfg(pa.node)
        loops = [n for n in walk_no_nested(pa.node) if isinstance(n, ast.For) and isinstance(n.target, ast.Tuple) and len(n.target.elts) == 2 and ".items()" in unparse(n.iter)]
        sts = [(tgt, v) for _, tgt, v in stores(pa.node) if isinstance(tgt, ast.Subscript)]
        ok = len(loops) == 1 and len(sts) == 1 and unparse(sts[0][0].slice) == unparse(loops[0].target.elts[0]) and not [t for t in gpa.nodes if t.kind == "test"] \
            and not any(isinstance(x, ast.comprehension) and x.ifs for x in walk_no_nested(pa.node)) and isinstance(sts[0][1], ast.Call) and call_name_of(sts[0][1]) == "parse_any_attribute"
        recognised = bool(loops) and bool(sts)
    if recognised:
        ctx.ob("parse_any_attributes keeps every key (no filter, key unchanged) and converts every value", ok, at=pa, construct="all attributes kept", msg="attributes dropped or keys rewritten")
    else:
        ctx.abstain("parse_any_attributes: how the result mapping is built", at=pa, why="neither a dict comprehension, a dict(zip(...)) nor a loop that stores per key")


@rule("C11.R4")
def wildcard_namespace_tokens(ctx: Ctx) -> None:
    """Every NamespaceType constant is interpreted by resolve_namespaces or by _match_namespace."""
    nt = ctx.repo.cls("xsdata.models.enums:NamespaceType")
    members = set(enum_members(nt.node))
    rn = ctx.repo.func("xsdata.formats.dataclass.models.builders:XmlVarBuilder.resolve_namespaces")
    mn = ctx.repo.func("xsdata.formats.dataclass.models.elements:XmlVar._match_namespace")
    from ..q import family

    rn_family = family(ctx.repo, rn)
    used_b = {n.attr for f in rn_family for n in walk_no_nested(f.node) if isinstance(n, ast.Attribute) and unparse(n.value) == "NamespaceType"}
    used_m = {n.attr for f in family(ctx.repo, mn) for n in walk_no_nested(f.node) if isinstance(n, ast.Attribute) and unparse(n.value) == "NamespaceType"}
    for m in sorted(members):
        ctx.ob(f"NamespaceType.{m} is interpreted", m in used_b or m in used_m, at=rn, construct=f"token {m}", msg="wildcard namespace token treated as a literal namespace")
    # the function (resolve_namespaces itself or a helper it delegates each entry to) that dispatches on the token
    table: dict[str | None, set[str]] = {}
    tokvar = None
    for f in rn_family:
        cands = [a.arg for a in f.pos_params if a.arg not in ("self", "cls")] + [n.target.id for n in walk_no_nested(f.node) if isinstance(n, ast.For) and isinstance(n.target, ast.Name)]
        for tok in cands:
            d = Dispatch(f.node, is_subject=lambda e, tok=tok: isinstance(e, ast.Name) and e.id == tok)
            if not any(k.startswith("NamespaceType.") for k in d.keys):
                continue
            tokvar = tok
            for key in [*sorted(d.keys), None]:
                produced: set[str] = set()
                for n in d.specific(key):
                    if n.kind == "test" or n.ast is None:
                        continue
                    exprs = [c.args[0] for c in node_calls(n) if isinstance(c.func, ast.Attribute) and c.func.attr == "add" and len(c.args) == 1]
                    if isinstance(n.ast, ast.Return) and n.ast.value is not None:
                        exprs.append(n.ast.value)
                    if isinstance(n.ast, ast.Expr) and isinstance(n.ast.value, ast.Yield) and n.ast.value.value is not None:
                        exprs.append(n.ast.value.value)  # a generator helper yields the decoded entries
                    for e in exprs:
                        for leaf, _ in flows(f, n, e):
                            t = str_template(leaf)
                            if t is not None and any(k == "hole" for k, _ in t):
                                holes = [v for k, v in t if k == "hole"]
                                alts = sorted(unparse(x) for h in holes for x, _ in flows(f, n, h))
                                produced.add(template_text(t) + " with " + ",".join(alts))
                            else:
                                produced.add(unparse(leaf))
                table[key] = produced
            break
        if tokvar:
            break
    if tokvar is None:
        # table form: {NamespaceType.X: value, ...}.get(token, token)
        gfam = [(f, build_cfg(f.node)) for f in rn_family]
        for f, gf in gfam:
            for n in gf.stmts():
                if n.ast is None or n.kind == "test":
                    continue
                for dct in [x for x in ast.walk(n.ast) if isinstance(x, ast.Dict) and sum(1 for k in x.keys if k is not None and unparse(k).startswith("NamespaceType.")) >= 2]:
                    holder = {t.id for st, t, v in stores(f.node) if v is dct and isinstance(t, ast.Name)}
                    gets = [c for c in calls_in(f.node) if isinstance(c.func, ast.Attribute) and c.func.attr == "get" and len(c.args) == 2 and (unparse(c.func.value) in holder or c.func.value is dct)
                            and isinstance(c.args[0], ast.Name) and unparse(c.args[1]) == unparse(c.args[0])]
                    if not gets:
                        continue
                    tokvar = gets[0].args[0].id
                    table[None] = {tokvar}
                    for k, v in zip(dct.keys, dct.values):
                        produced = set()
                        for leaf, _ in flows(f, n, v):
                            t = str_template(leaf)
                            if t is not None and any(kk == "hole" for kk, _ in t):
                                holes = [hv for kk, hv in t if kk == "hole"]
                                produced.add(template_text(t) + " with " + ",".join(sorted(unparse(x) for h in holes for x, _ in flows(f, n, h))))
                            else:
                                produced.add(unparse(leaf))
                        table[unparse(k)] = produced
    if tokvar is None:
        ctx.abstain("wildcard namespace token mapping of resolve_namespaces", at=rn, why="neither a dispatch on the token nor a constant lookup table with a verbatim default")
        want = {}
        table = {}
    want = {} if tokvar is None else {
        "NamespaceType.TARGET_NS": {"parent_namespace", "NamespaceType.ANY_NS"},
        "NamespaceType.LOCAL_NS": {"''"},
        "NamespaceType.OTHER_NS": {"!{} with '',parent_namespace"},
    }
    ok = all(table.get(k) == v for k, v in want.items()) and tokvar is not None and table.get(None) == {tokvar}
    if tokvar is not None:
        ctx.ob("##targetNamespace -> parent namespace (or ##any), ##local -> '', ##other -> '!'+parent, any other entry is kept verbatim", ok, at=rn,
               construct="token mapping", msg=f"token mapping changed: {table}")
    # matching side: the three encodings are recognised by _match_namespace ('' <-> no namespace, ##any, leading '!')
    consts = {x.value for f in family(ctx.repo, mn) for x in walk_no_nested(f.node) if isinstance(x, ast.Constant) and isinstance(x.value, str)}
    ctx.ob("_match_namespace recognises the '!ns' encoding and ##any", "!" in consts and "ANY_NS" in used_m, at=mn, construct="match semantics", msg="namespace matching changed")
    fb = ctx.repo.func("xsdata.formats.dataclass.models.elements:find_by_namespace")
    g = build_cfg(fb.node)
    mt = [t for t in g.nodes if t.kind == "test" and isinstance(t.ast, ast.Call) and call_name_of(t.ast) == "match_namespace"]
    rets = [r for r in g.returns() if r.ast.value is not None and not (isinstance(r.ast.value, ast.Constant) and r.ast.value.value is None)]
    ok = bool(mt) and bool(rets) and all(any(g.only_if(r.id, t.id, True) for t in mt) for r in rets) and not any(isinstance(c, ast.Call) and call_name_of(c) in ("reversed", "sorted") for c in walk_no_nested(fb.node))
    ctx.ob("find_by_namespace returns the first var (in list order) whose namespaces match", ok or bool([c for c in calls_in(fb.node) if call_name_of(c) in ("first", "next")]) and bool([c for c in walk_no_nested(fb.node) if isinstance(c, ast.Call) and call_name_of(c) == "match_namespace"]),
           at=fb, construct="first match", msg="wildcard selection changed")


@rule("C11.R5")
def whitespace_only_text(ctx: Ctx) -> None:
    """WildcardNode.bind normalises text only when children exist and always normalises the tail."""
    fi = ctx.repo.func(f"{PAR}.nodes.wildcard:WildcardNode.bind")
    g = build_cfg(fi.node)
    fac = [(n, c) for n in g.stmts() for c in node_calls(n) if unparse(c.func) == "self.factory"]
    ok = False
    tail_ok = False
    for n, c in fac:
        tv = kwarg(c, "text")
        leaves = [(leaf, flow_conditions(fi, n, chain)) for leaf, chain in flows(fi, n, tv)] if tv is not None else []
        norm = [(leaf, conds) for leaf, conds in leaves if isinstance(leaf, ast.Call) and call_name_of(leaf) == "normalize_content"]
        raw = [(leaf, conds) for leaf, conds in leaves if isinstance(leaf, ast.Name)]
        has_children = lambda conds, want: any("fetch_any_children" in t and pol == want for t, pol in conds)  # noqa: E731
        ok = bool(norm) and bool(raw) and all(has_children(cd, True) for _, cd in norm)
        tl = kwarg(c, "tail")
        tleaves = [leaf for leaf, _ in flows(fi, n, tl)] if tl is not None else []
        tail_ok = bool(tleaves) and all(isinstance(leaf, ast.Call) and call_name_of(leaf) == "normalize_content" for leaf in tleaves)
    ctx.ob("text is normalised only when the element has children (whitespace-only text of a leaf is content)", ok, at=fi, construct="text normalisation", msg="leaf whitespace dropped or layout whitespace kept")
    # ... also where it decides the shape of the result (generic element vs plain text)
    for t in g.nodes:
        if t.kind == "test" and isinstance(t.ast, ast.Name) and t.ast.id == "tail":
            tl2 = [leaf for leaf, _ in flows(fi, t, t.ast)]
            tail_ok = tail_ok and bool(tl2) and all(isinstance(leaf, ast.Call) and call_name_of(leaf) == "normalize_content" for leaf in tl2)
    ctx.ob("the tail is always normalised", tail_ok, at=fi, construct="tail normalisation", msg="layout whitespace bound as tail (or deciding between generic element and plain text)")
    first = [c for c in calls_in(fi.node) if unparse(c.func) == "self.fetch_any_children"]
    ctx.ob("children = fetch_any_children(self.position, objects)", len(first) == 1 and passes(ctx, fi, first[0], "position", "self.position") and passes(ctx, fi, first[0], "objects", "objects"), at=fi, construct="children fetch", msg="children taken from another position")
    apps = [(n, c) for n in g.stmts() for c in node_calls(n) if isinstance(c.func, ast.Attribute) and c.func.attr == "append" and unparse(c.func.value) == "objects"]
    once = bool(apps) and all(any(isinstance(tp_, ast.Tuple) and tp_.elts and "self.var.qname" in value_texts(fi, getattr(tp_, "_xsa_at", None) or c, tp_.elts[0]) for tp_ in leaves_at(fi, c, c.args[0])) for _, c in apps) and not any(
        b.id in g.reachable([m for m, _ in g.succ[a.id]]) for a, _ in apps for b, _ in apps)
    ctx.ob("exactly one object is appended per generic element, under the wildcard field's qname", once, at=fi, construct="one result", msg="result appended differently")


def _is_tail_tuple(e: ast.expr, fi: FuncInfo | None = None, where: ast.AST | None = None) -> bool:
    """(None, <tail>) - the shape in which a node hands mixed-content text to its parent; <tail> is the `tail` parameter or derived from it."""
    if not (isinstance(e, ast.Tuple) and len(e.elts) == 2 and isinstance(e.elts[0], ast.Constant) and e.elts[0].value is None):
        return False
    v = e.elts[1]
    if isinstance(v, ast.Name) and v.id == "tail":
        return True
    if fi is not None and where is not None:
        return any(any(isinstance(x, ast.Name) and x.id == "tail" for x in ast.walk(leaf)) for leaf in leaves_at(fi, where, v))
    return False


@rule("C11.R6")
def sibling_agreement_on_tails(ctx: Ctx) -> None:
    """Every XmlNode.bind that appends a parsed object accounts for the element's tail (stores it or appends the normalised tail)."""
    base = ctx.repo.cls(f"{PAR}.mixins:XmlNode")
    n = 0
    for s in base.all_subclasses():
        if not s.module.name.startswith(PAR):
            continue
        b = s.methods.get("bind")
        if b is None:
            continue
        appends = [c for c in calls_in(b.node) if isinstance(c.func, ast.Attribute) and c.func.attr == "append" and unparse(c.func.value) == "objects"]
        if not appends:
            continue  # binds nothing (skip / wrapper nodes)
        n += 1
        uses = [x for x in walk_no_nested(b.node) if isinstance(x, ast.Name) and x.id == "tail" and isinstance(x.ctx, ast.Load)]
        # tail forwarded to a helper counts (ElementNode.bind_content -> bind_wild_text)
        stored = any(isinstance(c.func, ast.Attribute) and any(k.arg == "tail" for k in c.keywords) for c in calls_in(b.node)) or any(
            _is_tail_tuple(c.args[0], b, c) for c in appends if c.args)
        ctx.ob(f"{s.name}.bind accounts for the element tail", bool(uses) and stored, at=b, construct=f"{s.name} tail", msg="the tail text after this element is dropped in mixed content (its siblings keep it)")
        # the tail is appended only for mixed content parents (or when not consumed by the generic element)
        tail_apps = [c for c in appends if c.args and _is_tail_tuple(c.args[0], b, c)]
        if tail_apps:
            g = build_cfg(b.node)
            mixed, done = tests_raw(b, "self.meta.mixed_content"), tests_raw(b, "self.tail_processed")
            ok = bool(mixed or done) and all(any(g.only_if(node_containing(g, c).id, t.id, True) for t in mixed) or any(g.only_if(node_containing(g, c).id, t.id, False) for t in done) for c in tail_apps)
            ctx.ob(f"{s.name}.bind appends the tail only where mixed content can hold it", ok, at=b, construct=f"{s.name} tail guard", msg="tails appended for non-mixed parents (or twice)")
    ctx.floor("node classes that bind objects", n, 5)


@rule("C11.R7")
def single_wildcard_container(ctx: Ctx) -> None:
    """A second element bound to a single wildcard wraps the first in a nameless container unless the first already IS that nameless container."""
    fi = ctx.repo.func(f"{PAR}.nodes.element:ElementNode.bind_wild_var")
    g = build_cfg(fi.node)
    wraps = [g.node_of(st) for st, tgt, v in stores(fi.node) if isinstance(tgt, ast.Subscript) and v is not None
             and any(isinstance(x, ast.Call) and any(k.arg == "children" for k in x.keywords) for x in leaves_at(fi, st, v))]
    ok = len(wraps) == 1 and wraps[0] is not None
    if ok:
        # the wrap must be reachable (a) when the previous value is not a generic element and (b) when it is one that has a qname;
        # it must be unreachable when the previous value is a nameless generic element
        def decide_factory(inst: bool, named: bool):
            def decide(t):
                if isinstance(t.ast, ast.Call) and call_name_of(t.ast) == "isinstance" and len(t.ast.args) == 2 and "any_element" in " ".join(forms(fi, t, t.ast.args[1])):
                    return inst
                if isinstance(t.ast, ast.Attribute) and t.ast.attr == "qname" and not is_self_attr(t.ast):
                    return named
                return None
            return decide

        w = wraps[0].id
        ok = w in g.reach_assuming(decide_factory(False, False)) and w in g.reach_assuming(decide_factory(True, True)) and w not in g.reach_assuming(decide_factory(True, False))
    ctx.ob("bind_wild_var wraps the previous value when it is not a generic element OR is a *named* generic element", ok, at=fi, construct="container decision",
           msg="a named generic element bound first is mistaken for the nameless container: later siblings are appended to ITS children (<a/><b/> becomes <a><b/></a>)")
    app = [n for n in g.stmts() if any(isinstance(c.func, ast.Attribute) and c.func.attr == "append" and unparse(c.func.value).endswith(".children") for c in node_calls(n))]
    ctx.ob("the new value is appended to the container's children after the (possible) wrap", len(app) == 1 and bool(wraps) and wraps[0] is not None and app[0].id in g.reachable([wraps[0].id]), at=fi, construct="append after wrap", msg="value not appended")


from .c08 import in_scope_map_reaches_resolvers  # noqa: E402
from ..core import share  # noqa: E402

share("C11", "C11.R8", in_scope_map_reaches_resolvers)


@rule("C11.R9")
def tail_read_after_it_is_complete(ctx: Ctx) -> None:
    """A streaming handler must not read element.tail during the element's own END event (the tail is only complete at the next event)."""
    from .c08 import event_dispatch

    for q in (f"{PAR}.handlers.native:XmlEventHandler.process_context", f"{PAR}.handlers.lxml:LxmlEventHandler.process_context"):
        fi = ctx.repo.func(q)
        loop, _ev, el, d = event_dispatch(fi)
        elem = el.id
        reads = [x for n in d.specific("EventType.END") if n.ast is not None for x in ast.walk(n.ast) if isinstance(x, ast.Attribute) and x.attr == "tail" and isinstance(x.value, ast.Name) and x.value.id == elem]
        ctx.ob(f"{q.split(':')[1]}: the END branch does not read the tail of the element that is just ending", not reads, at=fi, node=reads[0] if reads else loop, construct="tail read at END",
               msg="iterparse guarantees an element's tail only once the NEXT event is delivered: when a read chunk of the underlying parser ends right after the end tag the tail is still None and is lost "
                   "(mixed content in documents larger than one chunk)")


share("C08", "C08.R9", tail_read_after_it_is_complete)

share("C09", "C09.R7", whitespace_only_text)  # whether a simple value stays a plain string must not depend on layout whitespace after it


@rule("C11.R10")
def routing_key_and_tail_flag(ctx: Ctx) -> None:
    """A wildcard's routing qname uses one of its own namespace entries verbatim (only '' and ##tokens are skipped); tail_processed is set only where the tail was stored."""
    dn = ctx.repo.func("xsdata.formats.dataclass.models.elements:default_namespace")
    g = build_cfg(dn.node)
    from ..q import atomic_conditions

    class _T:  # uniform view of CFG tests and comprehension filters
        def __init__(self, e):
            self.ast = e

    tests = [_T(e) for e in atomic_conditions(dn.node)]
    # every test of the filter is either plain truthiness of the entry or a check of its first character against '#'
    def _hash_only(t: ast.AST) -> bool:
        if isinstance(t, ast.Name):
            return True
        consts = [x.value for x in ast.walk(t) if isinstance(x, ast.Constant) and isinstance(x.value, str)]
        return bool(consts) and all(set(c) <= {"#"} for c in consts)

    texts = sorted(A(anon(dn, t.ast)) for t in tests)
    ok = bool(tests) and all(_hash_only(t.ast) for t in tests) and any(not isinstance(t.ast, ast.Name) for t in tests)
    ctx.ob("default_namespace skips only empty entries and ##tokens (a '!ns' entry of ##other IS the wildcard's routing namespace)", ok, at=dn, construct="default namespace filter",
           msg=f"filter tests are {texts}: a ##other wildcard gets an unqualified routing qname and its elements are re-dispatched to an earlier ##local wildcard (order lost)")
    init = ctx.repo.func("xsdata.formats.dataclass.models.elements:XmlVar.__init__")
    gi = build_cfg(init.node)
    qs = [(gi.node_of(st), v) for st, tgt, v in stores(init.node) if is_self_attr(tgt, "qname") and v is not None]
    ok = bool(qs) and all(n is not None and "build_qname(default_namespace(_),_)" in forms(init, n, v) for n, v in qs)
    ctx.ob("XmlVar.qname = build_qname(default_namespace(namespaces), local_name)", ok, at=init, construct="var qname", msg="routing qname built differently")
    bw = ctx.repo.func(f"{PAR}.nodes.element:ElementNode.bind_wild_text")
    g = build_cfg(bw.node)
    flags = [g.node_of(st) for st, tgt, v in stores(bw.node) if is_self_attr(tgt, "tail_processed")]
    stored = [n for n in g.stmts() if any(any(k.arg == "tail" for k in c.keywords) for c in node_calls(n))]
    ok = len(flags) == 1 and flags[0] is not None and bool(stored) and g.must_pass(g.entry, flags[0].id, [x.id for x in stored])
    if ok:
        tab = reach_table(bw, flags[0], [{"var.list_element": True}], raw=True)
        ok = None if tab is None else tab == {(True,): False, (False,): True}
    if ok is not None:
        ctx.ob("bind_wild_text sets tail_processed only on the branch that stored the tail in the generic element (not for list wildcards)", ok, at=bw, construct="tail_processed flag",
               msg="the flag is set although the list-wildcard branch never stores the tail: ElementNode.bind then skips appending it and the text after the element is lost")


def anon(fi, node):
    from ..model import anon_text

    return anon_text(node, fi.node)


@rule("C11.R11")
def qname_valued_attributes_are_recognised(ctx: Ctx) -> None:
    """EventHandler.is_xsi_type - the test that decides whether an attribute value in Clark notation is written back as a prefixed QName -
    holds for an xsi:type attribute with ANY type name and for any attribute whose value names an XSD datatype."""
    from ..q import cmp_atom, predicate_table

    fi = ctx.repo.func(f"{SER}:EventHandler.is_xsi_type")
    tab = predicate_table(fi, [cmp_atom("qname", "==", "QNames.XSI_TYPE"), cmp_atom("DataType.from_qname(value)", "is not", "None"), {"isinstance(value, str)": True}])
    if tab is None:
        ctx.abstain("is_xsi_type condition", at=fi)
        return
    bad = sorted(k for k, v in tab.items() if v != (k[2] and (k[0] or k[1])))
    ctx.ob("is_xsi_type(qname, value) holds iff value is a string and (qname is xsi:type or value names an XSD datatype)", not bad, at=fi, construct="is_xsi_type table",
           msg=f"(is xsi:type attribute, names a datatype, is a string) rows that differ: {bad}: an xsi:type naming a foreign type / a QName-valued attribute is written as the literal '{{uri}}local'")
    aa = ctx.repo.func(f"{SER}:EventHandler.add_attribute")
    conv = [c for c in calls_in(aa.node) if call_name_of(c) == "QName"]
    ctx.ob("add_attribute turns such values into QName objects (prefix assigned on encoding)", bool(conv) and any(call_name_of(c) == "is_xsi_type" for c in calls_in(aa.node)), at=aa, construct="qname conversion",
           msg="Clark-notation values are written verbatim")
    for c in conv:
        t2 = reach_table(aa, c, [{"self.is_xsi_type(qname, value)": True, "cls.is_xsi_type(qname, value)": True}], raw=True)
        if t2 is not None:
            ctx.ob("add_attribute converts exactly the values is_xsi_type accepts", t2 == {(True,): True, (False,): False}, at=aa, node=c, construct="qname conversion guard", msg=f"conversion runs under {t2}")

from .c08 import unprefixed_attribute_values_stay_plain  # noqa: E402

share("C11", "C11.R12", unprefixed_attribute_values_stay_plain)

from .c03 import default_namespace_never_qualifies_attributes_or_values  # noqa: E402

@rule("C11.R13")
def wildcard_attribute_namespaces_get_a_named_prefix(ctx: Ctx) -> None:
    """Qualified wildcard attributes (AnyElement.attributes, attribute maps) come back qualified: a default-namespace binding is no prefix for
    an attribute (the attribute clause of C03.R11; its QName-value clause belongs to C03 only)."""
    before = len(ctx.obligations)
    default_namespace_never_qualifies_attributes_or_values(ctx)
    ctx.obligations[before:] = [o for o in ctx.obligations[before:] if o.function != "QNameConverter.serialize"]


@rule("C11.R14")
def data_event_always_moves_the_writer_to_tail_state(ctx: Ctx) -> None:
    """EventHandler.set_data: after any DATA event - also one with nothing to write - the writer is in tail state: the text of the open
    element is over, so the next DATA event (the tail of an empty generic element) is written after the end tag, not as its text."""
    fi = ctx.repo.func(f"{SER}:EventHandler.set_data")
    g = build_cfg(fi.node)
    from ..q import stores as _stores, is_self_attr as _isa

    sets = [g.node_of(st) for st, tgt, v in _stores(fi.node) if _isa(tgt, "in_tail") and isinstance(v, ast.Constant) and v.value is True]
    sets = [n for n in sets if n is not None]
    if not sets:
        # the flag may be set by a helper the rule does not follow
        ctx.abstain("tail state of set_data", at=fi, why="no `self.in_tail = True` store in the function")
        return
    # every normal path through the function passes a store - except paths on which the flag is already known to be set (tested true)
    tests = [t for t in g.nodes if t.kind == "test" and t.ast is not None and unparse(t.ast).replace(" ", "") in ("self.in_tail",)]
    already = [(t.id, m_, l_) for t in tests for m_, l_ in g.succ[t.id] if l_ == "true"]
    reach = g.reachable([g.entry], blocked=[n.id for n in sets], blocked_edges=already, labels=lambda lab: lab != "exc")
    ctx.ob("set_data leaves the writer in tail state on every path (also when there is nothing to write)", g.exit not in reach, at=fi, construct="tail state after data",
           msg="a DATA event with no content leaves in_tail unset: the tail of an empty element (<note/>after) is written as that element's text (<note>after</note>)")
