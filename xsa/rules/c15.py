"""C15 - bad input fails cleanly (error discipline clauses)."""

from __future__ import annotations

import ast
import re

from ..cfg import build_cfg, calls_in, node_calls
from ..core import Ctx, property_info, rule
from ..exc import FuncExc, MayRaise, _handler_types
from ..model import AnalysisError, FuncInfo, norm_text, walk_no_nested
from ..q import A, control_deps, none_cond, is_self_attr, self_attr_writes, stores, unparse

P = "xsdata.formats.dataclass.parsers"
DOCUMENTED = {"ParserError", "ConverterError", "XmlContextError", "XmlHandlerError"}
# failures of the environment (a path that cannot be opened, an XInclude target that cannot be read) are not document faults
ENVIRONMENT = {"OSError"}

property_info(
    "C15",
    explanation="Interprocedural may-raise (escape) analysis from every parser entry point: explicit raises, asserts, "
    "calls resolved by class-hierarchy analysis, and a table of fallible externals, minus what enclosing handlers catch; "
    "the escaping set must lie inside the documented error family. Plus assert discipline, narrow control-flow try blocks, "
    "shape validation of decoded JSON before typed use, a loop-progress lint and sibling agreement of empty-value fall-backs.",
    decides="which exception classes can escape the XML/JSON/dict parser entry points, given the external raise table",
    not_decided="exceptions raised inside expat/lxml beyond their documented classes; implicit exceptions of primitive operations "
    "(subscripts, attribute access) outside the shape rule; running time",
)

ENTRY_POINTS = [
    f"{P}.bases:NodeParser.parse",
    f"{P}.mixins:PushParser.from_string",
    f"{P}.mixins:PushParser.from_bytes",
    f"{P}.mixins:PushParser.from_path",
    f"{P}.json:JsonParser.parse",
    f"{P}.json:JsonParser.from_string",
    f"{P}.json:JsonParser.from_bytes",
    f"{P}.dict:DictDecoder.decode",
]

# asserts that only narrow a type the surrounding code has already established (frozen, one reason each).
# key: (function qual suffix, normalised assert text)
NARROWING_ASSERTS = {
    ("DictDecoder.bind_value", "assert _v0.factory is not None"):
        "guarded by var.list_element; XmlVarBuilder.build gives every list element a factory (C15 table)",
    ("XmlVarBuilder.build_choices", "assert _v0 is not None"):
        "the metadata type was set to ELEMENT or WILDCARD two statements above; build() returns None only for XmlType.IGNORE "
        "(depends on the model class, not on document data)",
}


def assert_ok(fi: FuncInfo, node: ast.Assert) -> bool:
    key = (fi.qual.split(":")[1], norm_text(node, fi.node))
    return key in NARROWING_ASSERTS


def infeasible(fi: FuncInfo, node: ast.AST, exc: str) -> bool:
    # build_qname raises ValueError only when both parts are empty: callers pass a non-empty tag
    if fi.qual == "xsdata.utils.namespaces:build_qname" and exc == "ValueError":
        return True
    # typing.evaluate raises TypeError for a malformed Type[...] annotation of the *model class*; no document can trigger it
    if fi.qual == "xsdata.formats.dataclass.typing:evaluate" and exc == "TypeError" and isinstance(node, ast.Raise):
        return True
    return False


def converter_str_input(fi: FuncInfo, call: ast.Call) -> bool:
    """Inside Converter.deserialize the ``value`` parameter is a str (see the C15.R1 input-kind obligations)."""
    return (fi.name == "deserialize" and fi.cls is not None and fi.cls.is_subclass_of("xsdata.formats.converter:Converter")
            and bool(call.args) and isinstance(call.args[0], ast.Name) and call.args[0].id in ("value", "val"))


def _solve(ctx: Ctx) -> MayRaise:
    mr = ctx.notes.get("_c15_mr")
    if mr is None:
        mr = MayRaise(ctx, assert_ok=assert_ok, infeasible=infeasible, str_input=converter_str_input)
        roots = [ctx.repo.func(q) for q in ENTRY_POINTS]
        mr.solve(roots)
        ctx.notes["_c15_mr"] = mr
    return mr


@rule("C15.R1")
def escape_analysis(ctx: Ctx) -> None:
    """may-raise(entry point) is a subset of the documented parser error family."""
    mr = _solve(ctx)
    hier = mr.hier
    ctx.note("C15.R1 reach", {"functions": len(mr.reach), "fixpoint_rounds": mr.rounds,
                              "unmodelled_externals": sorted(mr.unmodelled)[:200], "unmodelled_count": len(mr.unmodelled)})
    ctx.floor("functions reachable from parser entry points", len(mr.reach), 150)
    ctx.trust("external raise table xsa/exc.py:EXTERNAL_RAISES; externals not in the table are assumed not to raise on document data "
              f"({len(mr.unmodelled)} distinct unmodelled externals reachable, listed in notes)")
    reported: set[tuple[str, str]] = set()
    for q in ENTRY_POINTS:
        fi = ctx.repo.func(q)
        esc = mr.escaping(fi)
        bad = {e: orgs for e, orgs in esc.items() if not any(hier.catches(d, e) for d in DOCUMENTED | ENVIRONMENT)}
        if not bad:
            ctx.ob(f"{q.split(':')[1]} raises only {sorted(DOCUMENTED)}", True, at=fi, construct=f"escape:{q.split(':')[1]}")
        # otherwise one obligation per leaking origin (below) carries the verdict, so that findings are keyed by the leaking construct
        # one obligation per origin site so that findings are keyed by the leaking construct
        for e, o in [(e, o) for e, orgs in bad.items() for o in orgs]:
            leaf = o.leaf()
            key = (e, f"{leaf.func}@{leaf.what}")
            if key in reported:
                continue
            reported.add(key)
            lf = ctx.repo.functions.get(leaf.func)
            what_id = re.sub(r"\(.*\)$", "", leaf.what)  # the callee, not how its arguments happen to be spelled
            ctx.ob(f"leak origin: {leaf.func.split(':')[1]} {what_id} -> {e}", False, at=lf, construct=f"{e}:{what_id}",
                   msg=f"{e} escapes to {q.split(':')[1]} via " + " <- ".join(o.chain()[:6]), witness=o.chain(), rule="C15.R1")


@rule("C15.R1")
def converter_input_kind(ctx: Ctx) -> None:
    """The escape analysis assumes converters receive str: the JSON path must serialise scalars first."""
    bt = ctx.repo.func(f"{P}.dict:DictDecoder.bind_text")
    g = build_cfg(bt.node)
    from ..q import kwarg, leaves_at

    pv = [(n, c) for n in g.stmts() for c in node_calls(n) if unparse(c.func).endswith("parse_var")]
    ok = bool(pv)
    for n, c in pv:
        v = kwarg(c, "value")
        leaves = leaves_at(bt, n, v) if v is not None else []
        ok = ok and bool(leaves) and all(isinstance(x, ast.Call) and unparse(x.func) == "converter.serialize" for x in leaves)
    ctx.ob("DictDecoder.bind_text: the value handed to parse_var is always converter.serialize(value)", ok,
           at=bt, construct="serialize before parse_var", msg="a raw JSON scalar (int, float, bool, list) would reach the converters, which assume str input")


def _dict_protocol_use(fn: ast.AST, name: ast.Name) -> bool:
    for n in walk_no_nested(fn):
        if isinstance(n, ast.Attribute) and n.value is name and n.attr in ("keys", "items", "values", "get"):
            return True
        if isinstance(n, ast.Subscript) and n.value is name:
            return True
        if isinstance(n, ast.Call) and any(a is name for a in n.args) and not (isinstance(n.func, ast.Name) and n.func.id in ("type", "isinstance", "repr", "str", "len")):
            return True
    return False


def _verified_dict(ctx: Ctx, fi: FuncInfo, g, use: ast.AST, expr: ast.expr) -> str | None:
    """Why ``expr`` is known to be a dict at ``use`` (None if it is not)."""
    txt = unparse(expr)
    n = g.node_of(use)
    if n is None:
        return None
    for t in g.nodes:
        if t.kind == "test" and isinstance(t.ast, ast.Call) and unparse(t.ast.func) == "isinstance" and len(t.ast.args) == 2 \
                and unparse(t.ast.args[0]) == txt and unparse(t.ast.args[1]) in ("dict", "(dict,)", "Mapping"):
            if g.only_if(n.id, t.id, True):
                return f"isinstance({txt}, dict) dominates"
    if isinstance(expr, ast.Name):
        for a in fi.params:
            if a.arg == expr.id and a.annotation is not None and unparse(a.annotation) == "dict":
                # the parameter must not be reassigned before the use
                return f"parameter {expr.id}: dict (callers are checked)"
    return None


@rule("C15.R4")
def shape_validation(ctx: Ctx) -> None:
    """Decoded JSON values are used as dicts (.keys/.items, dict-annotated parameters) only after an isinstance check."""
    dec = ctx.repo.cls(f"{P}.dict:DictDecoder")
    jp = ctx.repo.cls(f"{P}.json:JsonParser")
    methods = [m for m in list(dec.methods.values()) + list(jp.methods.values())]
    self_guarding: dict[str, set[str]] = {}
    # pass 1: which dict-annotated parameters does a method verify itself before any use?
    for m in methods:
        g = build_cfg(m.node)
        for a in m.params:
            if a.annotation is None or unparse(a.annotation) != "dict":
                continue
            uses = [x for x in walk_no_nested(m.node) if isinstance(x, ast.Name) and x.id == a.arg and isinstance(x.ctx, ast.Load)]
            guards = [t for t in g.nodes if t.kind == "test" and isinstance(t.ast, ast.Call) and unparse(t.ast.func) == "isinstance"
                      and unparse(t.ast.args[0]) == a.arg and unparse(t.ast.args[1]) == "dict"]
            ok = bool(guards)
            for u in uses:
                n = g.node_of(u)
                if n is None or any(n.id == t.id for t in guards):
                    continue
                if any(g.only_if(n.id, t.id, True) for t in guards):
                    continue
                if any(g.only_if(n.id, t.id, False) for t in guards) and not _dict_protocol_use(m.node, u):
                    continue  # e.g. type(data).__name__ inside the failing branch's error message
                ok = False
            if ok:
                self_guarding.setdefault(m.qual, set()).add(a.arg)
    n_sites = 0
    for m in methods:
        g = build_cfg(m.node)
        for c in calls_in(m.node):
            f = c.func
            # (A) dict-protocol calls on document-derived receivers
            if isinstance(f, ast.Attribute) and f.attr in ("keys", "items", "values") and not c.args:
                recv = f.value
                if is_self_attr(recv) or unparse(recv).startswith(("self.", "meta.", "var.")):
                    continue
                n_sites += 1
                why = _verified_dict(ctx, m, g, c, recv)
                if why is None and isinstance(recv, ast.Name) and recv.id in self_guarding.get(m.qual, ()):
                    why = "self-guarded parameter"
                ctx.ob(f"{m.name}: {unparse(recv)}.{f.attr}() only on a verified dict", why is not None, at=m, node=c,
                       msg=f"{unparse(recv)} comes from the decoded document and may be a scalar or a list: AttributeError instead of ParserError")
            # (B) arguments bound to dict-annotated parameters of decoder methods
            r = ctx.res.resolve_call(m, c)
            for callee in r.funcs:
                if callee.cls is None or callee.cls.qual not in (dec.qual, jp.qual):
                    continue
                from ..q import bound_arg
                for a in callee.params:
                    if a.annotation is None or unparse(a.annotation) != "dict":
                        continue
                    arg = bound_arg(c, callee, a.arg)
                    if arg is None:
                        continue
                    n_sites += 1
                    if a.arg in self_guarding.get(callee.qual, ()):
                        ctx.ob(f"{m.name}: {callee.name}({a.arg}={unparse(arg)}) - callee verifies the shape itself", True, at=m, node=c)
                        continue
                    why = _verified_dict(ctx, m, g, c, arg)
                    if why is None and isinstance(arg, ast.Name) and arg.id in self_guarding.get(m.qual, ()):
                        why = "self-guarded parameter"
                    ctx.ob(f"{m.name}: {callee.name}({a.arg}={unparse(arg)}) receives a verified dict", why is not None, at=m, node=c,
                           msg=f"{unparse(arg)} is passed as a dict without an isinstance check on any path")
    # str-key subscripts on document values: only where find_var verified the nested dict (the wrapper-key branch)
    from ..q import L, dep_texts

    bd = ctx.repo.func(f"{P}.dict:DictDecoder.bind_dataclass")
    for node in walk_no_nested(bd.node):
        if isinstance(node, ast.Subscript) and isinstance(node.ctx, ast.Load) and L(bd, node.slice) == "_.local_name" and isinstance(node.value, ast.Name):
            n_sites += 1
            deps = dep_texts(bd, node, True)
            ctx.ob("bind_dataclass: value[var.local_name] only when the matched key is the wrapper (the find_var branch that verified the nested dict)", bool({"_==_.wrapper", "_.wrapper==_"} & deps), at=bd, node=node,
                   construct="wrapper unwrap guard", msg="a field with a wrapper that was matched by its own name carries a list / scalar: subscripting it with a str raises TypeError")
    fv = ctx.repo.func(f"{P}.dict:DictDecoder.find_var")
    for node in walk_no_nested(fv.node):
        if isinstance(node, ast.Subscript) and isinstance(node.ctx, ast.Load) and L(fv, node.slice) == "_.local_name" and isinstance(node.value, ast.Name):
            n_sites += 1
            deps = dep_texts(fv, node, True)
            # the subscript may itself sit inside the last conjunct of the guarding condition: then the earlier conjuncts guard it
            ok = "isinstance(_,dict)" in deps and "_.local_namein_" in deps
            ctx.ob("find_var: value[var.local_name] only after isinstance(value, dict) and var.local_name in value", ok, at=fv, node=node, construct="nested lookup guard", msg="unverified nested lookup")
    ctx.floor("dict-shape use sites in the decoder", n_sites, 12)
    ctx.note("C15.R4 self-guarding", {k: sorted(v) for k, v in self_guarding.items()})
    # dict(value) for attribute maps
    bv = ctx.repo.func(f"{P}.dict:DictDecoder.bind_value")
    g = build_cfg(bv.node)
    for c in calls_in(bv.node):
        if isinstance(c.func, ast.Name) and c.func.id == "dict" and c.args:
            why = _verified_dict(ctx, bv, g, c, c.args[0])
            ctx.ob(f"bind_value: dict({unparse(c.args[0])}) only on a verified dict", why is not None, at=bv, node=c,
                   msg="dict(5) raises TypeError, dict('ab') ValueError")


@rule("C15.R2")
def assert_discipline(ctx: Ctx) -> None:
    """Every assert reachable from a parser entry point is in the frozen narrowing table."""
    mr = _solve(ctx)
    n = 0
    for fi in sorted(mr.reach, key=lambda f: f.qual):
        for node in walk_no_nested(fi.node):
            if isinstance(node, ast.Assert):
                n += 1
                ctx.ob(f"{fi.qual.split(':')[1]}: {unparse(node)[:70]}", assert_ok(fi, node), at=fi, node=node,
                       msg="assert on a condition that document data can falsify (AssertionError is not a documented parser error, and disappears under -O)")
    ctx.floor("asserts reachable from parser entry points", n, 1)


@rule("C15.R3")
def narrow_control_flow_try(ctx: Ctx) -> None:
    """A try whose handler implements control flow (except IndexError around queue[-1]) encloses no call that may raise that class."""
    mr = _solve(ctx)
    hier = mr.hier
    n = 0
    for q in (f"{P}.bases:NodeParser.start", f"{P}.tree:TreeParser.start"):
        fi = ctx.repo.func(q)
        for t in walk_no_nested(fi.node):
            if not isinstance(t, ast.Try):
                continue
            for h in t.handlers:
                types = _handler_types(h)
                if "IndexError" not in types and "LookupError" not in types:
                    continue
                n += 1
                bad = []
                for st in t.body:
                    for c in [x for x in [st, *walk_no_nested(st)] if isinstance(x, ast.Call)]:
                        raised = mr._node_raises(fi, c)
                        hit = [e for e in raised if any(hier.catches(ty, e) for ty in types)]
                        if hit:
                            bad.append((unparse(c.func), hit))
                ctx.ob(f"{q.split(':')[1]}: calls inside try/except {'/'.join(types)} cannot raise it", not bad, at=fi, node=h,
                       construct=f"control-flow try {'/'.join(types)}",
                       msg=f"{bad}: an exception from binding code would be mistaken for 'queue is empty' and a nested element treated as a new root")
    ctx.floor("control-flow try blocks", n, 2)


@rule("C15.R5")
def progress_lint(ctx: Ctx) -> None:
    """Every while loop on the parsing paths advances a variable of its condition on every path of the body."""
    n = 0
    mods = ["xsdata.formats.dataclass.parsers", "xsdata.formats.dataclass.serializers", "xsdata.formats.converter", "xsdata.utils.dates",
            "xsdata.utils.collections", "xsdata.utils.text", "xsdata.utils.namespaces", "xsdata.models.datatype", "xsdata.formats.dataclass.models",
            "xsdata.formats.dataclass.context", "xsdata.formats.dataclass.typing", "xsdata.formats.dataclass.compat"]
    for fi in ctx.repo.funcs_in(*mods):
        for w in walk_no_nested(fi.node):
            if not isinstance(w, ast.While):
                continue
            n += 1
            cond_names = {x.id for x in ast.walk(w.test) if isinstance(x, ast.Name)} | {
                unparse(x) for x in ast.walk(w.test) if isinstance(x, ast.Attribute)}
            g = build_cfg(fi.node)
            head = g.node_of(w)
            if isinstance(w.test, ast.Constant) and w.test.value:
                # `while True:` - the loop ends through the tests of its body: their variables are the condition variables
                for t_ in g.nodes:
                    if t_.kind == "test" and t_.ast is not None and _inside(w, t_.ast):
                        cond_names |= {x.id for x in ast.walk(t_.ast) if isinstance(x, ast.Name)} | {unparse(x) for x in ast.walk(t_.ast) if isinstance(x, ast.Attribute)}
            # nodes of the body that assign a condition variable, or leave the loop
            progress = []
            for node in g.stmts():
                if node.ast is None or node.kind not in ("stmt", "for"):
                    continue
                if not _inside(w, node.ast):
                    continue
                st = node.ast
                tgts: list[str] = []
                if isinstance(st, (ast.Assign, ast.AugAssign, ast.AnnAssign)):
                    for t in (st.targets if isinstance(st, ast.Assign) else [st.target]):
                        tgts += [unparse(x) for x in ast.walk(t) if isinstance(x, (ast.Name, ast.Attribute))]
                if isinstance(st, ast.Expr) and isinstance(st.value, ast.Call) and isinstance(st.value.func, ast.Attribute):
                    tgts.append(unparse(st.value.func.value))  # x.pop() / x.append()
                if fi.cls is not None:
                    for c in calls_in(st) if not isinstance(st, (ast.For, ast.While, ast.If, ast.Try, ast.With)) else []:
                        if isinstance(c.func, ast.Attribute) and is_self_attr(c.func, None, ("self",)):
                            m = fi.cls.find_method(c.func.attr)
                            if m is not None:
                                tgts += [f"self.{a}" for a in self_attr_writes(m)]
                if isinstance(st, (ast.Break, ast.Return, ast.Raise)) or set(tgts) & cond_names:
                    progress.append(node.id)
            # every cycle through the loop head passes a progress node
            body_entry = [m for m, lab in g.succ[_test_tail(g, head)] if lab == "true"] if head else []
            ok = bool(progress) and head is not None
            if ok:
                # is there a path head -> ... -> head avoiding progress nodes?
                reach = g.reachable([m for m, _ in g.succ[head.id]], blocked=set(progress))
                tests = [t.id for t in g.nodes if t.kind == "test" and t.stmt is w]
                back = any(p in reach for p, lab in g.pred[head.id] if _inside_id(g, w, p) and p not in tests)
                ok = not back
            ctx.ob(f"{fi.qual.split(':')[1]}: while {unparse(w.test)[:40]} makes progress on every iteration", ok, at=fi, node=w,
                   construct=f"while {norm_text(w.test, fi.node)}", msg="a path through the loop body changes no variable of the loop condition")
    ctx.floor("while loops on parsing/serializing paths", n, 5)


def _test_tail(g, head):
    return head.id


def _inside(container: ast.AST, node: ast.AST) -> bool:
    return any(sub is node for sub in ast.walk(container)) and node is not container


def _inside_id(g, w: ast.While, nid: int) -> bool:
    n = g.nodes[nid]
    a = n.ast or n.stmt
    return a is not None and (a is w or _inside(w, a))


@rule("C15.R6")
def sibling_fallbacks(ctx: Ctx) -> None:
    """PrimitiveNode.bind and StandardNode.bind choose the empty replacement value by the same type test."""
    prim = ctx.repo.func(f"{P}.nodes.primitive:PrimitiveNode.bind")
    std = ctx.repo.func(f"{P}.nodes.standard:StandardNode.bind")

    def empties(fi: FuncInfo) -> dict[object, set[tuple[str, bool]]]:
        """Empty str / bytes constants assigned to a local in the function, with the conditions under which each is chosen."""
        g = build_cfg(fi.node)
        out: dict[object, set[tuple[str, bool]]] = {}
        for st, tgt, v in stores(fi.node):
            if isinstance(tgt, ast.Name) and isinstance(v, ast.Constant) and v.value in ("", b""):
                n = g.node_of(st)
                if n is not None:
                    out.setdefault(v.value, set()).update((t, pol) for t, pol, _ in control_deps(fi, n))
        return out

    pe, se = empties(prim), empties(std)
    if "" not in pe or "" not in se:
        raise AnalysisError("C15.R6: empty-value fall-back not found in PrimitiveNode.bind / StandardNode.bind")
    for fi, e, what in ((prim, pe, "PrimitiveNode"), (std, se, "StandardNode")):
        for k in ("",):
            ctx.ob(f"{what}.bind: the empty fall-back applies only to a missing value of a non-nillable element", none_cond(e[k]) and any("nillable" in t and not pol for t, pol in e[k]), at=fi,
                   construct=f"{what} fallback guard", msg="fall-back replaces real values or nil elements")
    p_bytes = b"" in pe and any("bytes" in t and pol for t, pol in pe[b""]) and any("bytes" in t and not pol for t, pol in pe[""])
    ctx.ob("PrimitiveNode.bind: empty fall-back is b'' for bytes fields, '' otherwise", p_bytes, at=prim, construct="primitive bytes fallback", msg="a bytes field would receive a str")
    s_bytes = b"" in se and any("bytes" in t and pol for t, pol in se[b""]) and any("bytes" in t and not pol for t, pol in se[""])
    # the value is then handed to datatype.wrapper (a bytes subclass for hexBinary/base64Binary)
    wraps = any(isinstance(c.func, ast.Attribute) and c.func.attr == "wrapper" for c in calls_in(std.node))
    ctx.ob("StandardNode.bind: empty fall-back agrees with its sibling (b'' when the datatype is bytes)", s_bytes or not wraps, at=std, construct="standard bytes fallback",
           msg="the fall-back is '' even when datatype.type is bytes and is then passed to datatype.wrapper (a bytes subclass): "
               "<v xsi:type=\"xs:hexBinary\"/> raises TypeError: string argument without an encoding")


GENERIC_ATTRS = {"qname", "children", "text", "tail", "attributes"}


@rule("C15.R8")
def generic_attributes_read_only_off_generic_values(ctx: Ctx) -> None:
    """A value taken from the collected params is read as a generic element (.qname, .children ...) only after an isinstance test against the generic class."""
    en = ctx.repo.cls(f"{P}.nodes.element:ElementNode")
    n = 0
    for m in en.methods.values():
        # locals assigned from params[...] / params.get(...)
        srcs = {}
        for st, tgt, v in __import__("xsa.q", fromlist=["stores"]).stores(m.node):
            if isinstance(tgt, ast.Name) and v is not None and (unparse(v).startswith("params[") or unparse(v).startswith("params.get(")):
                srcs[tgt.id] = st
        if not srcs:
            continue
        g = build_cfg(m.node)
        for node in walk_no_nested(m.node):
            if isinstance(node, ast.Attribute) and isinstance(node.value, ast.Name) and node.value.id in srcs and node.attr in GENERIC_ATTRS and isinstance(node.ctx, ast.Load):
                n += 1
                cn = g.node_of(node)
                name = node.value.id
                guards = [t for t in g.nodes if t.kind == "test" and isinstance(t.ast, ast.Call) and unparse(t.ast.func) == "isinstance" and unparse(t.ast.args[0]) == name]
                # flow sensitive: the value taken from params reaches this read only along the true edge of an isinstance test
                # (a value assigned from a constructor call in between is generic by construction)
                from ..q import def_reaches_use, _def_nodes
                true_edges = [(t.id, m_, l_) for t in guards for m_, l_ in g.succ[t.id] if l_ == "false"]
                raw_defs = [d for d, v in _def_nodes(g).get(name, {}).items() if v is not None and unparse(v).startswith(("params[", "params.get("))]
                ok = cn is not None and bool(guards) and not any(def_reaches_use(g, d, cn.id, name, [(a, b, l_) for a, b, l_ in [(t.id, m_, l2) for t in guards for m_, l2 in g.succ[t.id] if l2 == "true"]]) for d in raw_defs)
                ctx.ob(f"ElementNode.{m.name}: {name}.{node.attr} is read only after isinstance({name}, <generic element>)", ok, at=m, node=node,
                       msg=f"{name} is whatever an earlier element was bound to (possibly a user model): reading .{node.attr} on it raises AttributeError, not a parser error")
        # reads through the container itself: params[K].children ... - the entry is generic on every path from where it was taken out
        # (`previous = params[K]`): either it was replaced by a freshly constructed generic element, or isinstance(previous, ...) held
        for node in walk_no_nested(m.node):
            if isinstance(node, ast.Attribute) and node.attr in GENERIC_ATTRS and isinstance(node.ctx, ast.Load) and isinstance(node.value, ast.Subscript) and unparse(node.value.value) == "params":
                key_txt = unparse(node.value)
                aliases = {nm: st for nm, st in srcs.items() if unparse(st.value) == key_txt} if all(hasattr(st, "value") for st in srcs.values()) else {}
                cn = g.node_of(node)
                if not aliases or cn is None:
                    continue
                n += 1
                fresh = [g.node_of(st) for st, tgt, v in __import__("xsa.q", fromlist=["stores"]).stores(m.node) if unparse(tgt) == key_txt and isinstance(v, ast.Call)]
                ok = True
                for nm, st in aliases.items():
                    dn = g.node_of(st)
                    guards = [t for t in g.nodes if t.kind == "test" and isinstance(t.ast, ast.Call) and unparse(t.ast.func) == "isinstance" and t.ast.args and unparse(t.ast.args[0]) == nm]
                    safe_edges = [(t.id, m_, l_) for t in guards for m_, l_ in g.succ[t.id] if l_ == "true"]
                    if dn is None:
                        continue
                    reach = g.reachable([x for x, _ in g.succ[dn.id]], blocked=[f.id for f in fresh if f is not None], blocked_edges=safe_edges)
                    ok = ok and cn.id not in reach
                ctx.ob(f"ElementNode.{m.name}: {key_txt}.{node.attr} is read only off a generic element (constructed here, or proved by isinstance on the value taken out)", ok, at=m, node=node,
                       msg=f"{key_txt} is whatever an earlier element was bound to (possibly a user model): reading .{node.attr} on it raises AttributeError, not a parser error")
    ctx.note("C15.R8 generic attribute reads", n)
    if n == 0:
        ctx.ob("no generic-element attribute is read off collected values", True, at=en.methods["bind_wild_var"], construct="no generic reads")
