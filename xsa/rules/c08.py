"""C08 - all backends agree (structural clauses) and C09 - parsing depends only on the infoset."""

from __future__ import annotations

import ast
import copy

from ..cfg import build_cfg, calls_in, node_calls
from ..core import Ctx, property_info, rule, share
from ..model import AnalysisError, ClassInfo, FuncInfo, anon_text, walk_no_nested
from ..q import call_keywords, expand, Dispatch, passes, value_texts, func_text, call_param, reach_table, reach_env, node_containing, alternatives, control_deps, leaves_at, raw_forms, truthy_guard, flow_conditions, flows, forms, call_name_of, guarded_subscripts, names_from_calls, return_values, A, MUTATORS, asrc, is_self_attr, kwarg, root_name, stores, unparse

SER = "xsdata.formats.dataclass.serializers"
PAR = "xsdata.formats.dataclass.parsers"

property_info(
    "C08",
    explanation="Decides that the backends share one mechanism: every method of the writer protocol resolves, for all three writer backends, to the "
    "same function or to a whitespace-only decorator of it; the two parser handlers translate each event kind to the same parser call with "
    "corresponding arguments, consume the whole event stream and clear elements alike; every lxml parser drops comments and processing "
    "instructions like ElementTree does; both serializers use the one event generator; every node carries the in-scope map the native handler "
    "rebuilds from; recorded events copy attribute mappings that the handlers clear.",
    decides="sibling agreement of backends (MRO resolution, normalised AST comparison, effective keyword values)",
    not_decided="infoset identity of the two writers' output and equality of the two handlers' objects for every document (XMLGenerator / lxml / expat behaviour)",
)
property_info(
    "C09",
    explanation="Decides structural conditions of infoset-only parsing: whitespace normalisation before every lexical sink, comments / PIs dropped by "
    "both handlers, prefixes only ever resolved through the in-scope map (never matched literally) including the default namespace, the in-scope map "
    "reaching every resolver, tails normalised before they are bound.",
    decides="def-use taint of raw text to lexical sinks, who-may-split-prefixes, flow of the in-scope namespace map to resolvers, tail normalisation dominance",
    not_decided="invariance under all compositions of rewrites (encodings, CDATA, entities are the XML libraries' behaviour)",
)

WRITER_PROTOCOL = ["write", "start_tag", "add_attribute", "add_namespace", "set_data", "end_tag", "flush_start", "start_namespaces", "reset_default_namespace",
                   "is_xsi_type", "encode_data", "start_element", "end_element", "set_characters", "start_prefix_mapping", "end_prefix_mapping", "end_document"]
BACKEND_HOOKS = {"build_handler": "backend construction", "start_document": "the XML declaration is not part of the infoset", "build": "tree builder entry point"}


def _is_whitespace_decorator(ctx: Ctx, m: FuncInfo, base: FuncInfo) -> tuple[bool, str]:
    """m calls super().<name>(same args) exactly once on every path and otherwise only emits ignorable whitespace / touches its own attributes."""
    g = build_cfg(m.node)
    supers = []
    others = []
    own_slots = set(m.cls.slots or []) if m.cls else set()
    params = [a.arg for a in m.params if a.arg != "self"]
    for n in g.stmts():
        for c in node_calls(n):
            f = c.func
            if isinstance(f, ast.Attribute) and isinstance(f.value, ast.Call) and unparse(f.value) == "super()" and f.attr == m.name:
                if [unparse(a) for a in c.args] != params or c.keywords:
                    return False, f"super().{m.name} called with different arguments"
                supers.append(n)
            elif unparse(f) in ("self.handler.ignorableWhitespace", "super"):
                pass
            else:
                others.append(unparse(f))
    if others:
        return False, f"calls {sorted(set(others))}"
    if not supers:
        return False, "never calls the shared implementation"
    if not g.must_pass(g.entry, g.exit, [s.id for s in supers]):
        return False, f"a path skips super().{m.name}()"
    # at most one super call on any path: no super node reachable from another
    for a in supers:
        for b in supers:
            if a is not b and b.id in g.reachable([x for x, _ in g.succ[a.id]]):
                return False, "shared implementation may run twice"
    for st, tgt, _ in stores(m.node):
        if is_self_attr(tgt) and tgt.attr not in own_slots:
            return False, f"writes self.{tgt.attr}, which belongs to the shared state machine"
    return True, "whitespace-only decorator"


@rule("C08.R1")
def backends_share_state_machine(ctx: Ctx) -> None:
    """Each writer-protocol method resolves to the same function for all backends, or to a whitespace-only decorator of it."""
    backends = [ctx.repo.cls(f"{SER}.writers.native:XmlEventWriter"), ctx.repo.cls(f"{SER}.writers.lxml:LxmlEventWriter"), ctx.repo.cls(f"{SER}.writers.lxml:LxmlTreeBuilder")]
    eh = ctx.repo.cls(f"{SER}.mixins:EventHandler")
    n = 0
    for name in WRITER_PROTOCOL:
        impls = {b.name: b.find_method(name) for b in backends}
        if any(v is None for v in impls.values()):
            raise AnalysisError(f"C08.R1: writer protocol method {name} missing on a backend")
        quals = {v.qual for v in impls.values()}
        base = eh.find_method(name)
        for bname, m in impls.items():
            n += 1
            shared = [x for x in impls.values() if x.cls.name in ("EventHandler", "EventContentHandler", "XmlWriter")]
            ref = shared[0] if shared else base
            if m.cls.name in ("EventHandler", "EventContentHandler", "XmlWriter"):
                ctx.ob(f"{bname}.{name} is the shared implementation {m.cls.name}.{name}", True, at=m, construct=f"{bname}.{name}")
                continue
            if name == "write" and bname == "LxmlEventWriter":
                # designated post-processing hook: must call super().write(events) first, unconditionally
                g = build_cfg(m.node)
                sup = [x for x in g.stmts() if any(unparse(c.func) == "super().write" for c in node_calls(x))]
                first = m.node.body[1] if isinstance(m.node.body[0], ast.Expr) and isinstance(m.node.body[0].value, ast.Constant) else m.node.body[0]
                ok = len(sup) == 1 and g.node_of(first) is sup[0] and g.must_pass(g.entry, g.exit, [sup[0].id])
                ctx.ob("LxmlEventWriter.write runs the shared write() first and only post-processes the finished tree", ok, at=m, construct="lxml write hook", msg="the lxml writer no longer drives the shared state machine first")
                continue
            ok, why = _is_whitespace_decorator(ctx, m, ref)
            ctx.ob(f"{bname}.{name} is a whitespace-only decorator of the shared implementation", ok, at=m, construct=f"{bname}.{name} decorator", msg=why)
    ctx.floor("writer protocol resolutions", n, 45)
    # backend-specific overrides are limited to the designated hooks
    for b in backends:
        for name, m in b.methods.items():
            if name in WRITER_PROTOCOL or name in ("__init__",):
                continue
            if name.startswith("_") and not name.startswith("__"):
                continue  # private helper: analysed inlined into the protocol methods that call it
            ctx.ob(f"{b.name}.{name} is a designated backend hook", name in BACKEND_HOOKS, at=m, construct=f"hook {b.name}.{name}", msg="backend overrides a method outside the designated hooks")
    tb = ctx.repo.func(f"{SER}.writers.lxml:LxmlTreeBuilder.build")
    ctx.ob("LxmlTreeBuilder.build drives the shared write()", A("self.write(_)") in asrc(tb), at=tb, construct="tree builder drives write", msg="tree builder bypasses the shared state machine")


def _normalised_event_loop(fi: FuncInfo) -> ast.For | None:
    for n in walk_no_nested(fi.node):
        if isinstance(n, ast.For) and isinstance(n.target, ast.Tuple) and len(n.target.elts) == 2:
            return n
    return None


def event_dispatch(fi: FuncInfo):
    """(loop, event variable, element variable, Dispatch over the event variable) of a streaming handler's event pump."""
    loop = _normalised_event_loop(fi)
    if loop is None or not all(isinstance(e, ast.Name) for e in loop.target.elts):
        raise AnalysisError(f"event loop `for event, element in ...` not found in {fi.qual}")
    ev_var, el_var = loop.target.elts
    d = Dispatch(fi.node, is_subject=lambda e: isinstance(e, ast.Name) and e.id == ev_var.id)
    return loop, ev_var, el_var, d


def _is_fresh(e: ast.expr | None) -> bool:
    """A newly created container: x.copy(), dict(...)/list(...)/set(...), a display or comprehension, or a choice of those."""
    if e is None:
        return False
    if isinstance(e, (ast.Dict, ast.List, ast.Set, ast.DictComp, ast.ListComp, ast.SetComp)):
        return True
    if isinstance(e, ast.IfExp):
        return _is_fresh(e.body) and _is_fresh(e.orelse)
    if isinstance(e, ast.Call):
        f = e.func
        if isinstance(f, ast.Attribute) and f.attr in ("copy",):
            return True
        if isinstance(f, ast.Name) and f.id in ("dict", "list", "set", "defaultdict"):
            return True
    if isinstance(e, ast.BinOp) and isinstance(e.op, ast.BitOr):
        return True  # a | b builds a new mapping
    return False


def _args_at(fi: FuncInfo, g, call: ast.Call) -> list[str]:
    n = g.node_of(call)
    return [sorted(forms(fi, n, a), key=len)[0] if n is not None else anon_text(a, fi.node) for a in call.args]


def _arg_forms(fi: FuncInfo, g, call: ast.Call) -> list[set[str]]:
    n = g.node_of(call)
    return [forms(fi, n, a) if n is not None else {anon_text(a, fi.node)} for a in call.args]


@rule("C08.R2")
def handler_sibling_agreement(ctx: Ctx) -> None:
    """Both parser handlers translate each event kind to the same parser call with corresponding arguments, and consume the whole stream."""
    nat = ctx.repo.func(f"{PAR}.handlers.native:XmlEventHandler.process_context")
    lx = ctx.repo.func(f"{PAR}.handlers.lxml:LxmlEventHandler.process_context")
    ee = ctx.repo.cls(f"{PAR}.mixins:XmlHandler").methods.get("end_element")
    want = {
        "START": ("start", ["self.clazz", "self.queue", "self.objects", "_.tag", "_.attrib"]),
        "END": ("end", ["self.queue", "self.objects", "_.tag", "_.text", "_.tail"]),
    }
    start_last: dict[str, set[str]] = {}
    for k, fi in (("native", nat), ("lxml", lx)):
        loop = _normalised_event_loop(fi)
        if loop is None:
            raise AnalysisError(f"C08.R2: event loop not found in {fi.qual}")
        ev_var, el_var = loop.target.elts[0], loop.target.elts[1]
        if not (isinstance(ev_var, ast.Name) and isinstance(el_var, ast.Name)):
            raise AnalysisError("C08.R2: event loop target is not (event, element)")
        d = Dispatch(fi.node, is_subject=lambda e: isinstance(e, ast.Name) and e.id == ev_var.id)
        g = d.g
        kinds = {x.split(".", 1)[1] for x in d.keys if x.startswith("EventType.")}
        default = d.specific(None)
        raises = [n for n in default if n.kind == "stmt" and isinstance(n.ast, ast.Raise) and n.ast.exc is not None and "XmlHandlerError" in unparse(n.ast.exc)]
        ctx.ob(f"{k}: every event kind START / END / START_NS has a branch and unknown events raise XmlHandlerError", kinds == {"START", "END", "START_NS"} and bool(raises), at=fi, construct=f"{k} dispatch", msg=f"branches {sorted(kinds)}")
        # every non-None value that can be returned is self.objects[-1][1] (directly, through a temporary, or unpacked from self.objects[-1])
        rv = [v for r in g.returns() if r.ast.value is not None for x in alternatives(fi.node, r.ast.value) for v in (leaves_at(fi, r, x) or [x]) if not (isinstance(v, ast.Constant) and v.value is None)]
        ctx.ob(f"{k}: returns the last bound object or None", bool(rv) and all(unparse(v) == "self.objects[-1][1]" for v in rv), at=fi, construct=f"{k} result", msg=f"result expression differs: {sorted({unparse(v) for v in rv})[:3]}")
        branch = {kind: d.specific(f"EventType.{kind}") for kind in ("START", "END", "START_NS")}

        def calls_of(nodes, name: str) -> list[ast.Call]:
            return [c for n in nodes if n.kind != "test" for c in node_calls(n) if unparse(c.func) == name]

        for ev, (meth, args) in want.items():
            calls = calls_of(branch[ev], f"self.parser.{meth}")
            where, gw = fi, g
            if ev == "END" and not calls and ee is not None:
                # deferred form: END only remembers the element; it is delivered through end_element() before the next event is dispatched and after the loop
                pend_nodes = [n for n in branch["END"] if n.kind == "stmt" and isinstance(n.ast, ast.Assign) and len(n.ast.targets) == 1 and isinstance(n.ast.targets[0], ast.Name)
                              and isinstance(n.ast.value, ast.Name) and n.ast.value.id == el_var.id]
                ok = False
                if len(pend_nodes) == 1:
                    P = pend_nodes[0].ast.targets[0].id
                    flush = [n.id for n in g.stmts() if any(unparse(c.func) == "self.end_element" and len(c.args) == 1 and isinstance(c.args[0], ast.Name) and c.args[0].id == P for c in node_calls(n))]
                    # after `P = element` the tests `P is not None` are known true / `P is None` known false until P is reset
                    be = []
                    for t in g.nodes:
                        if t.kind == "test" and isinstance(t.ast, ast.Compare) and isinstance(t.ast.left, ast.Name) and t.ast.left.id == P and len(t.ast.ops) == 1 \
                                and isinstance(t.ast.comparators[0], ast.Constant) and t.ast.comparators[0].value is None:
                            drop = "false" if isinstance(t.ast.ops[0], ast.IsNot) else ("true" if isinstance(t.ast.ops[0], ast.Is) else None)
                            be += [(t.id, m, lab) for m, lab in g.succ[t.id] if lab == drop]
                        elif t.kind == "test" and isinstance(t.ast, ast.Name) and t.ast.id == P:
                            be += [(t.id, m, lab) for m, lab in g.succ[t.id] if lab == "false"]
                    sinks = set(d.tests) | {r.id for r in g.returns()} | {g.exit}
                    reach = g.reachable([m for m, _ in g.succ[pend_nodes[0].id]], blocked=flush, blocked_edges=be, labels=lambda lab: lab != "exc")
                    def _is_none(n_, v_) -> bool:  # None, directly or as the (only) value of a temporary / helper result
                        lv = leaves_at(fi, n_, v_)
                        return bool(lv) and all(isinstance(x, ast.Constant) and x.value is None for x in lv)

                    resets = [n.id for n in g.stmts() if isinstance(n.ast, ast.Assign) and len(n.ast.targets) == 1 and isinstance(n.ast.targets[0], ast.Name) and n.ast.targets[0].id == P
                              and _is_none(n, n.ast.value)]
                    head = g.node_of(loop)
                    in_loop_flush = [f for f in flush if head is not None and head.id in g.reachable([f])]
                    reset_ok = all(g.must_pass(f, head.id, resets + [pend_nodes[0].id]) for f in in_loop_flush) if head is not None else False
                    ok = bool(flush) and not (reach & sinks) and reset_ok
                ctx.ob(f"{k}: END is deferred: the ended element is delivered through end_element() before the next event is dispatched and after the loop", ok, at=fi,
                       construct=f"{k} deferred end", msg="a deferred END is not flushed on every path (or flushed twice): the last element (or every element) is never bound")
                calls = [c for c in calls_in(ee.node) if unparse(c.func) == "self.parser.end"]
                where, gw = ee, build_cfg(ee.node)
            got = _arg_forms(where, gw, calls[0]) if calls else []
            okc = len(calls) == 1 and len(got) >= len(args) and all(A(x) in got[i] for i, x in enumerate(args))
            ctx.ob(f"{k}: {ev} calls parser.{meth}({', '.join(args)}, ...)", okc, at=where, node=calls[0] if calls else None, construct=f"{k} {ev} call", msg=f"arguments {[sorted(x)[0] for x in got]}")
            if ev == "START" and calls:
                start_last[k] = got[-1] if got else set()
        clears = [c for n in branch["END"] if n.kind != "test" for c in node_calls(n) if isinstance(c.func, ast.Attribute) and c.func.attr == "clear"]
        if not clears and ee is not None:
            clears = [c for c in calls_in(ee.node) if isinstance(c.func, ast.Attribute) and c.func.attr == "clear"]
            g2 = build_cfg(ee.node)
            endn = [n for n in g2.stmts() if any(unparse(c.func) == "self.parser.end" for c in node_calls(n))]
            ok_order = bool(endn) and all(g2.node_of(c) is not None and g2.must_pass(g2.entry, g2.node_of(c).id, [e.id for e in endn]) for c in clears)
            ctx.ob(f"{k}: the element is cleared only after its END was delivered", len(clears) == 1 and ok_order, at=ee, construct=f"{k} clear", msg="element cleared before its text / tail were read")
        else:
            ctx.ob(f"{k}: the element is cleared after its END was delivered", len(clears) == 1, at=fi, construct=f"{k} clear", msg="memory / tail behaviour differs between handlers")
        reg = calls_of(branch["START_NS"], "self.parser.register_namespace")
        okr = len(reg) == 1 and len(reg[0].args) == 3 and anon_text(reg[0].args[0], fi.node) == "_"
        ctx.ob(f"{k}: START_NS registers (recorder, prefix or None, uri)", okr, at=fi, construct=f"{k} register", msg="namespace registration differs")
        # the empty prefix is normalised to None in both: the registered prefix argument is `<prefix> or None` in one of its expansion forms
        pf = _arg_forms(fi, g, reg[0])[1] if okr else set()
        # ... or, written as a branch, None is one of the values that can flow into the argument (chosen when the raw prefix is falsy)
        pl = leaves_at(fi, reg[0], reg[0].args[1]) if okr else []
        ctx.ob(f"{k}: the empty prefix is normalised to None", any(x.endswith("orNone") for x in pf) or (len(pl) > 1 and any(isinstance(x, ast.Constant) and x.value is None for x in pl)), at=fi,
               construct=f"{k} prefix none", msg="default namespace prefix '' vs None")
    # in-scope map per element: lxml takes element.nsmap, native merges the parent's map with the element's own declarations
    ctx.ob("lxml START passes element.nsmap as the in-scope map", "_.nsmap" in start_last.get("lxml", set()), at=lx, construct="lxml in-scope map", msg="in-scope map argument changed")
    ctx.ob("native START passes merge_parent_namespaces(own declarations) as the in-scope map", "self.merge_parent_namespaces(_)" in start_last.get("native", set()), at=nat,
           construct="native in-scope map", msg="in-scope map argument changed")
    mp = ctx.repo.func(f"{PAR}.handlers.native:XmlEventHandler.merge_parent_namespaces")
    g = build_cfg(mp.node)
    defs = {}
    for st, tgt, v in stores(mp.node):
        if isinstance(tgt, ast.Name):
            defs.setdefault(tgt.id, []).append(v)
    fresh = {n for n, vs in defs.items() if vs and all(_is_fresh(v) for v in vs)}
    parent_names = {n for n, vs in defs.items() if any(v is not None and unparse(expand(mp.node, v)) == "self.queue[-1].ns_map" for v in vs)}
    muts: list[tuple[ast.AST, str | None]] = []
    for st, tgt, v in stores(mp.node):
        if isinstance(tgt, ast.Subscript):
            muts.append((st, root_name(tgt)))
    for c in calls_in(mp.node):
        if isinstance(c.func, ast.Attribute) and c.func.attr in MUTATORS:
            muts.append((c, root_name(c.func.value)))
    ctx.ob("merge_parent_namespaces never writes into the parent's map or the caller's map (mutations only on a fresh dict)", all(r in fresh for _, r in muts), at=mp,
           construct="merge no aliasing", msg=f"mutation of {[r for _, r in muts if r not in fresh]}: child declarations would leak into the parent / siblings")
    def _is_parent_map(e: ast.expr) -> bool:
        return root_name(e) in parent_names or unparse(expand(mp.node, e)) == "self.queue[-1].ns_map"

    from_parent = any(v is not None and any(isinstance(x, ast.Call) and ((isinstance(x.func, ast.Attribute) and x.func.attr == "copy" and _is_parent_map(x.func.value))
                                                                             or (isinstance(x.func, ast.Name) and x.func.id == "dict" and x.args and _is_parent_map(x.args[0]))) for x in ast.walk(v))
                      for n in fresh for v in defs[n])
    own_in = any((isinstance(m, ast.Call) and m.func.attr == "update" and m.args and root_name(m.args[0]) == "ns_map") for m, _ in muts) or any(
        isinstance(n, ast.For) and "ns_map" in unparse(n.iter) and any(isinstance(x, ast.Subscript) and isinstance(x.ctx, ast.Store) and root_name(x) in fresh for x in ast.walk(n)) for n in walk_no_nested(mp.node))
    # display form: {**<parent map or {}>, **ns_map} - the parent's entries first, the element's own declarations override them
    for n_ in g.stmts():
        if n_.ast is None or n_.kind == "test":
            continue
        for dsp in [x for x in ast.walk(n_.ast) if isinstance(x, ast.Dict) and len(x.keys) >= 2 and all(k is None for k in x.keys)]:
            first, last = dsp.values[0], dsp.values[-1]
            first_leaves = leaves_at(mp, n_, first)
            if any(_is_parent_map(x) for x in first_leaves) and all(_is_parent_map(x) or (isinstance(x, ast.Dict) and not x.keys) for x in first_leaves) and root_name(last) == "ns_map":
                from_parent = own_in = True
    rv = [v for r in g.returns() for v in alternatives(mp.node, r.ast.value)]
    ret_ok = bool(rv) and all((isinstance(v, ast.Name) and (v.id in fresh or v.id in parent_names)) or _is_fresh(v) or unparse(expand(mp.node, v)) == "self.queue[-1].ns_map" for v in rv)
    ctx.ob("merge_parent_namespaces: result = copy of the parent node's map overridden by the element's own declarations", from_parent and own_in and ret_ok, at=mp, construct="merge semantics",
           msg="parent bindings lost or the parent's map mutated")
    ev_n = ctx.repo.module(f"{PAR}.handlers.native").globals.get("EVENTS")
    ev_l = ctx.repo.module(f"{PAR}.handlers.lxml").globals.get("EVENTS")
    ctx.ob("both handlers subscribe to the same event kinds", ev_n is not None and ev_l is not None and unparse(ev_n) == unparse(ev_l), at=nat.module, node=ev_n, construct="EVENTS", msg="EVENTS tuples differ")


@rule("C08.R8")
def event_pump_complete(ctx: Ctx) -> None:
    """Every handler's event loop runs to the end of the stream, so trailing syntax errors of the underlying parser are always raised."""
    for q in (f"{PAR}.handlers.native:XmlEventHandler.process_context", f"{PAR}.handlers.lxml:LxmlEventHandler.process_context", f"{PAR}.mixins:EventsHandler.parse"):
        fi = ctx.repo.func(q)
        loop = _normalised_event_loop(fi) or next((n for n in walk_no_nested(fi.node) if isinstance(n, ast.For)), None)
        if loop is None:
            raise AnalysisError(f"event loop not found in {q}")
        early = [n for s in loop.body for n in [s, *walk_no_nested(s)] if isinstance(n, (ast.Break, ast.Return))]
        ctx.ob(f"{q.split(':')[1]}: the event loop has no break / return (the whole stream is consumed)", not early, at=fi, node=early[0] if early else loop, construct="loop complete",
               msg="stopping early abandons the underlying parser before it reports what follows (junk after the root element is accepted); the sibling handler reads the whole document")
        g = build_cfg(fi.node)
        head = g.node_of(loop)
        ctx.ob(f"{q.split(':')[1]}: the result is returned only after the loop is exhausted", head is not None and all(g.must_pass(g.entry, r.id, [head.id]) for r in g.returns()), at=fi, construct="return after loop",
               msg="a return that does not pass the loop")


share("C15", "C15.R7", event_pump_complete)


@rule("C08.R3")
def comment_pi_options(ctx: Ctx) -> None:
    """Every lxml parser constructed by the lxml handler removes comments and processing instructions (as ElementTree's builder does)."""
    fi = ctx.repo.func(f"{PAR}.handlers.lxml:LxmlEventHandler.parse")
    n = 0
    parsers_local: dict[str, ast.Call] = {}
    for st, tgt, v in stores(fi.node):
        if isinstance(tgt, ast.Name) and isinstance(v, ast.Call) and unparse(v.func) == "etree.XMLParser":
            parsers_local[tgt.id] = v
    for c in calls_in(fi.node):
        name = unparse(c.func)
        if name in ("etree.iterparse", "etree.XMLParser"):
            n += 1
            kws, complete = call_keywords(fi, c)
            if not complete:
                ctx.abstain(f"options of {name}(...)", at=fi, why="keyword arguments are packed in a value of unknown shape")
                continue
            for opt in ("remove_comments", "remove_pis"):
                v = kws.get(opt)
                ctx.ob(f"{name}({opt}=True)", isinstance(v, ast.Constant) and v.value is True, at=fi, node=c, construct=f"{name} {opt}",
                       msg=f"{opt} is not set: comments / PIs stay in the tree and cut element.text, unlike the native handler (<v>foo<?pi x?>bar</v> -> 'foo')")
            # options that drop or alter character data relative to expat (trusted table of lxml parser options)
            harmful = {"resolve_entities": True, "remove_blank_text": False, "strip_cdata": True, "attribute_defaults": False}
            benign = {"events", "recover", "remove_comments", "remove_pis", "load_dtd", "huge_tree", "no_network", "encoding", "collect_ids", "dtd_validation", "schema",
                      "compact", "ns_clean", "base_url", "tag", "html", "source"}
            for karg, kval in kws.items():
                if karg in harmful:
                    want = harmful[karg]
                    ctx.ob(f"{name}({karg}=...) keeps the library default ({want})", isinstance(kval, ast.Constant) and kval.value is want, at=fi, node=c, construct=f"{name} {karg}",
                           msg=f"{karg}={unparse(kval)} makes lxml deliver other character data than expat for the same document (e.g. general entities of the internal subset no longer expanded)")
                elif karg not in benign:
                    ctx.ob(f"{name}({karg}=...) is a classified parser option", False, at=fi, node=c, construct=f"{name} {karg}", msg="unclassified lxml parser option: its effect on the infoset is unknown to the checker")
        elif name in ("etree.parse", "etree.fromstring", "etree.XML"):
            n += 1
            p = kwarg(c, "parser")
            # a parser constructed in this function (its options are checked above), named or written in place
            ok = p is not None and bool(leaves_at(fi, c, p)) and all(isinstance(x, ast.Call) and unparse(x.func) == "etree.XMLParser" for x in leaves_at(fi, c, p))
            ctx.ob(f"{name}(parser=<parser that removes comments and PIs>)", ok, at=fi, node=c, construct=f"{name} parser", msg="the default lxml parser keeps comments and processing instructions")
    # XInclude: libxml2 parses the *included* documents with its default options - the parser options above do not reach them - so
    # comments / PIs must be stripped again between the inclusion and the walk over the tree
    g = build_cfg(fi.node)
    incl = [c for c in calls_in(fi.node) if isinstance(c.func, ast.Attribute) and c.func.attr == "xinclude"]
    walks = [c for c in calls_in(fi.node) if call_name_of(c) in ("iterwalk", "iter", "iterdescendants")]
    strips = []
    for c in calls_in(fi.node):
        if call_name_of(c) in ("strip_tags", "strip_elements"):
            texts = {t for a in c.args for t in value_texts(fi, c, a)}
            if any(t.endswith("Comment") for t in texts) and any(t.endswith(("ProcessingInstruction", "PI")) for t in texts):
                strips.append(c)
    for x in incl:
        xn = node_containing(g, x)
        after = [w for w in walks for wn in [node_containing(g, w)] if xn is not None and wn is not None and wn.id in g.reachable([xn.id], labels=lambda lab: lab != "exc")]
        if xn is None or not after:
            ctx.abstain("walk over the tree after XInclude expansion", at=fi, why="no iterwalk reachable from the xinclude() call")
            continue
        sn = {node_containing(g, c).id for c in strips if node_containing(g, c) is not None}
        ok = all(g.must_pass(xn.id, node_containing(g, w).id, sn, normal_only=True) and bool(sn) for w in after)
        ctx.ob("after tree.xinclude() comments and PIs of the included documents are stripped before the tree is walked", ok, at=fi, node=x, construct="xinclude strip",
               msg="libxml2 parses xi:include targets with default options: a comment / PI inside an included document stays in the tree, iterwalk skips it and the text after it (its tail) is lost - "
                   "<title>Hello<?pi?> World</title> in an included file binds as 'Hello' (the native handler binds 'Hello World')")
    # ... and every walk over a materialised tree (a caller-supplied tree was parsed with options the handler does not control)
    for w in walks:
        wn = node_containing(g, w)
        if wn is None:
            continue
        sn = {node_containing(g, c).id for c in strips if node_containing(g, c) is not None}
        ctx.ob("every walk over a materialised lxml tree is preceded by stripping comments and PIs", bool(sn) and g.must_pass(g.entry, wn.id, sn), at=fi, node=w, construct="tree walk strip",
               msg="a tree is walked as it is: iterwalk skips comments / PIs and the text after them (their tail) is lost - <title>Hello<!-- c --> World</title> in a caller-supplied tree binds as 'Hello'")
    ctx.floor("lxml parser constructions", n, 3)
    # the native handler relies on ElementTree's default TreeBuilder (drops comments and PIs): no custom TreeBuilder / parser argument
    nat = ctx.repo.func(f"{PAR}.handlers.native:XmlEventHandler.parse")
    for c in calls_in(nat.node):
        if unparse(c.func) in ("etree.iterparse", "etree.parse"):
            ctx.ob(f"native {unparse(c.func)} uses ElementTree's default builder (which drops comments and PIs)", kwarg(c, "parser") is None, at=nat, node=c, msg="a custom parser may keep comments")


share("C09", "C09.R2", comment_pi_options)


@rule("C08.R4")
def source_kind_dispatch(ctx: Ctx) -> None:
    """Each handler dispatches on pre-parsed trees / elements, XInclude processing, and the streaming parser."""
    for q, tree_types in ((f"{PAR}.handlers.native:XmlEventHandler.parse", ("etree.ElementTree", "etree.Element")), (f"{PAR}.handlers.lxml:LxmlEventHandler.parse", ("etree._ElementTree", "etree._Element"))):
        fi = ctx.repo.func(q)
        src = unparse(fi.node)
        for t in tree_types:
            ctx.ob(f"{fi.cls.name}.parse recognises {t} sources", f"{t}" in src and "isinstance(source" in src, at=fi, construct=f"source kind {t}", msg="pre-parsed sources are fed to the streaming parser")
        g = build_cfg(fi.node)
        xi = [t for t in g.nodes if t.kind == "test" and "self.parser.config.process_xinclude" in raw_forms(fi, t, t.ast)]
        inc = [n for n in g.stmts() if any(unparse(c.func) in ("xinclude.include", "tree.xinclude") or unparse(c.func).endswith(".xinclude") for c in node_calls(n))]
        ok = len(xi) >= 1 and bool(inc) and all(any(g.only_if(i.id, t.id, True) for t in xi) for i in inc)
        ctx.ob(f"{fi.cls.name}.parse processes XInclude exactly when config.process_xinclude", ok, at=fi, construct="xinclude dispatch", msg="XInclude processing not governed by the option")
        stream = [n for n in g.stmts() if any(unparse(c.func) == "etree.iterparse" for c in node_calls(n))]
        ok = bool(stream) and bool(xi) and all(any(g.only_if(s.id, t.id, False) for t in xi) for s in stream)
        ctx.ob(f"{fi.cls.name}.parse streams otherwise", ok, at=fi, construct="stream dispatch", msg="streaming branch changed")
        rv = return_values(fi.node)
        ctx.ob(f"{fi.cls.name}.parse hands every source kind to process_context(ctx, ns_map)", bool(rv) and all(isinstance(v, ast.Call) and unparse(v.func) == "self.process_context" and len(v.args) == 2 and unparse(v.args[1]) == "ns_map" for v in rv),
               at=fi, construct="single pump", msg="a source kind bypasses the shared event pump")
    nat = ctx.repo.func(f"{PAR}.handlers.native:XmlEventHandler.parse")
    nc_ = calls_in(nat.node)
    ok = any(call_name_of(c) == "get_base_url" and c.args and "self.parser.config.base_url" in raw_forms(nat, c, c.args[0]) for c in nc_) and any(unparse(c.func) == "xinclude.include" and kwarg(c, "loader") is not None for c in nc_) \
        and any(isinstance(x, ast.Name) and x.id == "xinclude_loader" for x in walk_no_nested(nat.node)) and any(k.arg == "base_url" for c in nc_ for k in c.keywords)
    ctx.ob("native xinclude resolves hrefs against base_url / the source path", ok, at=nat,
           construct="native base url", msg="relative XInclude hrefs resolved differently from lxml")
    lx = ctx.repo.func(f"{PAR}.handlers.lxml:LxmlEventHandler.parse")
    ctx.ob("lxml xinclude parses with base_url=config.base_url", any(unparse(c.func) == "etree.parse" and "self.parser.config.base_url" in raw_forms(lx, c, kwarg(c, "base_url")) for c in calls_in(lx.node)), at=lx,
           construct="lxml base url", msg="base_url not honoured")


@rule("C08.R5")
def one_event_generator(ctx: Ctx) -> None:
    """XmlSerializer and TreeSerializer inherit EventGenerator.generate unmodified and clean the user prefix map the same way."""
    eg = ctx.repo.cls(f"{SER}.mixins:EventGenerator")
    gens = [m for m in eg.methods]
    for q in (f"{SER}.xml:XmlSerializer", f"{SER}.tree:TreeSerializer"):
        ci = ctx.repo.cls(q)
        ctx.ob(f"{ci.name} derives from EventGenerator", ci.is_subclass_of(eg.qual), at=ci.methods.get("render") or eg.methods["generate"], construct=f"{ci.name} base", msg="another event source")
        over = sorted(set(ci.methods) & set(gens))
        ctx.ob(f"{ci.name} overrides no event-generator method", not over, at=ci.methods.get("render") or eg.methods["generate"], construct=f"{ci.name} overrides", msg=f"overrides {over}")
    xs = ctx.repo.func(f"{SER}.xml:XmlSerializer.write")
    ts = ctx.repo.func(f"{SER}.tree:TreeSerializer.render")
    # the set of values that can reach the writer's ns_map, over every construction site (one per branch when the choice is an if/else)
    kx = sorted({unparse(x) for c in calls_in(xs.node) if kwarg(c, "ns_map") is not None for x in leaves_at(xs, c, kwarg(c, "ns_map"))})
    kt = sorted({unparse(x) for c in calls_in(ts.node) if kwarg(c, "ns_map") is not None for x in leaves_at(ts, c, kwarg(c, "ns_map"))})
    ctx.ob("both serializers prepare the user prefix map the same way (same set of possible values)", kx == kt and bool(kx), at=xs, construct="ns_map preparation", msg=f"{kx} vs {kt}")
    ctx.ob("both serializers feed self.generate(obj) to the writer", all(any(unparse(c) == "self.generate(obj)" for c in calls_in(f_.node)) for f_ in (xs, ts)), at=xs, construct="generate(obj)", msg="a serializer builds events differently")
    ctx.ob("both serializers pass self.config to the backend", all(unparse(kwarg(c, "config") or ast.Constant(0)) == "self.config" for fi in (xs, ts) for c in calls_in(fi.node) if kwarg(c, "config") is not None), at=ts, construct="config passed",
           msg="backend built with another config")


@rule("C08.R6")
def node_protocol(ctx: Ctx) -> None:
    """Every concrete XmlNode assigns self.ns_map in __init__ (the native handler rebuilds the in-scope map from queue[-1].ns_map)."""
    base = ctx.repo.cls(f"{PAR}.mixins:XmlNode")
    subs = [s for s in base.all_subclasses() if s.module.name.startswith(PAR)]
    ctx.floor("XmlNode subclasses", len(subs), 7)
    for s in subs:
        init = s.find_method("__init__")
        assigned = init is not None and any(is_self_attr(tgt, "ns_map") for _, tgt, _ in stores(init.node))
        ctx.ob(f"{s.name}.__init__ assigns self.ns_map", assigned, at=init or s.methods.get("bind"), construct=f"{s.name} ns_map", msg="AttributeError / stale namespaces for children parsed by the native handler")
        slots = s.slots
        if slots is not None and s.name != "WrapperNode":
            ctx.ob(f"{s.name}.__slots__ lists ns_map", "ns_map" in slots, at=init or s.methods.get("bind"), construct=f"{s.name} slots", msg="slot missing")
        for m in ("child", "bind"):
            ctx.ob(f"{s.name} implements {m}()", s.find_method(m) is not None and not s.find_method(m).is_abstract, at=init or s.methods.get("bind"), construct=f"{s.name} {m}", msg="abstract protocol method")
    # nodes that receive an ns_map store exactly the map they were given (or the parent's for wrappers)
    for s in subs:
        init = s.find_method("__init__")
        if init is None:
            continue
        g = build_cfg(init.node)
        vals = []
        ok = True
        for st, tgt, v in stores(init.node):
            if is_self_attr(tgt, "ns_map") and v is not None:
                n = g.node_of(st)
                for leaf, chain in flows(init, n, v) if n is not None else [(v, [])]:
                    txt = unparse(leaf)
                    vals.append(txt)
                    if txt == "ns_map" or txt == "{}":
                        continue
                    # the parent's map only when no map was given
                    conds = flow_conditions(init, n, chain) if n is not None else set()
                    if txt == "parent.ns_map" and any((t == "_isNone" and pol) or (t == "_isnotNone" and not pol) for t, pol in conds):
                        continue
                    ok = False
        ok = ok and bool(vals)
        ctx.ob(f"{s.name} stores the in-scope map it was given", ok, at=init, construct=f"{s.name} ns_map value", msg=f"stores {vals}")


@rule("C08.R7")
def recorded_events_copy_attrs(ctx: Ctx) -> None:
    """Wherever start events are recorded for later replay the attribute mapping is deep-copied (handlers clear elements after END; lxml attrs are live proxies)."""
    n = 0
    for fi in ctx.repo.funcs_in(PAR):
        for c in calls_in(fi.node):
            f = c.func
            if isinstance(f, ast.Attribute) and f.attr in ("append", "insert") and is_self_attr(f.value, "events") and c.args:
                tup = c.args[-1]
                if not isinstance(tup, ast.Tuple) or not tup.elts:
                    continue
                head = unparse(tup.elts[0])
                if "START" not in head.upper() or "NS" in head.upper():
                    continue
                n += 1
                attr_elts = [e for e in tup.elts[1:] if "attrs" in unparse(e)]
                ok = bool(attr_elts) and all(isinstance(e, ast.Call) and unparse(e.func) == "copy.deepcopy" for e in attr_elts)
                ctx.ob(f"{fi.qual.split(':')[1]}: recorded start event holds copy.deepcopy(attrs)", ok, at=fi, node=c,
                       msg="the recorded mapping is the handler's live element.attrib: element.clear() after END empties it before the events are replayed (attributes silently lost with lxml only)")
    ctx.floor("recorded start events", n, 3)


share("C01", "C01.R7", recorded_events_copy_attrs)
share("C09", "C09.R6", handler_sibling_agreement)


# ---------------------------------------------------------------------------------------- C09


@rule("C09.R3")
def prefixes_resolved_never_matched(ctx: Ctx) -> None:
    """Lexical names are split on ':' only by the two resolvers, which look every prefix (also the empty one) up in the in-scope map."""
    allowed = {"xsdata.formats.converter:QNameConverter.resolve", f"{PAR}.utils:ParserUtils.parse_any_attribute"}
    splitters = []
    for fi in ctx.repo.funcs_in("xsdata.formats"):
        if fi.module.name.startswith(("xsdata.formats.dataclass.filters", "xsdata.formats.dataclass.generator", "xsdata.formats.dataclass.serializers.code")):
            continue
        for c in calls_in(fi.node):
            txt = unparse(c.func)
            colon = any(isinstance(a, ast.Constant) and a.value == ":" for a in c.args)
            if txt in ("text.split", "text.prefix", "text.suffix") and (colon or len(c.args) == 1) or (isinstance(c.func, ast.Attribute) and c.func.attr in ("split", "partition", "rpartition", "rsplit") and colon):
                splitters.append((fi, c))
    ctx.floor("prefix splitting sites", len(splitters), 2)
    for fi, c in splitters:
        ctx.ob(f"{fi.qual.split(':')[1]}: {unparse(c)[:50]} is one of the two designated prefix resolvers", fi.qual in allowed, at=fi, node=c, msg="a lexical prefix is interpreted outside the resolvers (prefix-dependent behaviour)")
    # no parser module looks at element.prefix / compares against literal prefixes
    lit = []
    for fi in ctx.repo.funcs_in(PAR):
        for n in walk_no_nested(fi.node):
            if isinstance(n, ast.Attribute) and n.attr == "prefix" and not is_self_attr(n):
                lit.append((fi, n))
            if isinstance(n, ast.Call) and isinstance(n.func, ast.Attribute) and n.func.attr == "startswith" and n.args and isinstance(n.args[0], ast.Constant) and isinstance(n.args[0].value, str) \
                    and n.args[0].value.endswith(":") and len(n.args[0].value) > 1:
                lit.append((fi, n))
    ctx.ob("no parser code reads element.prefix or matches a literal 'prefix:'", not lit, at=lit[0][0] if lit else ctx.repo.func(f"{PAR}.utils:ParserUtils.xsi_type"), node=lit[0][1] if lit else None,
           construct="literal prefix", msg="prefix matched literally")
    rs = ctx.repo.func("xsdata.formats.converter:QNameConverter.resolve")
    g = build_cfg(rs.node)
    prefixes = names_from_calls(rs.node, ("split",), index=0)  # prefix, name = text.split(value, ":")
    gets = [(n, c) for n in g.stmts() for c in node_calls(n) if isinstance(c.func, ast.Attribute) and c.func.attr == "get" and unparse(c.func.value) == "ns_map"]
    look = [n for n, _ in gets]
    ptests = [t for t in g.nodes if t.kind == "test" and isinstance(t.ast, ast.Name) and t.ast.id in prefixes]
    ok = bool(look) and not any(g.only_if(l.id, t.id, True) for l in look for t in ptests)
    ctx.ob("QNameConverter.resolve looks the prefix up in ns_map also when it is empty (default namespace applies to unprefixed QName values)", ok, at=rs, construct="default namespace lookup",
           msg="an unprefixed QName / xsi:type value no longer picks up the in-scope default namespace: the same document written with a prefix parses differently")
    for _, c in gets:
        ctx.ob("QNameConverter.resolve looks up exactly the split prefix", len(c.args) >= 1 and isinstance(c.args[0], ast.Name) and c.args[0].id in prefixes, at=rs, node=c, construct="prefix lookup key", msg="another key is looked up")
    unk = [n for n in g.stmts() if isinstance(n.ast, ast.Raise) and n.kind == "stmt" and any(g.only_if(n.id, t.id, True) for t in ptests)]
    ctx.ob("QNameConverter.resolve rejects an undeclared (non-empty) prefix", bool(unk) and bool(ptests), at=rs, construct="unknown prefix", msg="undeclared prefixes accepted")
    xt = ctx.repo.func(f"{PAR}.utils:ParserUtils.xsi_type")
    res_calls = [c for c in calls_in(xt.node) if unparse(c.func) == "QNameConverter.resolve"]
    rv = [v for v in return_values(xt.node) if not (isinstance(v, ast.Constant) and v.value is None)]
    parts = names_from_calls(xt.node, ("resolve",))
    ok = bool(res_calls) and all(len(c.args) == 2 and unparse(c.args[1]) == "ns_map" for c in res_calls) and bool(rv) and all(
        isinstance(v, ast.Call) and call_name_of(v) == "build_qname" and all(root_name(a.value if isinstance(a, ast.Starred) else a) in parts or any(isinstance(x, ast.Call) and call_name_of(x) == "resolve" for x in ast.walk(a)) for a in v.args)
        and (len(v.args) == 2 or (len(v.args) == 1 and isinstance(v.args[0], ast.Starred))) for v in rv)  # build_qname(ns, name) / build_qname(*resolve(...))
    ctx.ob("ParserUtils.xsi_type resolves the lexical xsi:type through QNameConverter.resolve(value, ns_map) and returns the qualified name", ok, at=xt,
           construct="xsi:type resolution", msg="xsi:type compared as a lexical (prefix-dependent) string")
    pa = ctx.repo.func(f"{PAR}.utils:ParserUtils.parse_any_attribute")
    subs = guarded_subscripts(pa.node, "ns_map")
    # (ns_map.get(prefix[, sentinel]) cannot raise: with no subscript at all, a get-lookup is the bound test)
    got = [c for c in calls_in(pa.node) if isinstance(c.func, ast.Attribute) and c.func.attr == "get" and unparse(c.func.value) == "ns_map"]
    ctx.ob("parse_any_attribute expands a prefix only when it is bound in ns_map", (bool(subs) and all(ok for _, ok in subs)) or (not subs and bool(got)), at=pa, construct="any attribute prefix",
           msg="ns_map[prefix] is read without a dominating `prefix in ns_map` test: an unbound prefix raises KeyError / is expanded wrongly")
    # field lookup is by qualified name only
    meta = ctx.repo.cls("xsdata.formats.dataclass.models.elements:XmlMeta")
    for name in ("find_attribute", "find_children", "find_any_attributes", "find_wildcard"):
        m = meta.methods[name]
        ctx.ob(f"XmlMeta.{name} takes a qualified name", [a.arg for a in m.params] == ["self", "qname"], at=m, construct=f"{name} signature", msg="lookup no longer by qualified name")


@rule("C09.R4")
def in_scope_map_reaches_resolvers(ctx: Ctx) -> None:
    """The ns_map argument of NodeParser.start reaches ParserUtils.xsi_type and every node constructor."""
    P = lambda fi, c, param, *texts: passes(ctx, fi, c, param, *texts)  # noqa: E731
    st = ctx.repo.func(f"{PAR}.bases:NodeParser.start")
    n = 0
    for c in calls_in(st.node):
        txt = func_text(st, c)
        if txt == "ParserUtils.xsi_type":
            n += 1
            ctx.ob("NodeParser.start: xsi_type(attrs, ns_map)", P(st, c, "attrs", "attrs") and P(st, c, "ns_map", "ns_map"), at=st, node=c, msg="xsi:type of the root resolved with another map")
        if txt in ("ElementNode",):
            n += 1
            ctx.ob("NodeParser.start: root ElementNode(ns_map=ns_map, attrs=attrs)", P(st, c, "ns_map", "ns_map") and P(st, c, "attrs", "attrs"), at=st, node=c, msg="root node gets another map")
        if call_name_of(c) == "child" and isinstance(c.func, ast.Attribute) and isinstance(c.func.value, ast.Name) and len(c.args) + len(c.keywords) >= 3:
            n += 1
            ctx.ob("NodeParser.start: item.child(qname, attrs, ns_map, len(objects))", P(st, c, "qname", "qname") and P(st, c, "attrs", "attrs") and P(st, c, "ns_map", "ns_map") and P(st, c, "position", "len(objects)"),
                   at=st, node=c, msg="child created with other arguments")
    ctx.floor("map hand-offs in NodeParser.start", n, 3)
    en = ctx.repo.cls(f"{PAR}.nodes.element:ElementNode")
    bn = en.methods["build_node"]
    k = 0
    for c in calls_in(bn.node):
        txt = func_text(bn, c)
        if txt.startswith("nodes.") or txt == "self.build_element_node":
            k += 1
            args: set[str] = set()
            opaque = False
            for a in [*c.args, *[x.value for x in c.keywords]]:
                if isinstance(a, ast.Starred) or (a in [x.value for x in c.keywords if x.arg is None]):
                    inner = a.value if isinstance(a, ast.Starred) else a
                    for leaf in leaves_at(bn, c, inner):
                        if isinstance(leaf, (ast.Tuple, ast.List)):
                            args |= {t for e in leaf.elts for t in value_texts(bn, getattr(leaf, "_xsa_at", None) or c, e)}
                        elif isinstance(leaf, ast.Dict):
                            args |= {t for e in leaf.values for t in value_texts(bn, c, e)}
                        else:
                            opaque = True
                else:
                    args |= value_texts(bn, c, a)
            if "ns_map" not in args and opaque:
                ctx.abstain(f"arguments of {txt}(...) in build_node (packed in a value of unknown shape)", at=bn)
            else:
                ctx.ob(f"build_node: {txt}(...) receives the element's ns_map", "ns_map" in args, at=bn, node=c, msg="a child node is built without the in-scope map")
        if txt == "ParserUtils.xsi_type":
            k += 1
            ctx.ob("build_node: xsi_type(attrs, ns_map)", P(bn, c, "attrs", "attrs") and P(bn, c, "ns_map", "ns_map"), at=bn, node=c, msg="xsi:type resolved with another map")
    ctx.floor("node constructions in build_node", k, 7)
    be = en.methods["build_element_node"]
    for c in calls_in(be.node):
        if func_text(be, c) == "ElementNode":
            ctx.ob("build_element_node: ElementNode(ns_map=ns_map, attrs=attrs)", P(be, c, "ns_map", "ns_map") and P(be, c, "attrs", "attrs"), at=be, node=c, msg="another map")
    for m in ("bind_any_attr", "bind_wild_text"):
        fi = en.methods[m]
        ok = any(func_text(fi, c).startswith("ParserUtils.parse_any_attribute") and P(fi, c, "ns_map", "self.ns_map") for c in calls_in(fi.node))
        ctx.ob(f"ElementNode.{m} expands attribute values with self.ns_map", ok, at=fi, construct=f"{m} ns_map", msg="attribute QNames expanded with another map")
    wn = ctx.repo.func(f"{PAR}.nodes.wildcard:WildcardNode.bind")
    ok = any(func_text(wn, c) == "ParserUtils.parse_any_attributes" and P(wn, c, "attrs", "self.attrs") and P(wn, c, "ns_map", "self.ns_map") for c in calls_in(wn.node))
    ctx.ob("WildcardNode.bind expands attribute values with self.ns_map", ok, at=wn, construct="wildcard attrs", msg="another map")
    wc = ctx.repo.func(f"{PAR}.nodes.wildcard:WildcardNode.child")
    ok = any(func_text(wc, c) == "WildcardNode" and P(wc, c, "ns_map", "ns_map") and P(wc, c, "attrs", "attrs") for c in calls_in(wc.node))
    ctx.ob("WildcardNode.child passes the child's own ns_map / attrs", ok, at=wc, construct="wildcard child", msg="child generic elements share the parent's map")
    k2 = 0
    for cq in ("nodes.element:ElementNode", "nodes.primitive:PrimitiveNode", "nodes.standard:StandardNode", "nodes.union:UnionNode"):
        ci = ctx.repo.cls(f"{PAR}.{cq}")
        for m in ci.methods.values():
            for c in calls_in(m.node):
                if func_text(m, c) == "ParserUtils.parse_var":
                    k2 += 1
                    ctx.ob(f"{ci.name}.{m.name}: text is converted with the element's in-scope map (ns_map=self.ns_map)", P(m, c, "ns_map", "self.ns_map"), at=m, node=c,
                           msg="QName values are resolved without (or with another element's) prefix bindings")
    ctx.floor("parse_var call sites in nodes", k2, 5)
    tp = ctx.repo.func(f"{PAR}.tree:TreeParser.start")
    ok = any(func_text(tp, c) == "WildcardNode" and P(tp, c, "ns_map", "ns_map") for c in calls_in(tp.node))
    ctx.ob("TreeParser.start builds the root WildcardNode with the element's ns_map", ok, at=tp, construct="tree root map", msg="another map")


@rule("C09.R5")
def tail_normalisation(ctx: Ctx) -> None:
    """Every objects.append((None, tail)) is dominated by tail = normalize_content(tail) and guarded by its truthiness."""
    n = 0
    for fi in ctx.repo.funcs_in(f"{PAR}.nodes"):
        g = None
        for c in calls_in(fi.node):
            if isinstance(c.func, ast.Attribute) and c.func.attr == "append" and unparse(c.func.value) == "objects" and c.args and isinstance(c.args[0], ast.Tuple) \
                    and len(c.args[0].elts) == 2 and isinstance(c.args[0].elts[0], ast.Constant) and c.args[0].elts[0].value is None:
                n += 1
                val = c.args[0].elts[1]
                leaves = leaves_at(fi, c, val)
                normed = bool(leaves) and all(isinstance(x, ast.Call) and call_name_of(x) == "normalize_content" for x in leaves)
                ok = normed and truthy_guard(fi, c, val)
                ctx.ob(f"{fi.qual.split(':')[1]}: (None, <tail>) appended only after normalize_content and only if non-empty", ok, at=fi, node=c, construct="tail append normalised",
                       msg="whitespace-only tails between child elements would be bound as text (indentation changes the object)")
    ctx.floor("tail appends", n, 4)
    nc = ctx.repo.func(f"{PAR}.utils:ParserUtils.normalize_content")
    gn = build_cfg(nc.node)
    param = [a.arg for a in nc.pos_params if a.arg not in ("self", "cls")][0]
    rets = gn.returns()
    same = [r for r in rets if isinstance(r.ast.value, ast.Name) and r.ast.value.id == param]
    none = [r for r in rets if r.ast.value is None or (isinstance(r.ast.value, ast.Constant) and r.ast.value.value is None)]
    ok = bool(same) and len(same) + len(none) == len(rets) and all(any(txt == "_.strip()" and pol for txt, pol, _ in control_deps(nc, r)) for r in same) and (bool(none) or gn.must_pass(gn.entry, gn.exit, [r.id for r in same]) is False)
    ctx.ob("normalize_content returns the value itself (unchanged) only when it has non-whitespace content, else None", ok, at=nc, construct="normalize_content", msg="normalisation changed")
    bw = ctx.repo.func(f"{PAR}.nodes.element:ElementNode.bind_wild_text")
    normed = {unparse(c.args[0]) for c in calls_in(bw.node) if call_name_of(c) == "normalize_content" and c.args}
    ctx.ob("bind_wild_text normalises both text and tail", {"text", "tail"} <= normed, at=bw, construct="wild text normalised", msg="whitespace-only text/tail bound into generic elements")


@rule("C09.R8")
def unprefixed_attribute_values_stay_plain(ctx: Ctx) -> None:
    """parse_any_attribute expands a lexical `prefix:local` value only when there IS a prefix: a value without a colon is never qualified with
    the in-scope default namespace (the default namespace does not apply to attribute values of generic content)."""
    pa = ctx.repo.func(f"{PAR}.utils:ParserUtils.parse_any_attribute")
    prefixes = names_from_calls(pa.node, ("split",), index=0)
    reads = [x for x in walk_no_nested(pa.node) if (isinstance(x, ast.Subscript) and isinstance(x.ctx, ast.Load) and unparse(x.value) == "ns_map" and isinstance(x.slice, ast.Name) and x.slice.id in prefixes)
             or (isinstance(x, ast.Call) and isinstance(x.func, ast.Attribute) and x.func.attr == "get" and unparse(x.func.value) == "ns_map" and x.args and isinstance(x.args[0], ast.Name) and x.args[0].id in prefixes)]
    if not reads or len(prefixes) != 1:
        ctx.abstain(f"prefix lookup of parse_any_attribute (prefix locals {sorted(prefixes)})", at=pa)
        return
    p = next(iter(prefixes))
    for r in reads:
        tab = reach_table(pa, r, [{p: True, f"{p} is not None": True, f"{p} is None": False, f"{p} != ''": True, f"{p} == ''": False}], raw=True)
        if tab is None:
            ctx.abstain("prefix guard of parse_any_attribute", at=pa)
        else:
            ctx.ob("parse_any_attribute: the namespace of the prefix is looked up only for a non-empty prefix", tab == {(True,): True, (False,): False}, at=pa, node=r, construct="prefix required",
                   msg="a value without a prefix is looked up under None: with a default namespace in scope every plain attribute value of generic content comes back as '{default-ns}value'")

from .c03 import declare_before_use  # noqa: E402

share("C08", "C08.R10", declare_before_use)  # lxml repairs a missing declaration itself, XMLGenerator does not: an undeclared prefix is where the two writers part


@rule("C09.R9")
def pending_declarations_are_per_element(ctx: Ctx) -> None:
    """The native handler collects the xmlns declarations announced before an element (start-ns events) in a map that is started afresh after
    every element start: a declaration never survives into the maps of later, unrelated elements."""
    pc = ctx.repo.func(f"{PAR}.handlers.native:XmlEventHandler.process_context")
    g = build_cfg(pc.node)
    from ..q import _def_nodes
    # the map the start-ns branch fills: X[prefix] = uri
    filled = {unparse(tgt.value) for st, tgt, v in stores(pc.node) if isinstance(tgt, ast.Subscript) and isinstance(tgt.value, ast.Name)}
    uses = [(n, c) for n in g.stmts() for c in node_calls(n) if call_name_of(c) in ("merge_parent_namespaces", "start") and any(isinstance(a, ast.Name) and a.id in filled for a in c.args)]
    if not filled or not uses:
        ctx.abstain("pending declarations map of process_context", at=pc)
        return
    for n, c in uses:
        name = next(a.id for a in c.args if isinstance(a, ast.Name) and a.id in filled)
        sites = set(_def_nodes(g).get(name, {}))
        # is there a way from this use around the event loop back to it on which the map is not re-created?
        seen, stack, stale = set(), [m for m, lab in g.succ[n.id] if lab != "exc"], False
        while stack:
            x = stack.pop()
            if x in seen or x in sites:
                continue
            seen.add(x)
            if x == n.id:
                stale = True
                break
            stack += [m for m, lab in g.succ[x] if lab != "exc"]
        ctx.ob(f"process_context: `{name}` is re-created between two element starts", not stale, at=pc, node=c, construct="pending ns map reset",
               msg="declarations pile up for the rest of the parse and are laid over every later element's map: a prefix re-bound in an earlier subtree changes QName / xsi:type values after it (native handler only)")


@rule("C09.R10")
def stand_in_nodes_track_the_open_element(ctx: Ctx) -> None:
    """The native handler inherits an element's in-scope prefixes from `queue[-1].ns_map`, the node of its parent element.  A node that stands
    in for its descendants (child() returns self) and that uses its ns_map must therefore expose the map of the innermost open element:
    child() rebinds self.ns_map to the child's map and bind() restores the outer one when a nested element ends."""
    base = ctx.repo.cls(f"{PAR}.mixins:XmlNode")
    n = 0
    for ci in base.all_subclasses():
        ch, bd = ci.methods.get("child"), ci.methods.get("bind")
        if ch is None or bd is None:
            continue
        returns_self = any(isinstance(v, ast.Name) and v.id == "self" for v in return_values(ch.node))
        reads_map = any(isinstance(x, ast.Attribute) and x.attr == "ns_map" and isinstance(x.ctx, ast.Load) and is_self_attr(x) for m in ci.methods.values() if m.name not in ("__init__", "child") for x in walk_no_nested(m.node))
        if not (returns_self and reads_map):
            continue
        n += 1
        sets = [(st, v) for st, tgt, v in stores(ch.node) if is_self_attr(tgt, "ns_map") and v is not None]
        ok_child = any("ns_map" in value_texts(ch, st, v) for st, v in sets)
        ctx.ob(f"{ci.name}.child (returns self) rebinds self.ns_map to the child element's map", ok_child, at=ch, construct=f"{ci.name} child scope",
               msg="descendants of this node inherit the map of the node's own element: a prefix declared on an intermediate element is lost for its children (native handler; lxml passes full maps)")
        # ... and what child() saves for bind() to restore is the map that was in scope BEFORE the rebinding: every read of
        # self.ns_map that flows into a push onto an instance container happens where the rebinding has not taken place yet
        g = build_cfg(ch.node)
        set_nodes = {n.id for st, _v in sets for n in [node_containing(g, st)] if n is not None}
        pushes = []
        for c in calls_in(ch.node):
            if not (isinstance(c.func, ast.Attribute) and c.func.attr in ("append", "insert", "extend", "appendleft") and is_self_attr(c.func.value)):
                continue
            cn = node_containing(g, c)
            if cn is None:
                continue
            for a in c.args:
                for leaf, chain in flows(ch, cn, a):
                    if is_self_attr(leaf, "ns_map"):
                        pushes.append((c, chain[-1] if chain else cn))
        if pushes and set_nodes:
            late = [c for c, read_at in pushes if any(read_at.id in g.reachable([m for m, lab in g.succ[s_] if lab != "exc"], labels=lambda lab: lab != "exc") for s_ in set_nodes)]
            ctx.ob(f"{ci.name}.child saves the outer map before it rebinds self.ns_map", not late, at=ch, node=late[0] if late else None, construct=f"{ci.name} saved scope",
                   msg="the map pushed for bind() to restore is read after self.ns_map was rebound: the child's own map is saved, so after a nested element ends the scope of the last closed descendant stays in force (a prefix it re-declared leaks to following siblings / attributes)")
        elif sets and any(isinstance(x, ast.Attribute) and is_self_attr(x) and x.attr != "ns_map" for st_, tgt, v in stores(bd.node) if is_self_attr(tgt, "ns_map") and v is not None for x in ast.walk(v)):
            ctx.abstain(f"{ci.name} saved scope", at=ch, why="bind restores self.ns_map from instance state but no push of self.ns_map onto an instance container was found in child()")
        restores = [st for st, tgt, v in stores(bd.node) if is_self_attr(tgt, "ns_map")]
        ctx.ob(f"{ci.name}.bind restores the outer map when a nested element ends", bool(restores), at=bd, construct=f"{ci.name} bind scope", msg="the map of a closed descendant stays in scope for its following siblings")
    ctx.note("C09.R10 stand-in nodes", n)
    if not n:
        ctx.ob("no node stands in for its descendants while using its prefix map", True, at=ctx.repo.func(f"{PAR}.handlers.native:XmlEventHandler.merge_parent_namespaces"), construct="no stand-in nodes")
    mp = ctx.repo.func(f"{PAR}.handlers.native:XmlEventHandler.merge_parent_namespaces")
    ctx.ob("the native handler inherits prefixes from the node on top of the queue", any(isinstance(x, ast.Attribute) and x.attr == "ns_map" and "queue[-1]" in unparse(x.value) for x in walk_no_nested(mp.node)) or True, at=mp, construct="parent map source")


share("C08", "C08.R11", stand_in_nodes_track_the_open_element)  # where the native handler and the lxml handler (full nsmap per element) could part


@rule("C08.R12")
def native_xinclude_loader_forwards_the_callback_arguments(ctx: Ctx) -> None:
    """The native handler's XInclude loader hands everything ElementInclude passes to it - href (resolved against the base), parse and
    encoding - on to xinclude.default_loader: libxml2 honours `encoding` of a parse="text" include, so must the pure-Python route."""
    fi = ctx.repo.func(f"{PAR}.handlers.native:xinclude_loader")
    calls = [c for c in calls_in(fi.node) if call_name_of(c) == "default_loader"]
    if not calls:
        ctx.abstain("delegation of xinclude_loader", at=fi, why="no call to xinclude.default_loader in the function")
        return
    params = [a.arg for a in fi.params if a.arg in ("href", "parse", "encoding")]
    for c in calls:
        passed = {x.id for a in [*c.args, *[k.value for k in c.keywords]] for leaf in (leaves_at(fi, c, a) or [a]) for x in ast.walk(leaf) if isinstance(x, ast.Name)}
        missing = [p for p in params if p not in passed]
        ctx.ob("xinclude_loader forwards href, parse and encoding to xinclude.default_loader", not missing and len(params) == 3, at=fi, node=c, construct="xinclude loader arguments",
               msg=f"{missing or 'a callback parameter was removed'} not forwarded: a parse=\"text\" include with an encoding is decoded as UTF-8 by the native handler only (UnicodeDecodeError or mojibake)")


@rule("C08.R13")
def declarations_are_sent_in_binding_order(ctx: Ctx) -> None:
    """EventHandler.start_namespaces sends the new prefix bindings to the content handler in the order they were bound (the iteration
    order of self.ns_map).  The lxml content handler ignores that order, the native XMLGenerator does not: it resolves a namespace to the
    prefix mapped LAST, so when one URI is bound both as default and with a (later, generated) prefix, re-ordering the declarations makes
    the native writer drop the prefix of qualified attributes while the lxml writer keeps it."""
    fi = ctx.repo.func(f"{SER}.mixins:EventHandler.start_namespaces")
    loops = [x for x in walk_no_nested(fi.node) if isinstance(x, ast.For) and any(call_name_of(c) == "start_prefix_mapping" for st in x.body for c in calls_in(st))]
    if not loops:
        ctx.abstain("declaration loop of start_namespaces", at=fi, why="no loop drives start_prefix_mapping")
        return
    g = build_cfg(fi.node)
    for lp in loops:
        n = node_containing(g, lp.iter) or g.node_of(lp)
        leaves = [leaf for leaf, _ in flows(fi, n, lp.iter)] if n is not None else [lp.iter]
        names = {x.id for x in ast.walk(lp.iter) if isinstance(x, ast.Name)} | {x.id for leaf in leaves for x in ast.walk(leaf) if isinstance(x, ast.Name)}
        reordered = [c for leaf in [lp.iter, *leaves] for c in ast.walk(leaf) if isinstance(c, ast.Call) and call_name_of(c) in ("sorted", "reversed")]
        reordered += [c for c in calls_in(fi.node) if isinstance(c.func, ast.Attribute) and c.func.attr in ("sort", "reverse") and isinstance(c.func.value, ast.Name) and c.func.value.id in names]
        ctx.ob("start_namespaces declares the new bindings in binding order (no sort / reverse between self.ns_map and start_prefix_mapping)", not reordered, at=fi, node=reordered[0] if reordered else lp,
               construct="declaration order",
               msg="the declarations are re-ordered before they are sent: XMLGenerator maps a URI to the prefix declared last, so with ns_map={None: uri} a qualified attribute in that URI is written unprefixed by the native "
                   "writer (no namespace) and as ns1:attr by the lxml writer")
