"""C07 - the generator always produces importable code (discipline and template clauses)."""

from __future__ import annotations

import ast
import keyword
import re

from ..cfg import build_cfg, calls_in, node_calls
from ..core import Ctx, property_info, rule
from ..jinja import outputs, template_files
from ..model import AnalysisError, FuncInfo, norm_text, walk_no_nested
from ..q import A, func_text, str_template, callable_leaves, callable_body, sort_calls, value_texts, reach_table, reach_env, node_containing, asrc, call_name_of, control_deps, entry_conditions, flows, leaves_at, names_from_calls, forms, return_values, is_self_attr, kwarg, stores, unparse
from ._schedule import designators, processor_table

SCOPE = ("xsdata.codegen", "xsdata.formats.dataclass.generator", "xsdata.formats.dataclass.filters", "xsdata.formats.mixins", "xsdata.models.config", "xsdata.models.xsd",
         "xsdata.models.mixins", "xsdata.models.wsdl", "xsdata.models.dtd", "xsdata.utils.text", "xsdata.utils.package", "xsdata.utils.graphs", "xsdata.utils.collections")
F = "xsdata.formats.dataclass.filters:Filters"

property_info(
    "C07",
    explanation="Decides discipline and template clauses of 'always importable code': every explicit raise of the generator is its own error type and every assert "
    "is a tabled Optional-narrowing; every template expression in identifier position goes through a naming filter that ends in safe_name, every expression "
    "inside a Python string literal through an escaping filter; the reserved-word set covers the target interpreter's keywords; duplicate detection is keyed by "
    "the same slug / fallback name the naming filters later produce; renames rewrite every reference form.",
    decides="raise/assert discipline, template taint (identifier and string-literal contexts), keyword coverage, slug agreement between duplicate handling and naming",
    not_decided="termination and importability for every input; absence of name collisions after case conversion for all inputs",
)

# raises that are deliberately not CodegenError (frozen, one reason each)
RAISE_EXCEPTIONS = {
    ("ClassContainer.first", "KeyError"): "internal lookup of a qname taken from the container itself (used by designators only); not reachable with user input",
    ("DtdParser.parse", "ParserError"): "missing optional dependency (lxml), reported before any generation starts",
}
# Optional-narrowing asserts confirmed on the pinned tree: (function, normalised text)
NARROWING_ASSERTS = {
    ("AddAttributeSubstitutions.process_attribute", "assert self.substitutions is not None"): "initialised by the preceding `if self.substitutions is None: self.create_substitutions()`",
    ("CalculateAttributePaths.process_attr_path", "assert _v0.restrictions.max_occurs is not None"): "element attrs always carry occurrences (set by the mappers)",
    ("CalculateAttributePaths.process_attr_path", "assert _v0.restrictions.min_occurs is not None"): "element attrs always carry occurrences (set by the mappers)",
    ("CreateCompoundFields.group_fields", "assert _v0 is not None"): "min/max computed over a non-empty group",
    ("FlattenClassExtensions.merge_enumeration_types", "assert _v0 is not None"): "container.find after the extension was resolved by process_extension",
    ("ProcessAttributeTypes.process_native_type", "assert _v0 is not None"): "native AttrType always has a datatype",
    ("SanitizeAttributesDefaultValue.is_valid_enum_type", "assert _v0.default is not None"): "caller checks attr.default first",
    ("SanitizeAttributesDefaultValue.is_valid_native_value", "assert _v0.default is not None"): "caller checks attr.default first",
    ("UnnestInnerClasses.update_inner_class", "assert _v0.parent is not None"): "inner classes always have a parent",
    ("UpdateAttributesEffectiveChoice.reset_symmetrical_choices", "assert _v0.restrictions.sequence is not None"): "attrs were selected by their sequence",
    ("UpdateAttributesEffectiveChoice.reset_symmetrical_choices", "assert _v0.restrictions.max_occurs is not None"): "element attrs always carry occurrences",
    ("UpdateAttributesEffectiveChoice.merge_attrs", "assert _v0.restrictions.max_occurs is not None"): "element attrs always carry occurrences",
    ("UpdateAttributesEffectiveChoice.merge_attrs", "assert _v0.restrictions.min_occurs is not None"): "element attrs always carry occurrences",
    ("ValidateAttributesOverrides.validate_override", "assert _v0.parent is not None"): "attrs of processed classes have a parent",
    ("DefinitionsMapper.map_binding_operation", "assert _v0.location is not None"): "definitions parsed from a location",
    ("DefinitionsMapper.build_envelope_class", "assert _v0.qname is not None"): "set two lines above",
    ("DefinitionsMapper.build_envelope_class", "assert _v0.location is not None"): "definitions parsed from a location",
    ("DefinitionsMapper.build_message_class", "assert _v0.location is not None"): "definitions parsed from a location",
    ("ElementMapper.map", "assert _v0.qname is not None"): "TreeParser always names the root element",
    ("ElementMapper.build_class", "assert _v0.qname is not None"): "named generic elements only",
    ("SchemaMapper.map", "assert _v0.location is not None"): "schemas parsed from a location",
    ("RelativeHandlerInterface.base_attrs", "assert _v0 is not None"): "extensions were validated by ValidateReferences / flattened before",
    ("ClassUtils.rename_attribute_by_preference", "assert _v0.namespace is not None"): "guarded by `a.namespace or b.namespace`",
    ("Filters.field_default_enum", "assert _v0.default is not None"): "caller checks attr.default.startswith('@enum@')",
    ("Filters.field_default_tokens", "assert isinstance(_v0.default, str)"): "caller checks isinstance(attr.default, str)",
    ("validate_max_occurs", "assert isinstance(_v0, int)"): "value was just converted",
}


@rule("C07.R1")
def codegen_error_family(ctx: Ctx) -> None:
    """Every explicit raise in the generator raises CodegenError; every assert is a tabled Optional-narrowing."""
    nr = na = 0
    for f in ctx.repo.funcs_in(*SCOPE):
        fq = f.qual.split(":")[1]
        for n in walk_no_nested(f.node):
            if isinstance(n, ast.Raise):
                nr += 1
                if n.exc is None:
                    ctx.ob(f"{fq}: bare re-raise", True, at=f, node=n)
                    continue
                name = unparse(n.exc.func if isinstance(n.exc, ast.Call) else n.exc).split(".")[-1]
                ok = name == "CodegenError" or (fq, name) in RAISE_EXCEPTIONS
                ctx.ob(f"{fq}: raises {name}", ok, at=f, node=n, msg=f"{name} is not the generator's own error type (CodegenError): unsupported input is reported as an arbitrary exception")
            elif isinstance(n, ast.Assert):
                na += 1
                # confirmed per function (one reason each); inside a confirmed function the assert must be a pure type narrowing
                # (`x is not None` / isinstance(x, T)) - how its operand is spelled (alias, attribute chain) does not matter
                ok_fn = fq in {k[0] for k in NARROWING_ASSERTS}
                ctx.ob(f"{fq}: {unparse(n)[:60]} is a tabled Optional-narrowing", ok_fn and _pure_narrowing(n.test), at=f, node=n, construct=f"narrowing assert in {fq}",
                       msg="assert on generator input: an AssertionError (or nothing, under -O) instead of a CodegenError")
    ctx.floor("explicit raises in the generator", nr, 18)
    ctx.floor("asserts in the generator", na, 24)


def _pure_narrowing(t: ast.expr) -> bool:
    if isinstance(t, ast.BoolOp):
        return all(_pure_narrowing(v) for v in t.values)
    if isinstance(t, ast.Compare) and len(t.ops) == 1 and isinstance(t.ops[0], ast.IsNot) and isinstance(t.comparators[0], ast.Constant) and t.comparators[0].value is None:
        return True
    return isinstance(t, ast.Call) and isinstance(t.func, ast.Name) and t.func.id == "isinstance"


IDENT_FILTERS = {"class_name", "field_name", "constant_name", "import_class", "import_module", "type_name"}
STRING_SAFE_FILTERS = {"format_string", "clean_docstring", "field_default", "constant_value"}


@rule("C07.R2")
def string_literal_contexts_escaped(ctx: Ctx) -> None:
    """Template expressions inside a Python string literal end in an escaping filter."""
    n = 0
    for name, src in template_files(ctx.repo):
        if name.startswith("docstrings."):
            continue
        for out in outputs(src):
            if out.context != "string":
                continue
            n += 1
            ok = bool(out.filters) and out.filters[-1] in STRING_SAFE_FILTERS | IDENT_FILTERS
            ctx.ob(f"{name}: \"{{{{ {out.expr} }}}}\" inside a string literal is escaped", ok, at=ctx.repo.module("xsdata.formats.dataclass.filters"), construct=f"{name}:{out.expr}",
                   msg="the value is written between double quotes without escaping: a name or namespace containing \" or \\ breaks the generated module")
    ctx.floor("template expressions in string-literal context", n, 4)


@rule("C07.R3")
def identifier_contexts_sanitised(ctx: Ctx) -> None:
    """Template expressions in identifier position pass a naming filter, and every naming filter reaches safe_name."""
    n = 0
    for name, src in template_files(ctx.repo):
        if name.startswith("docstrings."):
            continue
        for out in outputs(src):
            if out.context != "identifier":
                continue
            n += 1
            ok = any(f in IDENT_FILTERS for f in out.filters) or out.expr in ("class_name",)
            ctx.ob(f"{name}: {{{{ {out.expr}{''.join('|' + f for f in out.filters)} }}}} in identifier position is sanitised", ok, at=ctx.repo.module("xsdata.formats.dataclass.filters"), construct=f"{name}:{out.expr}",
                   msg="a schema name is written as a Python identifier without passing class_name / field_name / constant_name")
    ctx.floor("template expressions in identifier position", n, 8)
    fcls = ctx.repo.cls(F)
    for fname in ("class_name", "field_name", "constant_name", "module_name", "package_name"):
        m = fcls.methods[fname]
        direct = any(isinstance(c, ast.Call) and unparse(c.func) == "self.safe_name" for c in ast.walk(m.node))
        ctx.ob(f"Filters.{fname} goes through safe_name", direct, at=m, construct=f"{fname} -> safe_name", msg="naming filter bypasses the reserved-word / leading-digit handling")
    sn = fcls.methods["safe_name"]
    gs = build_cfg(sn.node)
    recs = [r for r in gs.returns() if isinstance(r.ast.value, ast.Call) and unparse(r.ast.value.func) == "self.safe_name"]
    deps = {r.id: control_deps(sn, r) for r in recs}
    empty = [r for r in recs if any(isinstance(t.ast, ast.Name) and t.ast.id == "name" and not pol for _x, pol, t in deps[r.id])]
    ctx.ob("safe_name: empty names fall back to the prefix", bool(empty), at=sn, construct="empty name", msg="empty identifier")
    digit = [r for r in recs if any(("text.alnum(_)" in txt and ".isalpha()" in txt and not pol) or (txt == "text.alnum(_)" and not pol) for txt, pol, _t in [*deps[r.id], *entry_conditions(sn, r)])]
    ctx.ob("safe_name: names whose alnum slug is empty or does not start with a letter get the prefix", bool(digit), at=sn, construct="leading digit",
           msg="identifiers starting with a digit / punctuation")
    reserved = [r for r in recs if any(txt == "text.is_reserved(_(_,**_))" and pol for txt, pol, _t in deps[r.id])]  # name_case (a parameter) applied to the name
    plain = [leaf for r in gs.returns() if r not in recs for leaf, _ in flows(sn, r, r.ast.value)]
    ok = bool(reserved) and bool(plain) and all(isinstance(v, ast.Call) and unparse(v.func) == "name_case" for v in plain)
    ctx.ob("safe_name: the case-converted result (what is returned) is the value checked against the reserved words", ok, at=sn, construct="reserved check",
           msg="the reserved-word test looks at another value than the identifier that is returned (e.g. 'Class' -> class_case 'class' is not caught)")
    tm = ctx.repo.module("xsdata.utils.text")
    isr = tm.globals.get("is_reserved")
    ctx.ob("text.is_reserved is membership in stop_words", isr is not None and unparse(isr) == "stop_words.__contains__", at=tm, node=isr, construct="is_reserved", msg="reserved test changed")
    reg = fcls.methods["register"]
    regd = {}
    for c in calls_in(reg.node):
        if unparse(c.func) == "env.filters.update" and c.args and isinstance(c.args[0], ast.Dict):
            regd = {k.value: unparse(v) for k, v in zip(c.args[0].keys, c.args[0].values) if isinstance(k, ast.Constant)}
    for f in sorted(IDENT_FILTERS | {"format_string", "clean_docstring"}):
        ctx.ob(f"template filter `{f}` is registered as Filters.{f}", regd.get(f) == f"self.{f}", at=reg, construct=f"filter {f}", msg=f"registered as {regd.get(f)}")


@rule("C07.R4")
def keyword_coverage(ctx: Ctx) -> None:
    """text.stop_words covers every keyword of the target interpreter."""
    tm = ctx.repo.module("xsdata.utils.text")
    sw = tm.globals.get("stop_words")
    if not isinstance(sw, ast.Set):
        raise AnalysisError("C07.R4: text.stop_words is not a set literal")
    words = {e.value for e in sw.elts if isinstance(e, ast.Constant)}
    ctx.trust(f"keyword.kwlist of the interpreter running the checker ({len(keyword.kwlist)} keywords)")
    for kw in keyword.kwlist:
        ctx.ob(f"keyword `{kw}` is reserved", kw in words, at=tm, node=sw, construct=f"keyword {kw}", msg=f"a field, class or module named `{kw}` is generated verbatim: SyntaxError when the generated module is imported")
    for w in ("Any", "Decimal", "Enum", "Meta", "Optional", "QName", "Union", "field", "dict", "list", "type", "str", "int", "float", "bool", "object", "self"):
        ctx.ob(f"`{w}` (a name the generated modules themselves use) is reserved", w in words, at=tm, node=sw, construct=f"builtin {w}", msg="a generated name would shadow a name the module's own code needs")


@rule("C07.R5")
def duplicate_handling_keyed_like_naming(ctx: Ctx) -> None:
    """Duplicate fields / classes are grouped by the slug (or fallback name) the naming filters later produce; renames rewrite every reference form."""
    rd = ctx.repo.func("xsdata.codegen.utils:ClassUtils.rename_duplicate_attributes")
    gb = [c for c in calls_in(rd.node) if unparse(c.func) == "collections.group_by"]
    key = kwarg(gb[0], "key") if gb else None
    kl = callable_leaves(ctx.repo, rd, key)
    ok = kl is not None and {t for t, _ in kl} == {"_.slug", "DEFAULT_ATTR_NAME"}
    ctx.ob("duplicate attrs are grouped by slug with the empty slug mapped to DEFAULT_ATTR_NAME (the name safe_name gives an empty name)", ok, at=rd, node=gb[0] if gb else None, construct="attr grouping key",
           msg="an attr with an empty slug (e.g. enumeration value \"\") is later named `value` but is not grouped with a sibling really called `value`: two members get the same name")
    cm = ctx.repo.module("xsdata.utils.constants")
    dv = cm.globals.get("DEFAULT_ATTR_NAME")
    cfgm = ctx.repo.cls("xsdata.models.config:NameConvention")
    ctx.ob("DEFAULT_ATTR_NAME is 'value', the default safe_prefix of field names", isinstance(dv, ast.Constant) and dv.value == "value" and "value" in unparse(ctx.repo.cls("xsdata.models.config:GeneratorConventions").node),
           at=cm, node=dv, construct="fallback name", msg="fallback name and safe prefix differ")
    sl = ctx.repo.cls("xsdata.codegen.models:Attr").methods.get("slug")
    ctx.ob("Attr.slug = text.alnum(name)", sl is not None and [unparse(v) for v in return_values(sl.node)] == ["text.alnum(self.name)"], at=sl or rd, construct="attr slug", msg="slug computed differently from safe_name's slug")
    rc = ctx.repo.func("xsdata.codegen.handlers.rename_duplicate_classes:RenameDuplicateClasses.run")
    gb = [c for c in calls_in(rc.node) if call_name_of(c) == "group_by" and len(c.args) == 2]
    def _key_is_slug(k: ast.expr) -> bool:
        """The grouping key - a lambda, a nested def, a module function or a method reference - returns text.alnum(...) on every path."""
        kl = callable_leaves(ctx.repo, rc, k)
        return bool(kl) and all(re.fullmatch(r"(text\.)?alnum\(.*\)", t) for t, _ in kl)

    ok = bool(gb) and all(_key_is_slug(c.args[1]) for c in gb)
    ctx.ob("duplicate classes are grouped by text.alnum(name | qname)", ok, at=rc, construct="class grouping key", msg="class grouping key changed")
    nq = ctx.repo.func("xsdata.codegen.handlers.rename_duplicate_classes:RenameDuplicateClasses.next_qname")
    gq = build_cfg(nq.node)
    rsv = names_from_calls(nq.node, ("get_reserved",)) | {"reserved"}
    memb = [t for t in gq.nodes if t.kind == "test" and isinstance(t.ast, ast.Compare) and len(t.ast.ops) == 1 and isinstance(t.ast.ops[0], (ast.In, ast.NotIn)) and unparse(t.ast.comparators[0]) in rsv]
    slugged = bool(memb) and all(_is_slug(nq, t, t.ast.left) for t in memb)
    adds = [n for n in gq.stmts() if any(isinstance(c.func, ast.Attribute) and c.func.attr == "add" and unparse(c.func.value) in rsv for c in node_calls(n))]
    rets = [r for r in gq.returns() if r.ast.value is not None]
    ok = slugged and bool(adds) and bool(rets) and all(any(gq.only_if(r.id, t.id, isinstance(t.ast.ops[0], ast.NotIn)) for t in memb) and gq.must_pass(gq.entry, r.id, [a_.id for a_ in adds]) for r in rets)
    ctx.ob("next_qname searches for a slug that is not reserved and reserves it before returning", ok, at=nq, construct="free name search", msg="suffix search can return a taken name")
    ur = ctx.repo.func("xsdata.codegen.handlers.rename_duplicate_classes:RenameDuplicateClasses.update_references")
    g = build_cfg(ur.node)
    set_q = [g.node_of(st) for st, tgt, v in stores(ur.node) if unparse(tgt).endswith(".qname")]
    set_d = [g.node_of(st) for st, tgt, v in stores(ur.node) if unparse(tgt).endswith(".default")]
    ok = len(set_q) == 1 and len(set_d) == 1 and g.must_pass(g.entry, set_d[0].id, [set_q[0].id])
    dv = [(st, v) for st, tgt, v in stores(ur.node) if unparse(tgt).endswith(".default") and v is not None]

    # what is stored as the type's new qname (the same value may be used for the default directly)
    new_qname_texts = {t for st_, tgt_, v_ in stores(ur.node) if unparse(tgt_).endswith(".qname") and v_ is not None for t in value_texts(ur, st_, v_)} - {"None"}

    def _mentions_new_qname(st, v) -> bool:
        # the new default is a string built from the (already rewritten) type qname: some hole of the template flows from `<type>.qname`
        for leaf in leaves_at(ur, st, v):
            t = str_template(leaf)
            for kind, hole in t or []:
                if kind == "hole" and (any(x.endswith(".qname") for x in value_texts(ur, st, hole)) or (value_texts(ur, st, hole) & new_qname_texts)):
                    return True
        return False

    ok = ok and bool(dv) and _mentions_new_qname(*dv[0])
    ctx.ob("update_references rewrites the type's qname first and then the '@enum@<qname>::member' default with the NEW qname", ok, at=ur, construct="enum default follows rename",
           msg="the enum default keeps the old qname: Filters.field_default_enum finds no matching type and raises StopIteration")
    cont, names = designators(ctx)
    if names is not None:
        ctx.ob("designators run MergeDuplicateClasses, RenameDuplicateClasses, ValidateReferences, DesignateClassPackages in this order", names == ["MergeDuplicateClasses", "RenameDuplicateClasses", "ValidateReferences", "DesignateClassPackages"], at=cont,
               construct="designator order", msg=f"order {names}")
    else:
        ctx.abstain("designator run order", at=cont, why="designate_classes has no straight-line `<Handler>(self).run()` sequence")
    init, table = processor_table(ctx)
    if table is not None:
        pos = {n: (k_, i_) for i_, (k_, n) in enumerate(table)}
        ra = pos.get("RenameDuplicateAttributes")
        adders = [n for k_, n in table if k_ in ("Steps.UNGROUP", "Steps.FLATTEN")]
        ctx.ob("RenameDuplicateAttributes runs in SANITIZE, after every FLATTEN handler that can add attrs", ra is not None and ra[0] == "Steps.SANITIZE" and all(pos[a][1] < ra[1] for a in adders), at=init,
               construct="rename attrs schedule", msg=f"schedule changed: RenameDuplicateAttributes at {ra}")


def _is_slug(fi: FuncInfo, where, e: ast.expr) -> bool:
    """Every value that can flow into ``e`` is an alnum slug: text.alnum(...) / get_slug(...)."""
    leaves = leaves_at(fi, where, e)
    return bool(leaves) and all(isinstance(x, ast.Call) and call_name_of(x) in ("alnum", "get_slug") for x in leaves)


@rule("C07.R6")
def free_name_searches_compare_slugs(ctx: Ctx) -> None:
    """Every 'is this name taken?' search compares alnum slugs (what survives the naming conventions), and options applied late are re-validated."""
    def slug_only_membership(fi: FuncInfo, coll_pred) -> tuple[bool, int]:
        """Every `x in <reserved collection>` test of the function compares an alnum slug (text.alnum(...) / get_slug(...)), in one of its expansion forms."""
        g = build_cfg(fi.node)
        n = 0
        ok = True
        seen_ids = set()
        for t in g.nodes:
            if t.kind == "test" and isinstance(t.ast, ast.Compare) and len(t.ast.ops) == 1 and isinstance(t.ast.ops[0], (ast.In, ast.NotIn)) and coll_pred(t.ast.comparators[0]):
                n += 1
                seen_ids.add(id(t.ast))
                ok = ok and _is_slug(fi, t, t.ast.left)
        # membership tests written as filters of comprehensions / generator expressions (`next(c for c in candidates if slug(c) not in reserved)`)
        from ..q import atomic_conditions
        for c in atomic_conditions(fi.node):
            if id(c) not in seen_ids and isinstance(c, ast.Compare) and len(c.ops) == 1 and isinstance(c.ops[0], (ast.In, ast.NotIn)) and coll_pred(c.comparators[0]):
                n += 1
                ok = ok and isinstance(c.left, ast.Call) and call_name_of(c.left) in ("alnum", "get_slug")
        return ok and n > 0, n

    na = ctx.repo.func("xsdata.codegen.handlers.disambiguate_choices:DisambiguateChoices.next_available_name")
    reserved_locals = {tgt.id for st, tgt, v in stores(na.node) if isinstance(tgt, ast.Name) and isinstance(v, (ast.SetComp, ast.Set)) or (isinstance(tgt, ast.Name) and isinstance(v, ast.Call) and unparse(v.func) == "set")}
    built = [v for st, tgt, v in stores(na.node) if isinstance(tgt, ast.Name) and tgt.id in reserved_locals and v is not None]
    adds = [c for c in calls_in(na.node) if isinstance(c.func, ast.Attribute) and c.func.attr in ("add", "update") and isinstance(c.func.value, ast.Name) and c.func.value.id in reserved_locals]
    adds_ok = all(len(c.args) == 1 and any((isinstance(x, ast.Attribute) and x.attr == "alnum") or (isinstance(x, ast.Name) and x.id == "get_slug") for x in ast.walk(c.args[0])) for c in adds)

    def _slug_set(v: ast.expr) -> bool:
        if isinstance(v, ast.SetComp):
            return isinstance(v.elt, ast.Call) and call_name_of(v.elt) == "alnum"
        if isinstance(v, ast.Call) and unparse(v.func) == "set" and not v.args:
            return bool(adds)  # an empty set filled through .add(<slug>)
        return isinstance(v, ast.Call) and any(isinstance(x, ast.Name) and x.id in ("get_slug",) or (isinstance(x, ast.Attribute) and x.attr == "alnum") for x in ast.walk(v))

    built_ok = bool(built) and all(_slug_set(v) for v in built) and adds_ok
    ok, _ = slug_only_membership(na, lambda c: isinstance(c, ast.Name) and c.id in reserved_locals)
    ctx.ob("DisambiguateChoices.next_available_name reserves and compares text.alnum slugs of the inner class names", ok and built_ok, at=na, construct="inner name search",
           msg="raw names are compared: `item` and `Item` are both free, both become class Item and the second shadows the first")
    un = ctx.repo.func("xsdata.codegen.utils:ClassUtils.unique_name")
    ok, n = slug_only_membership(un, lambda c: isinstance(c, ast.Name) and c.id == "reserved")
    ctx.ob("ClassUtils.unique_name compares text.alnum slugs against the reserved set", ok, at=un, construct="unique_name", msg="raw names compared")
    ri = ctx.repo.func("xsdata.codegen.utils:ClassUtils.rename_attributes_by_index")
    rsv = [v for st, tgt, v in stores(ri.node) if isinstance(tgt, ast.Name) and v is not None and isinstance(v, (ast.Call, ast.SetComp)) and (isinstance(v, ast.SetComp) or unparse(v.func) == "set")]
    ok = bool(rsv) and all(any((isinstance(x, ast.Name) and x.id == "get_slug") or (isinstance(x, ast.Attribute) and x.attr in ("alnum", "slug")) for x in ast.walk(v)) for v in rsv)
    ctx.ob("rename_attributes_by_index reserves the slugs of all attrs", ok, at=ri, construct="reserved slugs", msg="reserved set not slug based")
    up = ctx.repo.func("xsdata.models.config:GeneratorOutput.update")
    g = build_cfg(up.node)
    upd = [n for n in g.stmts() if any(unparse(c.func) == "objects.update" for c in node_calls(n))]
    val = [n for n in g.stmts() if any(func_text(up, c) == "self.format.validate" or (isinstance(c.func, ast.Attribute) and c.func.attr == "validate" and "self.format" in value_texts(up, n, c.func.value))
                                       for c in node_calls(n))]
    ok = len(upd) == 1 and bool(val) and g.must_pass(upd[0].id, g.exit, [v.id for v in val], normal_only=True)
    ctx.ob("GeneratorOutput.update re-validates the output format after applying late options (order implies eq)", ok, at=up, construct="late options validated",
           msg="options applied through update() (the CLI route) skip OutputFormat.validate: @dataclass(eq=False, order=True) is generated and the module fails to import")
    of = ctx.repo.cls("xsdata.models.config:OutputFormat")
    pi = of.methods.get("__post_init__")
    ctx.ob("OutputFormat.__post_init__ validates", pi is not None and "self.validate()" in unparse(pi.node), at=pi or up, construct="format post_init", msg="constructor route not validated")
    v = of.methods.get("validate")
    ok = False
    if v is not None:
        sets = [st for st, tgt, val in stores(v.node) if is_self_attr(tgt, "eq") and isinstance(val, ast.Constant) and val.value is True]
        ok = len(sets) == 1 and any(t == "self.order" and pol for t, pol, _ in control_deps(v, sets[0]))
    ctx.ob("OutputFormat.validate enables eq when order is set", ok, at=v or up, construct="order implies eq", msg="conflict rule changed")


@rule("C07.R7")
def enum_defaults_use_the_imported_name(ctx: Ctx) -> None:
    """Filters.field_default_enum names the enumeration class the way the module imports it: the import alias of the matching type is
    consulted (an aliased import `from b import Color as BColor` must give `default=BColor.RED`)."""
    from ..q import family

    fd = ctx.repo.func("xsdata.formats.dataclass.filters:Filters.field_default_enum")
    reads = [x for f_ in family(ctx.repo, fd) for x in walk_no_nested(f_.node) if isinstance(x, ast.Attribute) and x.attr == "alias" and isinstance(x.ctx, ast.Load)]
    ctx.ob("field_default_enum consults the import alias of the enumeration type", bool(reads), at=fd, construct="enum default alias",
           msg="the default names the class by its own name although the module imports it under an alias: NameError / AttributeError when the generated module is imported")


@rule("C07.R8")
def reserved_names_and_candidates_are_keyed_alike(ctx: Ctx) -> None:
    """RenameDuplicateClasses: the set of taken slugs (get_reserved) and the candidate that is tested against it (next_qname) are computed
    from the same thing - the local name in "use names" mode, the qualified name otherwise: both consult self.use_names, or neither does.
    DependenciesResolver: the per-module alias table is rebuilt - not only extended - for every process() call."""
    from ..q import family

    cq = "xsdata.codegen.handlers.rename_duplicate_classes:RenameDuplicateClasses"
    gr, nq = ctx.repo.func(f"{cq}.get_reserved"), ctx.repo.func(f"{cq}.next_qname")

    def mode_reads(f: FuncInfo) -> bool:
        return any(isinstance(x, ast.Attribute) and x.attr == "use_names" and isinstance(x.ctx, ast.Load) for f_ in family(ctx.repo, f) for x in walk_no_nested(f_.node))

    a, b = mode_reads(gr), mode_reads(nq)
    ctx.ob("get_reserved and next_qname key the taken names alike (both depend on self.use_names, or neither)", a == b, at=gr, construct="reserved key mode",
           msg=f"get_reserved {'consults' if a else 'ignores'} self.use_names while next_qname {'consults' if b else 'ignores'} it: in one of the two modes a candidate is compared with keys of another kind "
               "and a taken name is handed out again (two classes of a module end up with the same name)")
    rs = ctx.repo.cls("xsdata.codegen.resolver:DependenciesResolver")
    pr = rs.methods.get("process")
    fills = []   # (method, statement) that add entries to self.aliases in place
    resets = []  # (method, statement) that rebind or clear it
    for m in rs.methods.values():
        if m.name in ("__init__",):
            continue
        for st, tgt, v in stores(m.node):
            if isinstance(tgt, ast.Subscript) and is_self_attr(tgt.value, "aliases"):
                fills.append((m, st))
            elif is_self_attr(tgt, "aliases"):
                resets.append((m, st))
        for c in calls_in(m.node):
            if isinstance(c.func, ast.Attribute) and is_self_attr(c.func.value, "aliases"):
                if c.func.attr in ("update", "setdefault"):
                    fills.append((m, c))
                elif c.func.attr == "clear":
                    resets.append((m, c))
    if pr is None or not (fills or resets):
        ctx.abstain("alias table of DependenciesResolver", at=pr or next(iter(rs.methods.values())), why="self.aliases is not written in a recognisable way")
        return
    ok = bool(resets)
    for m, st in fills:
        g = build_cfg(m.node)
        n = g.node_of(st)
        own = [g.node_of(r) for mm, r in resets if mm is m]
        dominated = n is not None and bool(own) and g.must_pass(g.entry, n.id, [x.id for x in own if x is not None])
        if not dominated:
            # the reset may be in process() itself, before it calls the filling method
            gp = build_cfg(pr.node)
            pres = [gp.node_of(r) for mm, r in resets if mm is pr]
            callers = [gp.node_of(c) for c in calls_in(pr.node) if isinstance(c.func, ast.Attribute) and c.func.attr == m.name and unparse(c.func.value) == "self"]
            dominated = bool(pres) and bool(callers) and all(cn is not None and gp.must_pass(gp.entry, cn.id, [x.id for x in pres if x is not None]) for cn in callers)
        ok = ok and dominated
    ctx.ob("DependenciesResolver rebuilds self.aliases for every process() call (entries of the previous module do not survive)", ok, at=pr, construct="alias table reset",
           msg="aliases are only added: an alias chosen for one module is applied to the types of the next module, which imports the class under its own name (NameError when the generated module is imported)")


@rule("C07.R9")
def taken_names_are_refreshed_after_each_rename(ctx: Ctx) -> None:
    """ClassUtils.rename_attributes_by_index gives every further duplicate a name that is free *now*: the set of taken slugs handed to
    unique_name() is recomputed after each rename (or extended with the new name) - a set computed once lets the third duplicate
    take the suffix the second one just got (`id`, `ID_1`, `Id_1` -> two fields `id_1`)."""
    from ..q import _def_nodes

    fi = ctx.repo.func("xsdata.codegen.utils:ClassUtils.rename_attributes_by_index")
    g = build_cfg(fi.node)
    calls = [(node_containing(g, c), c) for c in calls_in(fi.node) if call_name_of(c) == "unique_name"]
    calls = [(n, c) for n, c in calls if n is not None]
    renames = [g.node_of(st) for st, tgt, v in stores(fi.node) if isinstance(tgt, ast.Attribute) and tgt.attr == "name"]
    renames = [r for r in renames if r is not None]
    if not calls or not renames:
        ctx.abstain("rename loop of rename_attributes_by_index", at=fi, why="no unique_name() call / no store to `.name` found")
        return
    for n, c in calls:
        arg = c.args[1] if len(c.args) > 1 else kwarg(c, "reserved")
        if not isinstance(arg, ast.Name):
            ctx.abstain("taken-names argument of unique_name", at=fi, why="the reserved set is not passed as a plain local")
            continue
        defs = set(_def_nodes(g).get(arg.id, {}))
        # in-place growth of the set counts as a refresh as well
        defs |= {m.id for m in g.stmts() if any(isinstance(x.func, ast.Attribute) and x.func.attr in ("add", "update") and isinstance(x.func.value, ast.Name) and x.func.value.id == arg.id for x in node_calls(m))}
        stale = [r for r in renames if n.id in g.reachable([m for m, lab in g.succ[r.id] if lab != "exc"], blocked=defs, labels=lambda lab: lab != "exc")]
        ctx.ob("rename_attributes_by_index: the set of taken names is recomputed (or grown) between one rename and the next unique_name() call", not stale, at=fi, node=c, construct="taken names refreshed",
               msg=f"`{arg.id}` is computed before the loop and never refreshed: the name given to one duplicate is not reserved when the next one is renamed - three fields that collide (id / ID / Id) end up as id, id_1, id_1")


@rule("C07.R10")
def alias_stamping_visits_every_type_holder(ctx: Ctx) -> None:
    """The imports of a module are collected from `Class.types_with_parents()` (extensions, attr types, choice types, inner classes);
    `DependenciesResolver.apply_aliases` stamps the import alias on the types that are rendered.  The two traversals must visit the same
    holders: a holder the import collector sees and the alias pass skips is rendered with the bare name while the module imports it
    `as <alias>` - the name then binds to the wrong class or to nothing."""
    from ..q import family as _family

    ref = ctx.repo.func("xsdata.codegen.models:Class.types_with_parents")
    ap = ctx.repo.func("xsdata.codegen.resolver:DependenciesResolver.apply_aliases")
    model_fields: set[str] = set()
    for cname in ("Class", "Attr", "Extension"):
        ci = ctx.repo.classes.get(f"xsdata.codegen.models:{cname}")
        if ci is not None:
            model_fields |= set(ci.ann)

    def visited(fis) -> set[str]:
        return {x.attr for f in fis for x in walk_no_nested(f.node) if isinstance(x, ast.Attribute) and isinstance(x.ctx, ast.Load) and x.attr in model_fields}

    want = visited([ref]) - {"qname", "name"}
    fam = _family(ctx.repo, ap)
    if any(call_name_of(c) in ("types", "types_with_parents") for f in fam for c in calls_in(f.node)):
        ctx.ob("apply_aliases walks the class through the import collector's own traversal", True, at=ap, construct="alias traversal shared")
        return
    if len(want) < 3:
        ctx.abstain("holders visited by Class.types_with_parents", at=ref, why=f"only {sorted(want)} recognised")
        return
    got = visited(fam)
    missing = sorted(want - got)
    ctx.note("C07.R10 type holders", sorted(want))
    ctx.ob(f"apply_aliases visits every holder of types the import collector visits ({', '.join(sorted(want))})", not missing, at=ap, construct="alias traversal complete",
           msg=f"never reads {missing}: types held there are imported `as <alias>` when two modules export the same class name, but rendered with the bare name (NameError or the wrong class at import)")
