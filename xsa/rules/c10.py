"""C10 - strictness options do what they say."""

from __future__ import annotations

import ast

from ..cfg import build_cfg, calls_in, node_calls
from ..core import Ctx, property_info, rule
from ..model import AnalysisError, FuncInfo, walk_no_nested
from ..q import A, MUTATORS, flows, family, expand, reach_table, cmp_atom, value_texts, passes, node_containing, leaves_at, func_text, asrc, call_name_of, control_deps, none_cond, raw_forms, return_values, is_self_attr, kwarg, root_name, stores, unparse

PAR = "xsdata.formats.dataclass.parsers"

property_info(
    "C10",
    explanation="Decides that each fail_on_* option governs exactly the failure it names: the ParserError is control-dependent on the flag being "
    "true and the false branch continues to the tolerant behaviour (skip node / continue / warning); xsi attributes are exempt; skip nodes bind "
    "nothing and mutate nothing; on a conversion error the value is returned as given; every flag is read and the 'try candidates' sites force "
    "strict conversion.",
    decides="control dependence (with polarity) of every strictness failure on its flag, effect-freedom of SkipNode, def-use of the unconverted value",
    not_decided="that an arbitrary skipped subtree leaves the object equal for all documents (value-level)",
)


def _flag_tests(g, flag: str):
    """Atomic tests on <...>config.<flag> - read directly or through an alias temporary (`strict = self.config.fail_on_...`)."""
    from ..model import FuncInfo
    from ..q import polar_forms

    pfi = FuncInfo(qual="", module=None, cls=None, node=g.fn, name="")  # type: ignore[arg-type]
    return [t for t in g.nodes if t.kind == "test" and t.ast is not None and any(same and f.endswith(f"config.{flag}") for f, same in polar_forms(pfi, t, t.ast, anon=False))]


def _msg(fi, r) -> str:
    """Literal text of the message a raise statement builds (f-string / format / % / + templates, through temporaries)."""
    from ..q import str_template, template_text

    exc = r.ast.exc
    out = [unparse(exc)]
    if isinstance(exc, ast.Call):
        for a in exc.args:
            for leaf in leaves_at(fi, r, a):
                t = str_template(leaf)
                out.append(template_text(t) if t is not None else unparse(leaf))
    return " ".join(out)


def _raises(g, exc: str = "ParserError"):
    return [n for n in g.stmts() if isinstance(n.ast, ast.Raise) and n.kind == "stmt" and n.ast.exc is not None and exc in unparse(n.ast.exc)]


@rule("C10.R1")
def flag_governed_failure(ctx: Ctx) -> None:
    """Each strictness ParserError is control-dependent on its flag being true; the false branch continues to the tolerant behaviour."""
    # (1) unknown child element
    fi = ctx.repo.func(f"{PAR}.nodes.element:ElementNode.child")
    g = build_cfg(fi.node)
    tests = _flag_tests(g, "fail_on_unknown_properties")
    raises = [r for r in _raises(g) if "Unknown property" in _msg(fi, r)]
    ok = len(tests) == 1 and len(raises) == 1 and g.only_if(raises[0].id, tests[0].id, True)
    ctx.ob("ElementNode.child: 'Unknown property' raised only if fail_on_unknown_properties", ok, at=fi, construct="unknown property raise", msg="raise not governed by the flag being true")
    # the statement that creates the SkipNode: returned directly, or stored in the local that is returned
    skips = [n for n in g.stmts() if n.kind == "stmt" and isinstance(n.ast, (ast.Return, ast.Assign, ast.AnnAssign)) and isinstance(n.ast.value, ast.Call) and unparse(n.ast.value.func).endswith("SkipNode")]
    ok2 = bool(tests) and bool(skips) and all(g.only_if(s.id, tests[0].id, False) for s in skips) and any(
        s.id in g.reachable([m for m, lab in g.succ[tests[0].id] if lab == "false"]) for s in skips)
    ctx.ob("ElementNode.child: with the flag off an unknown child yields SkipNode()", ok2, at=fi, construct="unknown property skip", msg="no SkipNode on the tolerant branch")
    # the raise / skip happens only after every matching var was tried (it is after the loop)
    loops = [n for n in g.nodes if n.kind == "for" and "find_children" in unparse(n.ast.iter)]
    ok3 = bool(loops) and bool(tests) and g.must_pass(g.entry, tests[0].id, [l.id for l in loops])
    ctx.ob("ElementNode.child: strictness is consulted only after all candidate fields were tried", ok3, at=fi, construct="after candidates", msg="known children could be rejected as unknown")
    # (2) unknown key in dict decoder
    fi = ctx.repo.func(f"{PAR}.dict:DictDecoder.bind_dataclass")
    g = build_cfg(fi.node)
    tests = _flag_tests(g, "fail_on_unknown_properties")
    raises = [r for r in _raises(g) if "Unknown property" in _msg(fi, r)]
    ok = len(tests) == 1 and len(raises) == 1 and g.only_if(raises[0].id, tests[0].id, True) and none_cond(control_deps(fi, raises[0]))
    ctx.ob("DictDecoder.bind_dataclass: 'Unknown property' raised only if the key matched no field and fail_on_unknown_properties", ok, at=fi, construct="unknown key raise", msg="raise not governed by the flag")
    binds = [n for n in g.stmts() if any(call_name_of(c) == "bind_value" for c in node_calls(n))]
    ok2 = bool(tests) and bool(binds) and all(none_cond(control_deps(fi, b), want_none=False) for b in binds) and not any(
        isinstance(g.nodes[m].ast, ast.Raise) for m, lab in g.succ[tests[0].id] if lab == "false")
    ctx.ob("DictDecoder.bind_dataclass: with the flag off an unknown key is skipped: binding happens only for keys that matched a field", ok2, at=fi, construct="unknown key skip", msg="unknown keys are bound or fail with the flag off")
    # (3) unknown attribute
    fi = ctx.repo.func(f"{PAR}.nodes.element:ElementNode.bind_attrs")
    g = build_cfg(fi.node)
    tests = _flag_tests(g, "fail_on_unknown_attributes")
    raises = [r for r in _raises(g) if "Unknown attribute" in _msg(fi, r)]
    ok = len(tests) == 1 and len(raises) == 1 and g.only_if(raises[0].id, tests[0].id, True)
    ctx.ob("ElementNode.bind_attrs: 'Unknown attribute' raised only if fail_on_unknown_attributes", ok, at=fi, construct="unknown attribute raise", msg="raise not governed by the flag")
    ok2 = bool(tests) and all(g.nodes[m].kind in ("for", "exit") or not isinstance(g.nodes[m].ast, ast.Raise) for m, lab in g.succ[tests[0].id] if lab == "false")
    ctx.ob("ElementNode.bind_attrs: with the flag off the unknown attribute is ignored", ok2, at=fi, construct="unknown attribute ignore", msg="tolerant branch fails")
    # the raise is reached only when neither a declared attribute nor an attributes map matched
    found = {tgt.id for _, tgt, v in stores(fi.node) if isinstance(tgt, ast.Name) and isinstance(v, ast.Call) and isinstance(v.func, ast.Attribute) and v.func.attr in ("find_attribute", "find_any_attributes")}
    fa = [t for t in g.nodes if t.kind == "test" and isinstance(t.ast, ast.Name) and t.ast.id in found]
    lookups = {name: [n.id for n in g.stmts() if any(isinstance(c.func, ast.Attribute) and c.func.attr == name for c in node_calls(n))] for name in ("find_attribute", "find_any_attributes")}
    ok = bool(raises) and any(g.only_if(raises[0].id, t.id, False) for t in fa) and all(ids and g.must_pass(g.entry, raises[0].id, ids) for ids in lookups.values())
    ctx.ob("ElementNode.bind_attrs: strictness is consulted only after the declared attributes and the attributes maps were looked up and none matched", ok, at=fi,
           construct="after lookups", msg="known attributes could be rejected")
    # (4) converter errors
    fi = ctx.repo.func(f"{PAR}.utils:ParserUtils.parse_var")
    g = build_cfg(fi.node)
    tests = _flag_tests(g, "fail_on_converter_warnings")
    raises = _raises(g)
    handlers = [n for n in g.nodes if n.kind == "except" and "ConverterError" in unparse(n.ast.type)]
    ok = len(tests) == 1 and len(raises) == 1 and len(handlers) == 1 and g.only_if(raises[0].id, tests[0].id, True) and g.must_pass(g.entry, raises[0].id, [handlers[0].id])
    ctx.ob("parse_var: ParserError only inside the ConverterError handler and only if fail_on_converter_warnings", ok, at=fi, construct="converter raise", msg="raise not governed by the flag")
    warns = [n for n in g.stmts() if any(unparse(c.func) == "warnings.warn" and len(c.args) == 2 and unparse(c.args[1]) == "ConverterWarning" for c in node_calls(n))]
    ok2 = bool(tests) and len(warns) == 1 and g.only_if(warns[0].id, tests[0].id, False) and g.must_pass(g.entry, warns[0].id, [h.id for h in handlers])
    ctx.ob("parse_var: with the flag off a ConverterWarning is issued instead", ok2, at=fi, construct="converter warn", msg="no ConverterWarning on the tolerant branch")


def asrc_expr(fi: FuncInfo, e: ast.AST) -> str:
    from ..model import anon_text

    return anon_text(e, fi.node)


@rule("C10.R2")
def xsi_exemption(ctx: Ctx) -> None:
    """The unknown-attribute failure is additionally control-dependent on the attribute not being in the XSI namespace."""
    fi = ctx.repo.func(f"{PAR}.nodes.element:ElementNode.bind_attrs")
    g = build_cfg(fi.node)
    raises = [r for r in _raises(g) if "Unknown attribute" in _msg(fi, r)]
    tests = [t for t in g.nodes if t.kind == "test" and isinstance(t.ast, ast.Compare) and len(t.ast.ops) == 1 and isinstance(t.ast.ops[0], (ast.NotEq, ast.Eq))
             and any("target_uri(" in f for f in raw_forms(fi, t, t.ast)) and "Namespace.XSI.uri" in unparse(t.ast)]
    ok = len(raises) == 1 and len(tests) >= 1 and any(g.only_if(raises[0].id, t.id, isinstance(t.ast.ops[0], ast.NotEq)) for t in tests)
    ctx.ob("bind_attrs: unknown-attribute failure requires target_uri(qname) != Namespace.XSI.uri", ok, at=fi, construct="xsi exemption", msg="xsi:* attributes fail under fail_on_unknown_attributes")
    if tests:
        arg = tests[0].ast.left.args[0] if isinstance(tests[0].ast.left, ast.Call) and tests[0].ast.left.args else None
        def _over_attrs(n) -> bool:
            it = n.ast.iter
            if any("self.attrs.items()" in t for t in value_texts(fi, n, it)):
                return True
            # `attrs = self.attrs or {}` ... `attrs.items()`
            return isinstance(it, ast.Call) and isinstance(it.func, ast.Attribute) and it.func.attr == "items" and "self.attrs" in {unparse(x) for x in leaves_at(fi, n, it.func.value)}

        loop = [n for n in g.nodes if n.kind == "for" and _over_attrs(n)]
        key = unparse(loop[0].ast.target.elts[0]) if loop and isinstance(loop[0].ast.target, ast.Tuple) else None
        ctx.ob("bind_attrs: the exemption tests the attribute's own qualified name", arg is not None and key is not None and key in value_texts(fi, tests[0], arg), at=fi, construct="xsi exemption subject", msg="exemption tests another name")


@rule("C10.R3")
def skip_nodes_bind_nothing(ctx: Ctx) -> None:
    """SkipNode.bind returns False and mutates nothing; SkipNode.child stays a skip node; NodeParser.end adds nothing for a skipped element."""
    sk = ctx.repo.cls(f"{PAR}.nodes.skip:SkipNode")
    b = sk.methods.get("bind")
    c = sk.methods.get("child")
    if b is None or c is None:
        raise AnalysisError("C10.R3: SkipNode.bind/child missing")
    rets = [r for r in walk_no_nested(b.node) if isinstance(r, ast.Return)]
    ctx.ob("SkipNode.bind returns False on every path", bool(rets) and all(isinstance(r.value, ast.Constant) and r.value.value is False for r in rets) and _all_paths_return(b), at=b,
           construct="skip bind result", msg="a skipped element reports a bound object")
    params = {a.arg for a in b.params if a.arg != "self"}
    muts = []
    for st, tgt, _ in stores(b.node):
        if root_name(tgt) in params and not isinstance(tgt, ast.Name):
            muts.append(unparse(tgt))
    for call in calls_in(b.node):
        if isinstance(call.func, ast.Attribute) and call.func.attr in MUTATORS and root_name(call.func.value) in params | {"self"}:
            muts.append(unparse(call))
        elif not (isinstance(call.func, ast.Name) and call.func.id in ("isinstance", "len")):
            muts.append(unparse(call))
    ctx.ob("SkipNode.bind mutates none of its arguments and calls nothing", not muts, at=b, construct="skip bind effects", msg=f"effects: {muts}")
    rets = [r for r in walk_no_nested(c.node) if isinstance(r, ast.Return)]
    ok = bool(rets) and all(unparse(r.value) in ("self", "SkipNode()") for r in rets)
    ctx.ob("SkipNode.child returns a skip node (the whole subtree is swallowed)", ok, at=c, construct="skip child", msg="a descendant of a skipped element is bound")
    end = ctx.repo.func(f"{PAR}.bases:NodeParser.end")
    rv = return_values(end.node)
    cl = calls_in(end.node)
    ok = bool(rv) and all(isinstance(v, ast.Call) and call_name_of(v) == "bind" and len(v.args) == 4 for v in rv) and any(unparse(c.func) == "queue.pop" for c in cl) \
        and not any(isinstance(c.func, ast.Attribute) and c.func.attr in MUTATORS and root_name(c.func.value) == "objects" for c in cl)
    ctx.ob("NodeParser.end only pops the node and returns its bind() result", ok, at=end, construct="end effects",
           msg="end() touches the objects list itself")
    # bind_objects of the parent: unassigned objects are logged, never raised
    bo = ctx.repo.func(f"{PAR}.nodes.element:ElementNode.bind_objects")
    ctx.ob("ElementNode.bind_objects: an object no field accepts is logged, not fatal", "logger.warning" in unparse(bo.node) and not any(isinstance(n, ast.Raise) for n in walk_no_nested(bo.node)), at=bo,
           construct="unassigned object", msg="unassigned objects raise")


def _all_paths_return(fi: FuncInfo) -> bool:
    g = build_cfg(fi.node)
    return all(isinstance(g.nodes[p].ast, ast.Return) for p, _ in g.pred[g.exit])


@rule("C10.R4")
def value_kept_as_given(ctx: Ctx) -> None:
    """On the ConverterError path parse_var returns its value argument unchanged."""
    fi = ctx.repo.func(f"{PAR}.utils:ParserUtils.parse_var")
    g = build_cfg(fi.node)
    hs = [n for n in g.nodes if n.kind == "except"]
    conv = [h for h in hs if h.ast is not None and h.ast.type is not None and unparse(h.ast.type) == "ConverterError"]
    ctx.ob("parse_var handles ConverterError (and nothing broader) around the conversion", len(hs) == 1 and len(conv) == 1, at=fi, construct="handler shape", msg="handler changed")
    after = g.reachable([h.id for h in conv]) if conv else set()
    rets_after = [r for r in g.returns() if r.id in after]
    ok = bool(rets_after) and all(isinstance(r.ast.value, ast.Name) and r.ast.value.id == "value" for r in rets_after)
    ctx.ob("on the ConverterError path parse_var returns the variable `value`", ok, at=fi, construct="returns value", msg="returns something else")
    # ... and `value` still is the argument there: it is never assigned between the handler and those returns, and elsewhere only by the
    # conversion inside the guarded body (whose assignment does not happen when the conversion raises)
    defs = [g.node_of(st) for st, tgt, v in stores(fi.node) if isinstance(tgt, ast.Name) and tgt.id == "value"]
    defs = [d for d in defs if d is not None]
    handler_ids = {h.id for h in conv}
    in_body = lambda d: any(m in handler_ids and lab == "exc" for m, lab in g.succ[d.id])  # noqa: E731
    ok = all(d.id not in after or in_body(d) for d in defs) and all(in_body(d) and isinstance(d.ast, (ast.Assign, ast.AnnAssign)) and isinstance(d.ast.value, ast.Call) and call_name_of(d.ast.value) == "parse_value" for d in defs)
    ctx.ob("`value` is only ever assigned by the conversion inside the guarded body (so the except path keeps the argument)", ok, at=fi, construct="single assignment",
           msg="`value` is reassigned outside the guarded conversion: the unconverted text is not what is kept on failure")


def _derived_from(fi: FuncInfo, where: ast.AST, v: ast.expr, text: str, depth: int = 3) -> bool:
    """Some value that can flow into ``v`` at ``where`` (through all reaching definitions, transitively through the names inside
    constructor / call leaves) is written in terms of ``text``."""
    g = build_cfg(fi.node)
    n = node_containing(g, where)
    if n is None:
        return False
    work = [(n, v, depth)]
    seen: set[tuple[int, str]] = set()
    while work:
        at, e, d = work.pop()
        for leaf, chain in flows(fi, at, e):
            t = unparse(leaf)
            if text in t:
                return True
            here = chain[-1] if chain else at
            if d <= 0 or (here.id, t) in seen:
                continue
            seen.add((here.id, t))
            for sub in ast.walk(leaf):
                if isinstance(sub, ast.Name) and isinstance(sub.ctx, ast.Load) and sub is not leaf:
                    work.append((here, sub, d - 1))
    return False


@rule("C10.R5")
def flag_liveness_and_overrides(ctx: Ctx) -> None:
    """Every fail_on_* field of ParserConfig is read by a parser; candidate-trying sites force fail_on_converter_warnings=True."""
    cfg = ctx.repo.cls(f"{PAR}.config:ParserConfig")
    flags = [k for k in cfg.ann if k.startswith("fail_on_")]
    ctx.floor("fail_on_* flags", len(flags), 3)
    expected_defaults = {"fail_on_unknown_properties": True, "fail_on_unknown_attributes": False, "fail_on_converter_warnings": False}
    for f in flags:
        readers = [fi.qual for fi in ctx.repo.funcs_in(PAR) for n in walk_no_nested(fi.node) if isinstance(n, ast.Attribute) and n.attr == f and isinstance(n.ctx, ast.Load)]
        ctx.ob(f"ParserConfig.{f} is read by a parser", bool(readers), at=ctx.repo.module(f"{PAR}.config"), construct=f"flag {f} live", msg="the option has no effect")
        d = cfg.attrs.get(f)
        if f in expected_defaults:
            ctx.ob(f"ParserConfig.{f} defaults to {expected_defaults[f]} (documented default strictness)", isinstance(d, ast.Constant) and d.value is expected_defaults[f], at=ctx.repo.module(f"{PAR}.config"), node=d,
                   construct=f"flag {f} default", msg="default strictness changed")
    for q in (f"{PAR}.nodes.union:UnionNode.bind", f"{PAR}.dict:DictDecoder.bind_best_dataclass"):
        fi = ctx.repo.func(q)
        reps = [c for c in calls_in(fi.node) if isinstance(c.func, ast.Name) and c.func.id == "replace"]
        ok = bool(reps) and all(c.args and "self.config" in value_texts(fi, c, c.args[0]) and isinstance(kwarg(c, "fail_on_converter_warnings"), ast.Constant) and kwarg(c, "fail_on_converter_warnings").value is True for c in reps)
        ctx.ob(f"{q.split(':')[1]}: candidates are tried with fail_on_converter_warnings=True", ok, at=fi, construct="strict candidates", msg="a candidate that merely warns would win over the right one")
        # and the strict config is the one the candidate parsers use
        uses = [c for c in calls_in(fi.node) if kwarg(c, "config") is not None]
        strict_ok = bool(uses) and all(bool(lv) and all(any(x is r for r in reps) for x in lv) for c in uses for lv in [leaves_at(fi, c, kwarg(c, "config"))])
        ctx.ob(f"{q.split(':')[1]}: every candidate parser/decoder receives the strict config", strict_ok, at=fi,
               construct="strict config used", msg="the strict copy is built but not used")
        # ... and it is derived from the options in force for THIS call: nothing built from self.config is kept on the instance
        kept = [(f, st) for f in family(ctx.repo, fi) for st, tgt, v in stores(f.node) if is_self_attr(tgt) and v is not None
                and ("self.config" in unparse(expand(f.node, v)) or _derived_from(f, st, v, "self.config"))]
        ctx.ob(f"{q.split(':')[1]}: the strict copy of the options is made per call (not kept on the instance)", not kept, at=kept[0][0] if kept else fi, node=kept[0][1] if kept else None,
               construct="strict config per call", msg="a parser / decoder built from self.config is memoised on the instance: options changed between calls (fail_on_unknown_properties ...) are ignored for nested candidates")


@rule("C10.R6")
def unknown_children_of_simple_elements(ctx: Ctx) -> None:
    """Every node class that rejects an unexpected child element consults fail_on_unknown_properties (or swallows the child)."""
    base = ctx.repo.cls(f"{PAR}.mixins:XmlNode")
    n = 0
    for s_ in base.all_subclasses():
        if not s_.module.name.startswith(PAR):
            continue
        ch = s_.methods.get("child")
        if ch is None:
            continue
        raises = [x for x in walk_no_nested(ch.node) if isinstance(x, ast.Raise)]
        if not raises:
            continue
        n += 1
        g = build_cfg(ch.node)
        tests = _flag_tests(g, "fail_on_unknown_properties")
        ok = bool(tests) and all(g.only_if(g.node_of(r).id, tests[0].id, True) for r in raises)
        ctx.ob(f"{s_.name}.child raises for an unexpected child only if fail_on_unknown_properties", ok, at=ch, node=raises[0], construct=f"{s_.name}.child raise",
               msg="an unknown child element inside this element fails the parse even with fail_on_unknown_properties=False (the option promises that unknown elements do not change the result)")
    ctx.floor("node classes whose child() can raise", n, 3)


from .c01 import wrapper_filter_exact  # noqa: E402


@rule("C10.R7")
def wrapped_items_compete_only_for_their_wrapper(ctx: Ctx) -> None:
    """An element inside a wrapper is matched only against fields of that wrapper: an unknown element that reuses the name of an unwrapped sibling field is rejected / skipped like any unknown."""
    wrapper_filter_exact(ctx)
