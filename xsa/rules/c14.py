"""C14 - history independence, and C19 - shared context under concurrent use (shared-state write discipline)."""

from __future__ import annotations

import ast
import re

from ..cfg import build_cfg, calls_in, node_calls
from ..core import Ctx, property_info, rule, share
from ..model import AnalysisError, FuncInfo, walk_no_nested
from ..q import leaves_at, expand, polar_forms, L, call_name_of, control_deps, flows, forms, A, MUTATORS, asrc, is_self_attr, kwarg, names_in, root_name, stores, unparse
from ..state import CONSTRUCTION, Site, collect_sites, defaultdict_attrs, persistent_classes, self_reads, value_mutated_after
from .c03 import who_may_write_map

property_info(
    "C14",
    explanation="Inventories every site that may mutate state kept across calls (binding context, cached metadata, converter registry, parser / "
    "serializer instances, memoised functions, module singletons) and decides structurally that each is an idempotent publish of a fully computed "
    "value whose memo key covers everything the value depends on; that recorder maps never flow into binding; that memoised functions are pure; "
    "that shared singletons and cached metadata are never mutated after construction; that caller arguments are not mutated.",
    decides="write discipline of persistent state, memo-key completeness, memo/dependency invalidation, recorder isolation, purity of lru_cache'd functions",
    not_decided="call-by-call equality with fresh instances for all histories; staleness of the type index when classes appear without a module-count change",
)
property_info(
    "C19",
    explanation="Decides that no structure shared between threads can be observed half-built: every mutation of shared state is a single atomic "
    "publish (one store of a value computed into locals first), per-call state is created inside the call, defaultdict-typed indexes are not "
    "written by reads, and shared instances are not used as scratch. Atomicity of one dict/list/attribute store is the trusted base.",
    decides="publish-after-compute pattern at every shared-state write site; absence of in-place multi-step rebuilds, of mutation through aliases of shared "
    "containers, of inserting reads, and of shared scratch attributes",
    not_decided="that every call returns what it returns alone under real interleavings; thread-safety of expat/lxml themselves",
)

SCOPE = ("xsdata.formats", "xsdata.utils", "xsdata.models.enums", "xsdata.models.datatype")

# designated writers of persistent registries / recorders (frozen, one reason each)
DESIGNATED = {
    ("XmlContext", "reset", "cache"): "explicit user reset of the context",
    ("XmlContext", "reset", "xsi_cache"): "explicit user reset of the context",
    ("XmlContext", "reset", "sys_modules"): "explicit user reset of the context",
    ("ConverterFactory", "register_converter", "registry"): "public registration API, called by library code at import time only (checked)",
    ("ConverterFactory", "unregister_converter", "registry"): "public registration API",
    ("ClassTypes", "register", "types"): "plugin registration at import time",
    ("RecordParser", "start", "events"): "RecordParser is documented as a per-instance event recorder",
    ("RecordParser", "end", "events"): "RecordParser is documented as a per-instance event recorder",
    ("RecordParser", "register_namespace", "events"): "RecordParser is documented as a per-instance event recorder",
}


# registration tables: configuration, not caches - every writer is in DESIGNATED (frozen; ConverterFactory.registry decides which types are
# convertible and how, ClassTypes.types which class systems exist)
REGISTRIES = {("ConverterFactory", "registry"), ("ClassTypes", "types")}


def _sites(ctx: Ctx) -> list[Site]:
    s = ctx.notes.get("_state_sites")
    if s is None:
        s = [x for x in collect_sites(ctx) if x.fi.module.name.startswith(SCOPE)]
        ctx.notes["_state_sites"] = s
    return s


def _classify(ctx: Ctx, s: Site) -> tuple[bool, str]:
    """(admissible, why).  Admissible = designated writer, or an atomic publish of a fully computed value."""
    key = (s.cls.name, s.fi.name, s.attr)
    if key in DESIGNATED:
        return True, f"designated: {DESIGNATED[key]}"
    if (s.cls.name, s.attr) in REGISTRIES:
        return False, f"self.{s.attr} is a registration table: only its registration API may write it - an entry left behind by a conversion changes what later calls (and metadata builds) see"
    if _class_level_mutable(s.cls, s.attr):
        return False, f"self.{s.attr} is a class-level container shared by every instance (and subclass): per-instance results (bound methods, per-context data) written into it leak between instances"
    if s.kind in ("rebind", "setitem"):
        later = value_mutated_after(s.fi, s.node, s.value)
        if later:
            return False, f"the stored value is mutated after it was published (line {getattr(later[0], 'lineno', '?')}: {unparse(later[0])[:60]}): other callers can observe it half-built"
        if s.kind == "setitem" and isinstance(s.node, ast.Assign) and len(s.node.targets) > 1:
            # `x = self.cache[k] = value`: fine while the alias is only read afterwards (returned, attributes loaded); handing it to other code
            # after the publish may complete it there
            aliases = {t.id for t in s.node.targets if isinstance(t, ast.Name)}
            g_ = build_cfg(s.fi.node)
            sn_ = g_.node_of(s.node)
            after_ = g_.reachable([m for m, _ in g_.succ[sn_.id]]) if sn_ is not None else set()
            for c in calls_in(s.fi.node):
                n_ = g_.node_of(c)
                if n_ is not None and n_.id in after_ and any(isinstance(a, ast.Name) and a.id in aliases for a in [*c.args, *[k.value for k in c.keywords]]):
                    return False, "chained assignment publishes the value and keeps a local alias that is handed to other code afterwards"
        if isinstance(s.value, (ast.List, ast.Dict, ast.Set)) and s.kind == "setitem" and not (s.value.elts if not isinstance(s.value, ast.Dict) else s.value.keys):
            # an empty container stored under a key is only a publish if nothing fills it later - checked above through aliases;
            # filling through the attribute itself is a separate mutator site
            pass
        return True, "atomic publish of a value computed before the store"
    if s.kind == "augassign":
        return False, "read-modify-write of shared state"
    if s.kind == "defaultdict-load":
        g = build_cfg(s.fi.node)
        n = g.node_of(s.node)
        k = unparse(s.key) if s.key is not None else ""
        for t in g.nodes:
            if t.kind == "test" and isinstance(t.ast, ast.Compare) and len(t.ast.ops) == 1 and isinstance(t.ast.ops[0], (ast.In, ast.NotIn)) and unparse(t.ast.left) == k \
                    and is_self_attr(t.ast.comparators[0], s.attr) and n is not None and g.only_if(n.id, t.id, isinstance(t.ast.ops[0], ast.In)):
                return True, "subscript load guarded by a membership test (cannot insert)"
        return False, "subscript load on a defaultdict inserts a key: a read path writes the shared index (and can break a concurrent iteration)"
    return False, f"in-place mutation ({s.kind}) of shared state outside a designated writer"


def _class_level_mutable(ci, attr: str) -> bool:
    """The attribute is defined at class level as a mutable container (ClassVar / plain class attribute), not per instance."""
    for c in ci.mro:
        ann = c.ann.get(attr)
        val = c.attrs.get(attr)
        if ann is not None and unparse(ann).startswith(("ClassVar", "typing.ClassVar")):
            return True
        if val is not None and isinstance(val, (ast.Dict, ast.List, ast.Set)):
            return True
        if val is not None and isinstance(val, ast.Call) and unparse(val.func) in ("dict", "list", "set", "defaultdict"):
            return True
        if ann is not None or val is not None:
            return False
    return False


def _emit_sites(ctx: Ctx, what: str) -> None:
    sites = _sites(ctx)
    ctx.floor("shared-state mutation sites", len(sites), 14)
    for s in sites:
        ok, why = _classify(ctx, s)
        ctx.ob(f"{s.cls.name}.{s.fi.name}: {s.kind} of self.{s.attr} is an admissible {what}", ok, at=s.fi, node=s.node,
               construct=f"{s.kind}:{s.attr}:{s.detail}", msg=why)
    ctx.note("shared-state sites", [f"{s.cls.name}.{s.fi.name} {s.kind} {s.attr}" for s in sites])


@rule("C14.R3")
def publish_after_compute(ctx: Ctx) -> None:
    """Every write into persistent state is a designated writer or a single store of a fully computed value."""
    _emit_sites(ctx, "write")
    _marker_obligations(ctx)


def _marker_obligations(ctx: Ctx, concurrent: bool = False) -> None:
    # validity markers are written after the structure they validate - in every function that writes the marker
    ctxc = ctx.repo.cls("xsdata.formats.dataclass.context:XmlContext")
    for m in ctxc.methods.values():
        if m.name in CONSTRUCTION or m.name == "reset":
            continue
        marks = [st for st, tgt, v in stores(m.node) if is_self_attr(tgt, "sys_modules")]
        if not marks:
            continue
        g0 = build_cfg(m.node)
        pubs = [g0.node_of(st) for st, tgt, v in stores(m.node) if is_self_attr(tgt, "xsi_cache")]
        ok0 = bool(pubs) and all(g0.must_pass(g0.entry, g0.node_of(mk).id, [p_.id for p_ in pubs if p_]) for mk in marks)
        if not concurrent:
            # sequential histories (C14): the order of the two final stores cannot be observed; what matters is that the marker is stored
            # only when the index is complete - nothing fills the index (the published attribute or the local that is published) after it
            carriers = {"self.xsi_cache"} | {unparse(v) for st, tgt, v in stores(m.node) if is_self_attr(tgt, "xsi_cache") and isinstance(v, ast.Name)}
            fills = [g0.node_of(st) for st, tgt, v in stores(m.node) if isinstance(tgt, ast.Subscript) and unparse(tgt.value) in carriers]
            fills += [g0.node_of(c) for c in calls_in(m.node) if isinstance(c.func, ast.Attribute) and c.func.attr in MUTATORS and (
                unparse(c.func.value) in carriers or (isinstance(c.func.value, ast.Subscript) and unparse(c.func.value.value) in carriers))]
            after_ = set()
            for mk in marks:
                nk = g0.node_of(mk)
                after_ |= g0.reachable([x for x, _ in g0.succ[nk.id]]) if nk is not None else set()
            ok0 = bool(pubs) and not any(f_ is not None and f_.id in after_ for f_ in fills)
        ctx.ob(f"XmlContext.{m.name}: the validity marker sys_modules is stored only after the index it validates was published (in the same function)", ok0, at=m, node=marks[0], construct=f"marker order {m.name}",
               msg="the marker becomes valid before the index is rebuilt: other threads skip the rebuild and read the stale / empty index (no class found, xsi:type ignored)")
    lm = ctx.repo.func("xsdata.formats.dataclass.context:XmlContext.local_names_match")
    ev = [(st, tgt, v) for st, tgt, v in stores(lm.node) if isinstance(tgt, ast.Subscript) and is_self_attr(tgt.value, "xsi_cache")]
    glm = build_cfg(lm.node)
    for st, tgt, v in ev:
        n = glm.node_of(st)
        leaves = [leaf for leaf, _ in flows(lm, n, v)] if n is not None and v is not None else []
        ok = bool(leaves)
        SRC = r"self\.xsi_cache(\[_\]|\.get\(_(,[^()]*)?\))"
        # loop form: `kept = []; for c in <old entry>: if c is not clazz: kept.append(c)`
        if leaves and all(isinstance(leaf, ast.List) and not leaf.elts for leaf in leaves) and isinstance(v, ast.Name):
            apps = [(m, c) for m in glm.stmts() for c in node_calls(m) if isinstance(c.func, ast.Attribute) and c.func.attr == "append" and isinstance(c.func.value, ast.Name) and c.func.value.id == v.id and len(c.args) == 1]
            loops = [l for l in glm.nodes if l.kind == "for" and isinstance(l.ast.target, ast.Name)]
            good = bool(apps)
            for m, c in apps:
                lp = next((l for l in loops if isinstance(c.args[0], ast.Name) and l.ast.target.id == c.args[0].id and m.id in glm.reachable([x for x, lab in glm.succ[l.id] if lab == "iter"], blocked=[l.id])), None)
                item = c.args[0].id if isinstance(c.args[0], ast.Name) else "?"
                want = {f"{item}isnotclazz", f"clazzisnot{item}", f"{item}!=clazz", f"clazz!={item}"}
                keeps_others = False
                for t in glm.nodes:
                    if t.kind != "test" or t.ast is None:
                        continue
                    for pol in (True, False):
                        if glm.only_if(m.id, t.id, pol):
                            keeps_others = keeps_others or any(f.replace(" ", "") in want and (pol if same else not pol) for f, same in polar_forms(lm, t, t.ast, anon=False))
                good = good and lp is not None and keeps_others and any(re.fullmatch(SRC, x) for x in forms(lm, lp, lp.ast.iter))
            ctx.ob("local_names_match evicts exactly the unbindable class: the new entry is the old entry filtered by `is not clazz`", good, at=lm, node=st, construct="eviction filter",
                   msg="the eviction drops other classes that share the qualified name: after one failing decode a shared context no longer finds a valid model by qname")
            continue
        # list(<generator expression>) is the list comprehension (the generator may be named first)
        unwrapped = []
        for leaf in leaves:
            if isinstance(leaf, ast.Call) and isinstance(leaf.func, ast.Name) and leaf.func.id == "list" and len(leaf.args) == 1 and not leaf.keywords:
                unwrapped += leaves_at(lm, n, leaf.args[0])
            else:
                unwrapped.append(leaf)
        leaves = unwrapped
        for leaf in leaves:
            comp_ok = isinstance(leaf, (ast.ListComp, ast.GeneratorExp)) and len(leaf.generators) == 1 and bool(leaf.generators[0].ifs) and any(
                isinstance(c, ast.Compare) and isinstance(c.ops[0], (ast.IsNot, ast.NotEq)) and "clazz" in {unparse(c.left), unparse(c.comparators[0])} for c in leaf.generators[0].ifs)
            src_forms = forms(lm, n, leaf.generators[0].iter) if comp_ok else set()
            # the filtered list is the old entry read from the cache under a key: self.xsi_cache[k] / self.xsi_cache.get(k[, default])
            ok = ok and comp_ok and any(re.fullmatch(r"self\.xsi_cache(\[_\]|\.get\(_(,[^()]*)?\))", x) for x in src_forms)
        ctx.ob("local_names_match evicts exactly the unbindable class: the new entry is the old entry filtered by `is not clazz`", ok, at=lm, node=st, construct="eviction filter",
               msg="the eviction drops other classes that share the qualified name: after one failing decode a shared context no longer finds a valid model by qname")
    b = ctx.repo.func("xsdata.formats.dataclass.context:XmlContext.build_xsi_cache")
    g = build_cfg(b.node)
    pub = [g.node_of(st) for st, tgt, v in stores(b.node) if is_self_attr(tgt, "xsi_cache")]
    mark = [g.node_of(st) for st, tgt, v in stores(b.node) if is_self_attr(tgt, "sys_modules")]
    ok = bool(pub) and bool(mark) and all(g.must_pass(g.entry, m.id, [p.id for p in pub]) for m in mark)
    if concurrent:
        ctx.ob("build_xsi_cache: the validity marker sys_modules is stored after the index is published", ok, at=b, construct="marker last", msg="a failed or concurrent rebuild would leave a valid-looking marker over a stale index")
    # the marker is computed before the scan (a module imported during the scan triggers another rebuild instead of being missed)
    mv = [v for st, tgt, v in stores(b.node) if is_self_attr(tgt, "sys_modules")]
    ok = bool(mv) and all(isinstance(v, ast.Name) for v in mv)
    if ok:
        name = mv[0].id
        first = [g.node_of(st) for st, tgt, v in stores(b.node) if isinstance(tgt, ast.Name) and tgt.id == name]
        scan = [n for n in g.nodes if n.kind == "for"]
        ok = bool(first) and bool(scan) and all(g.must_pass(g.entry, s_.id, [f.id for f in first]) for s_ in scan)
    ctx.ob("build_xsi_cache: the module count is sampled before the scan", ok, at=b, construct="marker sampled first", msg="classes imported while scanning would be missed until the next import")


@rule("C14.R1")
def memo_key_completeness(ctx: Ctx) -> None:
    """For each memo X[k] = f(...), every parameter (and mutable attribute) the value depends on is covered by the key or by invalidation."""
    sites = [s for s in _sites(ctx) if s.kind == "setitem" and (s.cls.name, s.fi.name, s.attr) not in DESIGNATED]
    ctx.floor("memo publish sites", len(sites), 4)
    pcs = persistent_classes(ctx)
    for s in sites:
        fi = s.fi
        params = [a.arg for a in fi.params if a.arg != "self"]
        key_names = _flow_sources(fi, s.key, params)
        val_names = _flow_sources(fi, s.value, params) | _control_sources(fi, s.node, params)
        missing = sorted(n for n in val_names if n not in key_names)
        ctx.ob(f"{s.cls.name}.{fi.name}: memo self.{s.attr}[{unparse(s.key)}] is keyed by every parameter its value depends on", not missing, at=fi, node=s.node,
               construct=f"memo key {s.attr}", msg=f"value depends on parameter(s) {missing} that are not part of the key: a later call with other arguments gets the entry built for the first")
        # dependency on mutable persistent attributes
        reads = _value_self_reads(fi, s.value)
        for attr in sorted(reads - {s.attr}):
            writers = [w for w in _sites(ctx) if w.attr == attr and w.cls.qual in {c.qual for c in s.cls.mro} | {s.cls.qual} and w.fi.name not in CONSTRUCTION]
            if not writers:
                continue
            bad = []
            for w in writers:
                clears = [c for c in calls_in(w.fi.node) if isinstance(c.func, ast.Attribute) and c.func.attr == "clear" and is_self_attr(c.func.value, s.attr)]
                rebinds = [st for st, tgt, v in stores(w.fi.node) if is_self_attr(tgt, s.attr)]
                if not clears and not rebinds:
                    bad.append(w.fi.name)
            ctx.ob(f"{s.cls.name}.{fi.name}: memo self.{s.attr} is invalidated wholesale by every writer of self.{attr}", not bad, at=fi, node=s.node,
                   construct=f"memo {s.attr} depends on {attr}", msg=f"the memoised value is derived from self.{attr}, which {sorted(set(bad))} modify without clearing self.{s.attr}: "
                   "entries derived from the old state stay (stale answers for keys other than the one just changed)")


def _flow_sources(fi: FuncInfo, e: ast.expr | None, params: list[str]) -> set[str]:
    """Parameters that flow into expression e through local assignments (flow-insensitive closure)."""
    if e is None:
        return set()
    defs: dict[str, set[str]] = {}
    for st, tgt, val in stores(fi.node):
        if isinstance(tgt, ast.Name) and val is not None:
            defs.setdefault(tgt.id, set()).update(names_in(val))
    for n in walk_no_nested(fi.node):
        if isinstance(n, (ast.For, ast.AsyncFor)):
            for t in ast.walk(n.target):
                if isinstance(t, ast.Name):
                    defs.setdefault(t.id, set()).update(names_in(n.iter))
    seen: set[str] = set()
    work = list(names_in(e))
    while work:
        n = work.pop()
        if n in seen:
            continue
        seen.add(n)
        work.extend(defs.get(n, ()))
    return {n for n in seen if n in params}


def _control_sources(fi: FuncInfo, store: ast.AST, params: list[str]) -> set[str]:
    """Parameters read by the conditions the memo store is control-dependent on (which entry is stored depends on them)."""
    g = build_cfg(fi.node)
    n = g.node_of(store)
    if n is None:
        return set()
    out: set[str] = set()
    for t in g.nodes:
        if t.kind == "test" and (g.only_if(n.id, t.id, True) or g.only_if(n.id, t.id, False)):
            out |= _flow_sources(fi, t.ast, params)
    # **kwargs forwarded to the calls inside those conditions count as read
    return out


def _value_self_reads(fi: FuncInfo, e: ast.expr | None) -> set[str]:
    if e is None:
        return set()
    out: set[str] = set()
    defs: dict[str, list[ast.expr]] = {}
    for st, tgt, val in stores(fi.node):
        if isinstance(tgt, ast.Name) and val is not None:
            defs.setdefault(tgt.id, []).append(val)
    seen: set[int] = set()
    work: list[ast.AST] = [e]
    while work:
        x = work.pop()
        if id(x) in seen:
            continue
        seen.add(id(x))
        for n in ast.walk(x):
            if is_self_attr(n) and isinstance(n.ctx, ast.Load):
                m = fi.cls.find_method(n.attr) if fi.cls else None
                if m is not None:
                    out |= self_reads(m)
                else:
                    out.add(n.attr)
            elif isinstance(n, ast.Name) and n.id in defs:
                work.extend(defs[n.id])
    return out


@rule("C14.R2")
def recorder_isolation(ctx: Ctx) -> None:
    """The ns_map recorder of a parser instance flows only into register_namespace, never into binding."""
    P = "xsdata.formats.dataclass.parsers"
    handlers = [ctx.repo.cls(f"{P}.handlers.native:XmlEventHandler"), ctx.repo.cls(f"{P}.handlers.lxml:LxmlEventHandler"), ctx.repo.cls(f"{P}.mixins:EventsHandler")]
    n = 0
    for h in handlers:
        for mname in ("parse", "process_context"):
            m = h.methods.get(mname)
            if m is None:
                continue
            pnames = [a.arg for a in m.params]
            if "ns_map" not in pnames:
                continue
            for node in walk_no_nested(m.node):
                if isinstance(node, ast.Name) and node.id == "ns_map" and isinstance(node.ctx, ast.Load):
                    n += 1
                    call = _enclosing_call(m.node, node)
                    ok = call is not None and isinstance(call.func, ast.Attribute) and call.func.attr in ("register_namespace", "process_context") and any(a is node for a in call.args)
                    ctx.ob(f"{h.name}.{mname}: recorder ns_map is only handed to register_namespace / process_context", ok, at=m, node=call or node,
                           construct=f"recorder use {unparse(call.func) if call else 'bare'}", msg="prefixes recorded by earlier parses on this instance would influence binding")
            for st, tgt, _ in stores(m.node):
                if isinstance(tgt, ast.Name) and tgt.id == "ns_map":
                    ctx.ob(f"{h.name}.{mname}: recorder parameter is not rebound", False, at=m, node=st, msg="ns_map reassigned")
    ctx.floor("recorder uses", n, 4)
    # register_namespace is first-wins on the recorder and nothing else reads PushParser.ns_map
    rn = ctx.repo.func(f"{P}.mixins:PushParser.register_namespace")
    sts = [st for st, tgt, v in stores(rn.node) if isinstance(tgt, ast.Subscript) and unparse(tgt.value) == "ns_map"]
    muts = [c for c in calls_in(rn.node) if isinstance(c.func, ast.Attribute) and c.func.attr in MUTATORS and unparse(c.func.value) == "ns_map"]
    guarded_store = len(sts) == 1 and any((t == "_notin_" and pol) or (t == "_in_" and not pol) for t, pol, _ in control_deps(rn, sts[0])) and not muts
    first_wins_call = not sts and len(muts) == 1 and muts[0].func.attr == "setdefault" and len(muts[0].args) == 2  # dict.setdefault keeps an existing binding
    ok = guarded_store or first_wins_call
    ctx.ob("register_namespace only adds unseen prefixes to the map it is given", ok, at=rn, construct="register first wins", msg="recorder semantics changed")
    readers = []
    for fi in ctx.repo.funcs_in("xsdata.formats"):
        for node in walk_no_nested(fi.node):
            if is_self_attr(node, "ns_map") and isinstance(node.ctx, ast.Load) and fi.cls is not None and fi.cls.is_subclass_of(f"{P}.mixins:PushParser"):
                readers.append(fi.qual.split(":")[1])
    ctx.ob("PushParser.ns_map is read only by NodeParser.parse (to pass it as the recorder)", sorted(set(readers)) == ["NodeParser.parse"], at=ctx.repo.func(f"{P}.bases:NodeParser.parse"),
           construct="recorder readers", msg=f"readers: {sorted(set(readers))}")
    np_ = ctx.repo.func(f"{P}.bases:NodeParser.parse")
    gnp = build_cfg(np_.node)
    test_ids = {id(x) for t in gnp.nodes if t.kind == "test" for x in ast.walk(t.ast)}
    parse_args = {id(a) for c in calls_in(np_.node) if call_name_of(c) == "parse" for a in [*c.args, *[k.value for k in c.keywords]]}
    # locals that carry the recorder: ns_map itself and every local assigned from it / from self.ns_map (plain copies of the reference)
    carriers = {"ns_map"}
    for _ in range(3):
        for st, tgt, v in stores(np_.node):
            if isinstance(tgt, ast.Name) and v is not None and ((isinstance(v, ast.Name) and v.id in carriers) or is_self_attr(v, "ns_map")):
                carriers.add(tgt.id)
    rebinding = {id(v) for st, tgt, v in stores(np_.node) if isinstance(tgt, ast.Name) and tgt.id in carriers and v is not None}
    uses = [x for x in walk_no_nested(np_.node) if (isinstance(x, ast.Name) and x.id in carriers and isinstance(x.ctx, ast.Load)) or (is_self_attr(x, "ns_map") and isinstance(x.ctx, ast.Load))]
    ok = bool(parse_args) and bool(uses) and all(id(x) in test_ids or id(x) in parse_args or id(x) in rebinding for x in uses)
    ctx.ob("NodeParser.parse passes the recorder only to handler.parse", ok, at=np_, construct="recorder hand-off", msg="recorder reaches other code")
    # the native handler builds each element's in-scope map from the parent node's map + the element's own declarations (never from the recorder)
    mp = ctx.repo.func(f"{P}.handlers.native:XmlEventHandler.merge_parent_namespaces")
    # every `.ns_map` read of the function, with temporaries expanded (`parent = self.queue[-1]; parent.ns_map`)
    reads = {unparse(expand(mp.node, x)) for x in walk_no_nested(mp.node) if isinstance(x, ast.Attribute) and x.attr == "ns_map" and isinstance(x.ctx, ast.Load)}
    ctx.ob("merge_parent_namespaces takes only the element's own declarations and the parent node's map", [a.arg for a in mp.params] == ["self", "ns_map"] and "self.queue[-1].ns_map" in reads
           and "self.parser.ns_map" not in reads and "self.parser.ns_map" not in unparse(mp.node), at=mp, construct="merge inputs", msg="the in-scope map is built from instance state")
    pc = ctx.repo.func(f"{P}.handlers.native:XmlEventHandler.process_context")
    calls = [c for c in calls_in(pc.node) if isinstance(c.func, ast.Attribute) and c.func.attr == "merge_parent_namespaces"]
    ok = bool(calls) and all(len(c.args) == 1 and isinstance(c.args[0], ast.Name) and c.args[0].id != "ns_map" for c in calls)
    ctx.ob("process_context (native) merges the per-element declarations, not the recorder", ok, at=pc, construct="merge argument", msg="recorder map passed to merge_parent_namespaces")
    # the per-element map is fresh for every element
    resets = [st for st, tgt, v in stores(pc.node) if isinstance(tgt, ast.Name) and isinstance(v, ast.Dict) and not v.keys]
    ctx.ob("process_context (native) starts every element with a fresh declaration map", len(resets) >= 2, at=pc, construct="element map reset", msg="declarations of one element leak into its siblings")


def _enclosing_call(fn: ast.AST, node: ast.AST) -> ast.Call | None:
    best = None
    for c in walk_no_nested(fn):
        if isinstance(c, ast.Call) and any(a is node for a in [*c.args, *[k.value for k in c.keywords]]):
            best = c
    return best


@rule("C14.R4")
def memoised_functions_pure(ctx: Ctx) -> None:
    """lru_cache'd functions read no mutable global, mutate nothing and return immutable kinds."""
    n = 0
    for fi in ctx.repo.funcs_in("xsdata.formats", "xsdata.utils.namespaces", "xsdata.utils.text", "xsdata.utils.collections", "xsdata.utils.dates", "xsdata.models.enums", "xsdata.models.datatype"):
        if not any("lru_cache" in d or d.endswith("cache") for d in fi.decorators):
            continue
        n += 1
        ret = unparse(fi.node.returns) if fi.node.returns is not None else ""
        ctx.ob(f"{fi.name}: memoised function returns an immutable kind ({ret})", ret in ("str", "tuple", "bool", "int", "str | None", "Path") or ret.startswith("tuple["), at=fi,
               construct=f"lru return {fi.name}", msg="a cached mutable result is shared between all callers")
        params = {a.arg for a in fi.params}
        locals_ = {t.id for st, t, v in stores(fi.node) if isinstance(t, ast.Name)} | params
        impure = []
        for node in walk_no_nested(fi.node):
            if isinstance(node, ast.Name) and isinstance(node.ctx, ast.Load) and node.id not in locals_ and node.id in fi.module.globals:
                g = fi.module.globals[node.id]
                if isinstance(g, (ast.Dict, ast.List, ast.Set)) or (isinstance(g, ast.Call) and unparse(g.func) in ("dict", "list", "set", "defaultdict")):
                    impure.append(node.id)
            if isinstance(node, (ast.Global, ast.Nonlocal)):
                impure.append("global statement")
        for st, tgt, _ in stores(fi.node):
            if isinstance(tgt, (ast.Subscript, ast.Attribute)) and root_name(tgt) not in locals_ - params:
                impure.append(unparse(tgt))
        ctx.ob(f"{fi.name}: memoised function reads no mutable global and mutates nothing", not impure, at=fi, construct=f"lru purity {fi.name}", msg=f"impure: {impure}")
        ctx.ob(f"{fi.name}: memoised function is a plain function (the cache key is its full argument list)", fi.cls is None, at=fi, construct=f"lru plain {fi.name}",
               msg="lru_cache on a method keys by self and keeps instances alive")
    ctx.floor("memoised functions", n, 3)


SHARED_SINGLETONS = ("EMPTY_MAP", "EMPTY_SEQUENCE", "EMPTY_TUPLE", "__STANDARD_NAMESPACES__", "__DataTypeIndex__", "__DataTypeInferIndex__", "__DataTypeCodeIndex__",
                     "__PYTHON_TYPES_SORTED__", "__EXPLICIT_TYPES__", "evaluations")


@rule("C14.R5")
def shared_singletons_never_mutated(ctx: Ctx) -> None:
    """No function mutates a module-level shared constant, or a value that may alias one (defaults such as getattr(obj, name, EMPTY_MAP))."""
    n = 0
    for fi in ctx.repo.funcs_in(*SCOPE):
        aliases: dict[str, str] = {}
        for st, tgt, val in stores(fi.node):
            if isinstance(tgt, ast.Name) and val is not None:
                for s in SHARED_SINGLETONS:
                    if any(isinstance(x, ast.Name) and x.id == s for x in ast.walk(val)) and not (isinstance(val, ast.Call) and unparse(val.func) in ("dict", "list", "set", "tuple", "sorted")):
                        aliases[tgt.id] = s
        for node in walk_no_nested(fi.node):
            if isinstance(node, ast.Name) and node.id in SHARED_SINGLETONS:
                n += 1
        for c in calls_in(fi.node):
            f = c.func
            if isinstance(f, ast.Attribute) and f.attr in MUTATORS:
                r = root_name(f.value)
                direct = r in SHARED_SINGLETONS
                inline = any(isinstance(x, ast.Name) and x.id in SHARED_SINGLETONS for x in ast.walk(f.value))
                if direct or inline or (r in aliases and isinstance(f.value, ast.Name)):
                    ctx.ob(f"{fi.qual.split(':')[1]}: {unparse(c)[:60]} does not mutate a shared constant", False, at=fi, node=c,
                           msg=f"mutates {aliases.get(r, r)} (or a value that may be it): every later caller sees the change")
        for st, tgt, _ in stores(fi.node):
            if isinstance(tgt, (ast.Subscript, ast.Attribute)):
                r = root_name(tgt)
                if r in SHARED_SINGLETONS or (r in aliases and isinstance(tgt, ast.Subscript) and isinstance(tgt.value, ast.Name)):
                    ctx.ob(f"{fi.qual.split(':')[1]}: store {unparse(tgt)[:60]} does not write a shared constant", False, at=fi, node=st, msg=f"writes into {aliases.get(r, r)}")
    ctx.ob(f"shared constants are referenced ({n} uses) and never mutated", n >= 8, at=ctx.repo.module("xsdata.utils.constants"), construct="singleton uses", msg="anchor constants vanished")
    # registries are written by library code only at module level
    for fi in ctx.repo.funcs_in(*SCOPE):
        for c in calls_in(fi.node):
            if unparse(c.func) in ("converter.register_converter", "converter.unregister_converter", "class_types.register"):
                ctx.ob(f"{fi.qual.split(':')[1]}: library code does not (un)register converters at run time", False, at=fi, node=c, msg="process-wide registry changed during a call")


META_CLASSES = ("XmlVar", "XmlMeta")


@rule("C14.R6")
def cached_metadata_immutable(ctx: Ctx) -> None:
    """XmlVar / XmlMeta instances are not modified after construction (except the admitted memo and the builder's pre-return fix-up)."""
    n = 0
    allowed = {("xsdata.formats.dataclass.models.builders:XmlVarBuilder.build", "required"): "set on a freshly built choice var before it is stored or returned"}
    for fi in ctx.repo.funcs_in("xsdata.formats"):
        if fi.cls is not None and fi.cls.name in META_CLASSES:
            continue
        env = ctx.res.env(fi)
        for st, tgt, _ in stores(fi.node):
            base = tgt
            while isinstance(base, ast.Subscript):
                base = base.value
            if not isinstance(base, ast.Attribute) or is_self_attr(base):
                continue
            owner_types = ctx.res.expr_types(fi, base.value, env)
            hit = [t for t in owner_types if t[0] == "inst" and t[1].split(":")[1] in META_CLASSES]
            if not hit:
                continue
            n += 1
            ok = (fi.qual, base.attr) in allowed
            ctx.ob(f"{fi.qual.split(':')[1]}: store to {unparse(tgt)} on cached metadata is an admitted construction-time fix-up", ok, at=fi, node=st,
                   msg="binding metadata is shared by every parser and serializer of the context; changing it after construction changes later calls")
        for c in calls_in(fi.node):
            f = c.func
            if isinstance(f, ast.Attribute) and f.attr in MUTATORS and isinstance(f.value, ast.Attribute) and not is_self_attr(f.value):
                owner_types = ctx.res.expr_types(fi, f.value.value, env)
                if any(t[0] == "inst" and t[1].split(":")[1] in META_CLASSES for t in owner_types):
                    n += 1
                    ctx.ob(f"{fi.qual.split(':')[1]}: {unparse(c)[:60]} does not mutate a container of cached metadata", False, at=fi, node=c,
                           msg="in-place mutation of a container owned by shared binding metadata")
    ctx.floor("stores on metadata objects from outside", n, 1)


@rule("C14.R7")
def caller_arguments_untouched(ctx: Ctx) -> None:
    """render / write / encode / parse / decode do not mutate the caller's obj / data / source / ns_map arguments."""
    entries = [
        ("xsdata.formats.dataclass.serializers.xml:XmlSerializer.render", ("obj", "ns_map")),
        ("xsdata.formats.dataclass.serializers.xml:XmlSerializer.write", ("obj", "ns_map")),
        ("xsdata.formats.dataclass.serializers.tree:TreeSerializer.render", ("obj", "ns_map")),
        ("xsdata.formats.dataclass.serializers.dict:DictEncoder.encode", ("value",)),
        ("xsdata.formats.dataclass.parsers.dict:DictDecoder.decode", ("data",)),
        ("xsdata.formats.dataclass.parsers.dict:DictDecoder.bind_dataclass", ("data",)),
        ("xsdata.formats.dataclass.parsers.dict:DictDecoder.bind_value", ("value",)),
        ("xsdata.formats.dataclass.parsers.dict:DictDecoder.bind_derived_value", ("data",)),
        ("xsdata.formats.dataclass.parsers.dict:DictDecoder.bind_derived_dataclass", ("data",)),
    ]
    for q, params in entries:
        fi = ctx.repo.func(q)
        for p in params:
            muts = []
            for st, tgt, _ in stores(fi.node):
                if isinstance(tgt, (ast.Subscript, ast.Attribute)) and root_name(tgt) == p:
                    muts.append(unparse(tgt))
            for c in calls_in(fi.node):
                f = c.func
                if isinstance(f, ast.Attribute) and f.attr in MUTATORS and root_name(f.value) == p:
                    muts.append(unparse(c)[:50])
            ctx.ob(f"{q.split(':')[1]} does not mutate its argument `{p}`", not muts, at=fi, construct=f"arg {p} untouched", msg=f"mutations: {muts}")


share("C14", "C14.R7", who_may_write_map)


# ------------------------------------------------------------------------------------ C19


@rule("C19.R1")
def shared_write_patterns(ctx: Ctx) -> None:
    """Every mutation site of state shared between threads is an atomic publish or a designated (single-threaded) writer."""
    _emit_sites(ctx, "concurrent write")
    _marker_obligations(ctx, concurrent=True)
    # no lock exists in the library: the claim rests on the publish pattern alone
    locks = [fi.qual for fi in ctx.repo.funcs_in("xsdata.formats") for c in calls_in(fi.node) if unparse(c.func).endswith(("Lock", "RLock"))]
    ctx.note("locks", locks)


@rule("C19.R2")
def readers_tolerate_publish(ctx: Ctx) -> None:
    """Readers of published structures use one get/in/index and then the local result; swap-published attributes are read once per decision."""
    ctxq = "xsdata.formats.dataclass.context:XmlContext"
    ci = ctx.repo.cls(ctxq)
    rebound = {s.attr for s in _sites(ctx) if s.kind == "rebind" and s.cls.qual == ctxq and s.fi.name != "reset"} - {"sys_modules"}
    ctx.note("swap-published attributes", sorted(rebound))
    n = 0
    for m in ci.methods.values():
        if m.name in CONSTRUCTION or m.name == "reset":
            continue
        for attr in sorted(rebound):
            loads = [x for x in walk_no_nested(m.node) if is_self_attr(x, attr) and isinstance(x.ctx, ast.Load)]
            if not loads:
                continue
            n += 1
            # two loads are admissible only when the second is the publish target of a computed value or guarded membership+index on the same key
            if len(loads) <= 1:
                ctx.ob(f"XmlContext.{m.name}: reads swap-published self.{attr} once", True, at=m, construct=f"single read {attr}")
                continue
            g = build_cfg(m.node)
            idx = [x for x in walk_no_nested(m.node) if isinstance(x, ast.Subscript) and is_self_attr(x.value, attr) and isinstance(x.ctx, ast.Load)]
            ok = True
            for x in idx:
                k = unparse(x.slice)
                nx = g.node_of(x)
                guarded = any(t.kind == "test" and isinstance(t.ast, ast.Compare) and len(t.ast.ops) == 1 and isinstance(t.ast.ops[0], (ast.In, ast.NotIn)) and unparse(t.ast.left) == k and nx is not None
                              and g.only_if(nx.id, t.id, isinstance(t.ast.ops[0], ast.In)) for t in g.nodes)
                ok = ok and guarded
            ctx.ob(f"XmlContext.{m.name}: repeated reads of swap-published self.{attr} are membership-guarded index reads", ok, at=m, construct=f"reads {attr}",
                   msg="an unguarded second read may observe another (new) index object")
    ctx.floor("readers of swap-published state", n, 2)
    # the memo check-then-build returns the stored entry (entries are never deleted outside reset)
    b = ctx.repo.func(f"{ctxq}.build")
    dels = [s for s in _sites(ctx) if s.attr == "cache" and s.kind in ("delitem", "mutator") and s.fi.name != "reset"]
    ctx.ob("XmlContext.cache entries are never removed outside reset() (so build() may re-read the key it just checked)", not dels, at=b, construct="cache monotone", msg=f"removals: {[s.detail for s in dels]}")
    ft = ctx.repo.func(f"{ctxq}.find_types")
    loads = [x for x in walk_no_nested(ft.node) if is_self_attr(x, "xsi_cache") and isinstance(x.ctx, ast.Load)]
    ctx.ob("find_types reads the shared index exactly once (one get(), then the local result)", len(loads) == 1, at=ft, construct="find_types single read", msg="check-then-reread of the shared index")


@rule("C19.R3")
def no_shared_scratch(ctx: Ctx) -> None:
    """Parser / serializer / decoder / encoder instances write no self.* during a call, except the tabled recorders and memos."""
    allowed = {("UserXmlParser", "hooks_cache"), ("RecordParser", "events")}
    roots = ["xsdata.formats.dataclass.parsers.mixins:PushParser", "xsdata.formats.dataclass.parsers.dict:DictDecoder",
             "xsdata.formats.dataclass.serializers.mixins:EventGenerator", "xsdata.formats.dataclass.serializers.dict:DictEncoder",
             "xsdata.formats.dataclass.serializers.code:PycodeSerializer"]
    classes = []
    for q in roots:
        c = ctx.repo.cls(q)
        classes += [c, *[s for s in c.all_subclasses() if s.module.name.startswith("xsdata.formats")]]
    n = 0
    for c in classes:
        for m in c.methods.values():
            if m.name in CONSTRUCTION:
                continue
            n += 1
            writes = sorted({s.attr for s in _sites(ctx) if s.cls.qual == c.qual and s.fi.qual == m.qual} - {a for (cn, a) in allowed if cn == c.name})
            ctx.ob(f"{c.name}.{m.name} keeps no per-call state on the shared instance", not writes, at=m, construct=f"scratch {c.name}.{m.name}",
                   msg=f"writes self.{writes}: two threads using the same instance would overwrite each other's state")
    ctx.floor("methods of shareable parser/serializer classes", n, 60)
    # per-call state is created inside the call: handler (queue, objects) in NodeParser.parse, writer in XmlSerializer.write
    np_ = ctx.repo.func("xsdata.formats.dataclass.parsers.bases:NodeParser.parse")
    hcalls = [c for c in calls_in(np_.node) if unparse(c.func) == "self.handler"]
    kept = [tgt for st, tgt, v in stores(np_.node) if is_self_attr(tgt) and isinstance(v, ast.Call) and unparse(v.func) == "self.handler"]
    ctx.ob("NodeParser.parse creates the handler (queue, objects) per call", len(hcalls) >= 1 and not kept, at=np_, construct="per-call handler", msg="handler kept on the parser")
    xh = ctx.repo.func("xsdata.formats.dataclass.parsers.mixins:XmlHandler.__init__")
    def _fresh_list(x: ast.expr) -> bool:
        return isinstance(x, ast.List) and not x.elts or (isinstance(x, ast.Call) and unparse(x.func) == "list" and not x.args)

    # every value that can flow into the attribute is a list created in this call (directly or through a local)
    fresh = {tgt.attr for st, tgt, v in stores(xh.node) if is_self_attr(tgt) and v is not None and (lv := leaves_at(xh, st, v)) and all(_fresh_list(x) for x in lv)}
    ctx.ob("XmlHandler.__init__ creates fresh queue / objects lists", {"queue", "objects"} <= fresh, at=xh, construct="fresh queue", msg="queue shared between handlers")
    xw = ctx.repo.func("xsdata.formats.dataclass.serializers.xml:XmlSerializer.write")
    wcalls = [c for c in calls_in(xw.node) if unparse(c.func) == "self.writer"]
    kept = [tgt for st, tgt, v in stores(xw.node) if is_self_attr(tgt) and isinstance(v, ast.Call) and unparse(v.func) == "self.writer"]
    ctx.ob("XmlSerializer.write creates the writer per call", len(wcalls) >= 1 and not kept, at=xw, construct="per-call writer", msg="writer kept on the serializer")
