"""One module per property; each registers its rules with xsa.core.rule."""
