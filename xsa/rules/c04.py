"""C04 - JSON / dictionary round-trip (structural clauses)."""

from __future__ import annotations

import ast

from ..cfg import build_cfg, calls_in, node_calls
from ..core import Ctx, property_info, rule, share
from ..model import AnalysisError, FuncInfo, ordered_stmts, walk_no_nested
from ..q import A, L, X, family, leaf_conditions, reach_env, reach_table, cmp_atom, leaves_at, node_containing, alternatives, call_name_of, control_deps, dep_texts, entry_conditions, expand, expand_at, flows, func_text, path_conditions, tests_like, is_self_attr, kwarg, stores, unparse
from .c10 import flag_liveness_and_overrides
from .c15 import shape_validation

SER = "xsdata.formats.dataclass.serializers.dict"
PAR = "xsdata.formats.dataclass.parsers.dict"
EL = "xsdata.formats.dataclass.models.elements"

property_info(
    "C04",
    explanation="Decides encoder/decoder agreement: every return of DictEncoder.encode is a JSON-native shape; the attributes used to name a value when "
    "encoding are exactly those the decoder matches keys against (including wrapper nesting); generic key sets come from the generic classes' fields; "
    "choice lookup by value uses exact types; candidate classes are tried with strict conversion; decoded values are shape-checked before typed use.",
    decides="return-shape analysis of the encoder, key-vocabulary agreement, exact-type choice lookup, strict candidate configs, dict-shape guards",
    not_decided="equality after decode for all instances; outcome of best-class scoring for all data",
)

share("C04", "C04.R4", shape_validation)
share("C04", "C04.R5", flag_liveness_and_overrides)

JSON_NATIVE = {"dict", "int", "float", "str", "bool", "list"}


def _calls_named(node: ast.AST, name: str) -> list[ast.Call]:
    return [c for c in ast.walk(node) if isinstance(c, ast.Call) and call_name_of(c) == name]


def _json_shape(fi: FuncInfo, ret, v: ast.expr, depth: int = 0) -> str | None:
    """Abstract shape of a returned expression of DictEncoder.encode: a description if JSON-native by construction, else None."""
    if depth > 4:
        return None
    if isinstance(v, ast.Constant) and (v.value is None or isinstance(v.value, (str, int, float, bool))):
        return "constant"
    if isinstance(v, (ast.ListComp, ast.GeneratorExp)):
        return "sequence of " + (_json_shape(fi, ret, v.elt, depth + 1) or "?") if _json_shape(fi, ret, v.elt, depth + 1) else None
    if isinstance(v, (ast.List, ast.Tuple)):
        return "sequence" if all(_json_shape(fi, ret, e, depth + 1) for e in v.elts) else None
    if isinstance(v, ast.Call):
        f = unparse(v.func)
        name = call_name_of(v)
        if name == "encode" and f.startswith(("self.", "cls.")):
            return "recursive encode"
        if f == "self.dict_factory":
            return "dict"
        if f == "converter.serialize" or f == "str":
            return "converter string"
        if f in ("list", "tuple") or f.startswith("type("):
            # list(map(self.encode, xs)) / list(<generator of encoded items>) / type(value)(<generator>)
            if len(v.args) == 1:
                a0 = v.args[0]
                if isinstance(a0, ast.Call) and call_name_of(a0) == "map" and a0.args and unparse(a0.args[0]) in ("self.encode",):
                    return "sequence of encoded items"
                inner = _json_shape(fi, ret, a0, depth + 1)
                return inner if inner and inner.startswith("sequence") else None
            return "empty sequence" if not v.args else None
        return None
    if isinstance(v, ast.Name):
        # the value itself: only where an isinstance test against JSON-native types held - with every such test false the return is unreachable
        g = build_cfg(fi.node)
        native_tests = set()
        for t in g.nodes:
            if t.kind == "test" and isinstance(t.ast, ast.Call) and call_name_of(t.ast) == "isinstance" and len(t.ast.args) == 2 and isinstance(t.ast.args[0], ast.Name) and t.ast.args[0].id == v.id:
                tp = t.ast.args[1]
                if isinstance(tp, ast.Name) and isinstance(fi.module.globals.get(tp.id), ast.Tuple):
                    tp = fi.module.globals[tp.id]  # a module constant holding the tuple of types
                names = {unparse(e) for e in tp.elts} if isinstance(tp, ast.Tuple) else {unparse(tp)}
                if names <= JSON_NATIVE:
                    native_tests.add(t.id)
        if native_tests and ret.id not in reach_env(g, lambda t: False if t.id in native_tests else None):
            return "json-native value"
        return None
    return None


@rule("C04.R1")
def encoder_return_shapes(ctx: Ctx) -> None:
    """Every value DictEncoder.encode can return is None, a list/dict built here, a recursive encode, a JSON-native value, or a converter string."""
    fi = ctx.repo.func(f"{SER}:DictEncoder.encode")
    g = build_cfg(fi.node)
    rets = g.returns()
    ctx.floor("returns of DictEncoder.encode", len(rets), 8)
    for r in rets:
        for v in alternatives(fi.node, r.ast.value) if r.ast.value is not None else [ast.Constant(value=None)]:
            kind = _json_shape(fi, r, v)
            txt = L(fi, v)
            ctx.ob(f"encode returns a JSON-native shape: {txt[:60]}", kind is not None, at=fi, node=r.ast, construct=f"return {txt[:60]}",
                   msg="this return can hand an arbitrary Python object (Enum, Decimal, QName, date ...) to the JSON dumper")
    # enums are unwrapped to their value before conversion: every return that depends on isinstance(value, Enum) re-encodes value.value
    en = [r for r in rets if any(pol and A("isinstance(_,Enum)") == t for t, pol, _ in control_deps(fi, r))]
    ok = bool(en) and all(isinstance(v, ast.Call) and call_name_of(v) == "encode" and v.args and L(fi, v.args[0]) == "_.value" for r in en for v in alternatives(fi.node, r.ast.value))
    ctx.ob("enum members are encoded through their value", ok, at=fi, construct="enum unwrap", msg="enum members reach the dumper")
    md = [v for r in rets for v in alternatives(fi.node, r.ast.value) if isinstance(v, ast.Call) and unparse(v.func) == "self.dict_factory" and _calls_named(v, "next_value")]
    ctx.ob("models are encoded as dict_factory(next_value(model))", bool(md), at=fi, construct="model encoding", msg="model encoding changed")
    fn = ctx.repo.func(f"{SER}:filter_none")
    gf = build_cfg(fn.node)
    conds = [t.ast for t in gf.nodes if t.kind == "test"] + [c for n in walk_no_nested(fn.node) if isinstance(n, ast.comprehension) for c in n.ifs]
    bad = [c for c in conds if not (isinstance(c, ast.Compare) and len(c.ops) == 1 and isinstance(c.ops[0], (ast.Is, ast.IsNot)) and isinstance(c.comparators[0], ast.Constant) and c.comparators[0].value is None)]
    ctx.ob("filter_none filters on `is (not) None` only - never on truthiness", bool(conds) and not bad, at=fn, construct="filter_none", msg="the None-filtering factory drops or keeps other values (0, '', False, [] would vanish from the output)")
    js = ctx.repo.func("xsdata.formats.dataclass.serializers.json:JsonSerializer.write")
    dumps = [c for c in calls_in(js.node) if func_text(js, c) == "self.dump_factory"]
    ok = bool(dumps) and all(c.args and isinstance(expand(js.node, c.args[0]), ast.Call) and call_name_of(expand(js.node, c.args[0])) == "encode" for c in dumps)
    ctx.ob("JsonSerializer.write dumps encode(obj)", ok, at=js, construct="json dump", msg="json output not the encoded form")


def _key_cases(fi: FuncInfo, y_node, key: ast.expr) -> list[str | None]:
    """How a yielded key is chosen, per value that can flow into it: 'wrapper' = var.wrapper where it was tested truthy, 'local' =
    var.local_name where var.wrapper was tested falsy (an if/else, a conditional expression, `a or b`, a temporary); None = anything else."""
    out: list[str | None] = []
    for leaf, chain in flows(fi, y_node, key):
        conds = leaf_conditions(fi, y_node, leaf, chain)
        txt = L(fi, leaf)
        if txt == "_.wrapper":
            out.append("wrapper" if ("_.wrapper", True) in conds else None)
        elif txt == "_.local_name":
            out.append("local" if ("_.wrapper", False) in conds else None)
        else:
            out.append(None)
    return out


@rule("C04.R2")
def key_agreement(ctx: Ctx) -> None:
    """The names the encoder emits (wrapper, then local_name) are the ones the decoder matches keys against."""
    nv = ctx.repo.func(f"{SER}:DictEncoder.next_value")
    g = build_cfg(nv.node)
    ys = [y.value for y in walk_no_nested(nv.node) if isinstance(y, ast.Yield) and isinstance(y.value, ast.Tuple) and len(y.value.elts) == 2]
    cases = [c for y in ys for c in _key_cases(nv, node_containing(g, y), y.elts[0])]
    ok = bool(ys) and None not in cases and {"wrapper", "local"} <= set(cases)
    ctx.ob("next_value names a value by var.wrapper exactly when the field has one, else by var.local_name", ok, at=nv, construct="encoder keys", msg=f"encoder key cases are {cases}")
    for y in ys:
        v = expand(nv.node, y.elts[1])
        okv = isinstance(v, ast.Call) and call_name_of(v) == "encode" and len(v.args) == 2 and L(nv, v.args[1]) == "_" and "getattr(" in L(nv, v.args[0]) and ".name" in L(nv, v.args[0])
        ctx.ob("the yielded value is encode(getattr(obj, var.name), var)", okv, at=nv, node=y, construct="encoder value", msg="value encoded without its field metadata")
    ctx.ob("next_value walks meta.get_all_vars() of the object's class", bool(_calls_named(nv.node, "get_all_vars")), at=nv, construct="all vars", msg="a kind of field is not encoded")
    enc = ctx.repo.func(f"{SER}:DictEncoder.encode")
    ge = build_cfg(enc.node)
    nest = []
    for r in ge.returns():
        for v in alternatives(enc.node, r.ast.value):
            if isinstance(v, ast.Call) and unparse(v.func) == "self.dict_factory" and any(isinstance(x, ast.Attribute) and x.attr == "local_name" for x in ast.walk(v)):
                inner = [c for c in _calls_named(v, "encode") if (len(c.args) == 3 and isinstance(c.args[2], ast.Constant) and c.args[2].value is True)
                         or any(k.arg == "wrapped" and isinstance(k.value, ast.Constant) and k.value.value is True for k in c.keywords)]
                deps = control_deps(enc, r)
                nest.append(bool(inner) and any(t == "_.wrapper" and pol for t, pol, _ in deps) and any(t == "_" and not pol and unparse(tn.ast) == "wrapped" for t, pol, tn in deps))
    ctx.ob("a wrapped value is nested once under var.local_name (only when the field has a wrapper and the value is not already unwrapped)", nest == [True], at=enc, construct="wrapper nesting", msg="wrapper nesting changed")
    # decoder side
    fv = ctx.repo.func(f"{PAR}:DictDecoder.find_var")
    gv = build_cfg(fv.node)
    rets = [r for r in gv.returns() if r.ast.value is not None and not (isinstance(r.ast.value, ast.Constant) and r.ast.value.value is None)]
    direct = nested = 0
    bad = []
    # path sensitive: on EVERY path to a `return <field>` the key matched the field's own name (and the value's list-ness agrees), or it
    # matched the wrapper and the value is a dict that contains the own name (and the nested value's list-ness agrees)
    for r in rets:
        paths = path_conditions(fv, r)
        if not paths:
            bad.append(["<too many paths>"])
        for conds in paths:
            true_t = set().union(*[txts for txts, pol, _ in conds if pol] or [set()])
            false_t = set().union(*[txts for txts, pol, _ in conds if not pol] or [set()])
            eq = lambda a, b: ({f"{a}=={b}", f"{b}=={a}"} & true_t) or ({f"{a}!={b}", f"{b}!={a}"} & false_t)  # noqa: E731
            arity_direct = any(t.count("==") == 1 and "collections.is_array(_)" in t and "_.list_elementor_.tokens" in t for t in true_t)
            arity_nested = any(t.count("==") == 1 and "collections.is_array(_[_.local_name])" in t and "_.list_elementor_.tokens" in t for t in true_t)
            if eq("_.local_name", "_") and arity_direct:
                direct += 1
            elif eq("_.wrapper", "_") and "isinstance(_,dict)" in true_t and "_.local_namein_" in true_t and arity_nested:
                nested += 1
            else:
                bad.append(sorted(true_t)[:6])
    ctx.ob("find_var returns a field only for key == var.local_name, or key == var.wrapper with var.local_name nested inside a dict, and only when list-ness of the value agrees with the field",
           direct >= 1 and nested >= 1 and not bad, at=fv, construct="decoder keys", msg=f"decoder matches other attributes than the encoder emits, or ignores arity: {bad[:1]}")
    bd = ctx.repo.func(f"{PAR}:DictDecoder.bind_dataclass")
    # the statement that reads value[var.local_name] (stored to a local, or passed straight on as an argument)
    unwrap = [st for st in ordered_stmts(bd.node) if not isinstance(st, (ast.If, ast.For, ast.While, ast.Try, ast.With, ast.FunctionDef))
              and any(isinstance(v, ast.Subscript) and isinstance(v.ctx, ast.Load) and L(bd, v.slice) == "_.local_name" for v in walk_no_nested(st))]
    ok = len(unwrap) == 1 and {"_.wrapper"} <= dep_texts(bd, unwrap[0], True) and bool({"_==_.wrapper", "_.wrapper==_"} & dep_texts(bd, unwrap[0], True))
    ctx.ob("bind_dataclass unwraps value[var.local_name] exactly for wrapped fields matched by their wrapper key", ok, at=bd, construct="decoder unwrap", msg="wrapped values bound with their wrapper dict")
    fvc = [c for c in calls_in(bd.node) if call_name_of(c) == "find_var"]
    ctx.ob("bind_dataclass looks keys up in meta.get_all_vars()", bool(fvc) and all(c.args and X(bd, c.args[0]).endswith(".get_all_vars()") for c in fvc), at=bd, construct="decoder vars", msg="decoder consults another var list than the encoder")


@rule("C04.R3")
def generic_key_sets(ctx: Ctx) -> None:
    """The key sets that identify generic / derived elements come from the generic classes' own fields on both sides."""
    ct = ctx.repo.cls("xsdata.formats.dataclass.compat:ClassType")
    for name, attr in (("any_keys", "any_element"), ("derived_keys", "derived_element")):
        m = ct.methods.get(name)
        ok = False
        if m is not None:
            body = [n for n in walk_no_nested(m.node)]
            lits = [n for n in body if isinstance(n, ast.Constant) and isinstance(n.value, str) and n is not getattr(m.node.body[0], "value", None)]
            ok = any(isinstance(c, ast.Call) and call_name_of(c) == "get_fields" and c.args and unparse(c.args[0]) == f"self.{attr}" for c in body) and not lits
        ctx.ob(f"ClassType.{name} is computed from the fields of self.{attr} (no literal key list)", ok, at=m or ct.methods["score_object"], construct=name, msg="a literal key list can drift from the class the encoder walks")
    bv = ctx.repo.func(f"{PAR}:DictDecoder.bind_value")
    for keys_attr, target in (("any_keys", "bind_dataclass"), ("derived_keys", "bind_derived_value")):
        sites = [n for n in build_cfg(bv.node).stmts() if n.kind == "stmt" and any(call_name_of(c) == target and isinstance(c.func, ast.Attribute) and unparse(c.func.value) == "self" for c in node_calls(n))]
        ok = bool(sites) and all(any(pol and t.endswith(f"self.context.class_type.{keys_attr}") and ".keys()" in t and "==" in t for t, pol, _ in control_deps(bv, n)) for n in sites)
        ctx.ob(f"bind_value sends a dict to {target} exactly when its key set equals class_type.{keys_attr}", ok, at=bv, construct=f"generic detection {keys_attr}", msg="generic detection changed")
    bd = ctx.repo.func(f"{PAR}:DictDecoder.bind_dataclass")
    sites = [n for n in build_cfg(bd.node).returns() if isinstance(n.ast.value, ast.Call) and call_name_of(n.ast.value) == "bind_derived_dataclass"]
    ok = bool(sites) and all(any(pol and t.endswith("self.context.class_type.derived_keys") and ".keys()" in t and "==" in t for t, pol, _ in control_deps(bd, n)) for n in sites)
    ctx.ob("bind_dataclass recognises a derived wrapper by its exact key set", ok, at=bd, construct="derived detection", msg="derived detection changed")
    for q in (f"{PAR}:DictDecoder.bind_derived_value", f"{PAR}:DictDecoder.bind_derived_dataclass"):
        fi = ctx.repo.func(q)
        read = {n.slice.value for n in walk_no_nested(fi.node) if isinstance(n, ast.Subscript) and isinstance(n.ctx, ast.Load) and isinstance(n.slice, ast.Constant) and isinstance(n.slice.value, str) and unparse(n.value) == "data"}
        ders = names_from_attr(fi.node, "derived_element")
        gen = [c for c in calls_in(fi.node) if isinstance(c.func, ast.Name) and c.func.id in ders or unparse(c.func).endswith(".derived_element")]
        kws = {k.arg for c in gen for k in c.keywords}
        ctx.ob(f"{q.split(':')[1]} reads and rebuilds exactly the DerivedElement fields", read == {"qname", "type", "value"} and kws == {"qname", "type", "value"}, at=fi, construct="derived fields", msg=f"reads {sorted(read)}, keywords {sorted(kws)}")


def names_from_attr(fn: ast.AST, attr: str) -> set[str]:
    """Locals assigned from an expression ending in ``.attr``."""
    return {tgt.id for _, tgt, v in stores(fn) if isinstance(tgt, ast.Name) and isinstance(v, ast.Attribute) and v.attr == attr}


@rule("C04.R6")
def exact_type_choice_lookup(ctx: Ctx) -> None:
    """Choice lookup by value compares exact types (type(value) in element.types), never isinstance / issubclass for primitives."""
    fp = ctx.repo.func(f"{EL}:XmlVar.find_primitive_choice")
    bad = [c for c in calls_in(fp.node) if isinstance(c.func, ast.Name) and c.func.id in ("isinstance", "issubclass")]
    ctx.ob("find_primitive_choice uses no isinstance / issubclass (bool is an int, an IntEnum is an int ...)", not bad, at=fp, node=bad[0] if bad else None, construct="primitive exact type",
           msg="a bool value matches an int choice declared first: JSON true decodes as the string 'true' with a warning instead of True")
    g = build_cfg(fp.node)
    rets = [r for r in g.returns() if r.ast.value is not None and not (isinstance(r.ast.value, ast.Constant) and r.ast.value.value is None)]
    # `for choice in ...: if <accept>: break / else: choice = None / return choice`: the decision to return a choice is taken at the break
    sites_ = []
    for r in rets:
        v_ = r.ast.value
        loops_ = [n for n in g.nodes if n.kind == "for" and isinstance(n.ast.target, ast.Name) and isinstance(v_, ast.Name) and n.ast.target.id == v_.id
                  and not any(x is r.ast for x in ast.walk(n.ast))]
        brk = [n for lp in loops_ for n in g.stmts() if isinstance(n.ast, ast.Break) and any(x is n.ast for x in ast.walk(lp.ast))]
        sites_ += brk if brk else [r]
    rets = sites_
    def _membership(fi, t):
        """(left alternatives, comparator text) of an `x in y` test with temporaries expanded at the test."""
        e = t.ast
        if isinstance(e, ast.Compare) and len(e.ops) == 1 and isinstance(e.ops[0], ast.In):
            right = expand_at(fi, t, e.comparators[0])
            return [leaf for leaf, _ in flows(fi, t, e.left)], L(fi, right)
        return None

    member = [(t, _membership(fp, t)) for t in g.nodes if t.kind == "test"]
    exact = [t for t, m in member if m is not None and m[1] == "_.types" and all(isinstance(v, ast.Call) and call_name_of(v) == "type" for v in m[0])]
    # the return is taken when the exact-type membership holds: a necessary condition of the return, or one of the alternatives of an `or`
    # (the same iteration: loop headers are not crossed; the decision may be carried by the result slot of an inlined predicate)
    heads = [n.id for n in g.nodes if n.kind == "for"]
    ok = bool(exact) and any(r.id in g.reachable([m for m, lab in g.succ[t.id] if lab == "true"], blocked=heads) for r in rets for t in exact)
    ctx.ob("find_primitive_choice returns a choice when type(value) (or of the first token) is a member of element.types", ok, at=fp, construct="primitive type membership", msg="exact type shortcut changed")
    skip_ok = bool(rets) and all({"_.any_type", "_.clazz"} <= dep_texts(fp, r, False) for r in rets)
    tok_ok = bool(rets) and all(any(("_.tokens" in t and "!=" in t and not pol) or ("_.tokens" in t and "==" in t and "!=" not in t and pol) for t, pol, _ in control_deps(fp, r)) for r in rets)
    ctx.ob("find_primitive_choice skips any-type / model / token-mismatched choices and falls back to converter.test", skip_ok and tok_ok and any(_calls_named(f_.node, "test") for f_ in family(ctx.repo, fp)), at=fp,
           construct="primitive fallback", msg="choice filtering changed")
    fc = ctx.repo.func(f"{EL}:XmlVar.find_clazz_choice")
    g = build_cfg(fc.node)
    sub_t = [t for t in g.nodes if t.kind == "test" and any(isinstance(c, ast.Call) and call_name_of(c) == "issubclass" for c in ast.walk(t.ast))]
    ex_t = [t for t in g.nodes if t.kind == "test" and (m := _membership(fc, t)) is not None and m[1] == "_.types"]
    rets = [r for r in g.returns()]
    early = [r for r in rets if any(g.only_if(r.id, t.id, True) for t in sub_t)]
    ok = bool(ex_t) and any(g.only_if(r.id, t.id, True) for r in rets for t in ex_t) and not early
    ctx.ob("find_clazz_choice returns at once only on an exact class match; a choice the class merely derives from is remembered and returned after all choices were seen", ok, at=fc, construct="clazz choice",
           msg="a subclass instance could be bound to a base-class choice although its own class is a choice")
    fv = ctx.repo.func(f"{EL}:XmlVar.find_value_choice")
    called = {call_name_of(c): c for c in calls_in(fv.node)}
    ok = {"find_nillable_choice", "find_clazz_choice", "find_primitive_choice"} <= set(called) and X(fv, called["find_clazz_choice"].args[0] if called["find_clazz_choice"].args else None) == "type(_)"
    ctx.ob("find_value_choice dispatches None/empty -> nillable choice, models -> clazz choice (by type(value)), else primitive choice", ok, at=fv, construct="value choice dispatch", msg="dispatch changed")
    bt = ctx.repo.func(f"{PAR}:DictDecoder.bind_text")
    fvc = [c for c in calls_in(bt.node) if call_name_of(c) == "find_value_choice"]
    ok = bool(fvc) and all(len(c.args) == 2 and X(bt, c.args[1]) == "self.context.class_type.is_model(_)" and unparse(c.args[0]) == "value" for c in fvc)
    ctx.ob("DictDecoder.bind_text resolves compound fields through find_value_choice(value, is_model(value))", ok, at=bt, construct="decoder choice lookup",
           msg="compound values decoded against another choice than the one the encoder used")


share("C03", "C03.R12", exact_type_choice_lookup)  # which element name / xsi:type marker a compound value is written with


@rule("C04.R7")
def nillable_choice_only_for_none_or_empty_tokens(ctx: Ctx) -> None:
    """find_value_choice sends a value to the nillable-choice lookup only if it is None, or an empty token list - never because it is merely falsy."""
    fv = ctx.repo.func(f"{EL}:XmlVar.find_value_choice")
    g = build_cfg(fv.node)
    nil = [n for n in g.stmts() if any(call_name_of(c) == "find_nillable_choice" for c in node_calls(n))]
    ok = len(nil) == 1
    if ok:
        tab = reach_table(fv, nil[0], [{"value is None": True}, {"collections.is_array(value)": True}], raw=True)
        if tab is None:
            ctx.abstain("nillable dispatch of find_value_choice", at=fv)
            return
        # (truthiness of the value stays open: the lookup must not become reachable through it alone)
        ok = not tab[(False, False)] and tab[(True, True)] and tab[(True, False)]
    ctx.ob("find_value_choice: the nillable lookup is unreachable for a value that is neither None nor a token list", ok, at=fv, construct="nillable dispatch",
           msg="falsy primitives (0, 0.0, False, '') are sent to the nillable choice: JSON 0 in a compound field fails to bind or is bound to another choice")


@rule("C04.R8")
def derived_type_entry_takes_precedence(ctx: Ctx) -> None:
    """bind_derived_value honours the derived element's explicit `type` entry before guessing the class structurally from the field's class."""
    fi = ctx.repo.func(f"{PAR}:DictDecoder.bind_derived_value")
    g = build_cfg(fi.node)
    xt = tests_like(fi, "_['type']")
    guess = [n for n in g.stmts() if any(call_name_of(c) in ("bind_complex_type", "bind_best_dataclass") for c in node_calls(n))]
    exact = [n for n in g.stmts() if any(unparse(c.func) == "self.context.find_type" for c in node_calls(n))]
    ok = len(xt) >= 1 and bool(guess) and bool(exact) and all(any(g.only_if(n.id, t.id, False) for t in xt) for n in guess) and all(any(g.only_if(n.id, t.id, True) for t in xt) for n in exact)
    ctx.ob("bind_derived_value: structural guessing (bind_complex_type / bind_best_dataclass) happens only when the derived element carries no type", ok, at=fi, construct="derived type precedence",
           msg="the explicit type of a DerivedElement is ignored when the field has a model class: a sibling class with a compatible key set wins and the decoded object is unequal")
    nd = tests_like(fi, "isinstance(_['value'], dict)")
    txt = [n for n in g.stmts() if any(call_name_of(c) == "bind_text" for c in node_calls(n))]
    ctx.ob("bind_derived_value: non-dict values are bound as text before any class lookup", len(nd) >= 1 and bool(txt) and all(any(g.only_if(n.id, t.id, False) for t in nd) for n in txt), at=fi, construct="derived text first", msg="dispatch order changed")


@rule("C04.R9")
def candidate_score_counts_falsy_values(ctx: Ctx) -> None:
    """ClassType.score_object (which candidate class a union / base-typed value is decoded into) gives a typed non-None value its full
    weight whether or not it is truthy: 0, 0.0 and False are values, not absences."""
    from ..q import callable_info

    so = ctx.repo.func("xsdata.formats.dataclass.compat:ClassType.score_object")
    scorers = [so] + [ci[0] for n in ast.walk(so.node) if isinstance(n, ast.FunctionDef) and n is not so.node for ci in [callable_info(ctx.repo, so, ast.Name(id=n.name, ctx=ast.Load()))] if ci]
    done = 0
    for fi in scorers:
        g = build_cfg(fi.node)
        consts = [(r, r.ast.value.value) for r in g.returns() if isinstance(r.ast.value, ast.Constant) and isinstance(r.ast.value.value, (int, float)) and not isinstance(r.ast.value.value, bool)]
        params = [a.arg for a in fi.node.args.args if a.arg not in ("self", "cls")]
        if len(consts) < 2 or len(params) != 1:
            continue
        p = params[0]
        top = max(v for _, v in consts)
        for r, v in consts:
            if v != top:
                continue
            tab = reach_table(fi, r, [{f"{p} is not None": True, f"{p} is None": False}, {p: True}], raw=True)
            if tab is None:
                ctx.abstain(f"weight guard of {fi.name}", at=fi)
            else:
                bad = sorted(k for k, val in tab.items() if val != k[0])
                ctx.ob(f"{fi.name}: the full weight {top} is given exactly to non-None values (falsy ones included)", not bad, at=so, node=r.ast, construct="score of falsy values",
                       msg=f"(is not None, is truthy) rows that differ: {bad}: Measure(value=0) scores below Label(value='0'), so 0 / 0.0 / False decode into the wrong class")
            done += 1
    if not done:
        ctx.abstain("per-value scorer of score_object", at=so)
