"""C04 - JSON / dictionary round-trip (structural clauses)."""

from __future__ import annotations

import ast

from ..cfg import build_cfg, calls_in, node_calls
from ..core import Ctx, property_info, rule, share
from ..model import AnalysisError, FuncInfo, walk_no_nested
from ..q import A, asrc, is_self_attr, kwarg, stores, unparse
from .c10 import flag_liveness_and_overrides
from .c15 import shape_validation

SER = "xsdata.formats.dataclass.serializers.dict"
PAR = "xsdata.formats.dataclass.parsers.dict"
EL = "xsdata.formats.dataclass.models.elements"

property_info(
    "C04",
    explanation="Decides encoder/decoder agreement: every return of DictEncoder.encode is a JSON-native shape; the attributes used to name a value when "
    "encoding are exactly those the decoder matches keys against (including wrapper nesting); generic key sets come from the generic classes' fields; "
    "choice lookup by value uses exact types; candidate classes are tried with strict conversion; decoded values are shape-checked before typed use.",
    decides="return-shape analysis of the encoder, key-vocabulary agreement, exact-type choice lookup, strict candidate configs, dict-shape guards",
    not_decided="equality after decode for all instances; outcome of best-class scoring for all data",
)

share("C04", "C04.R4", shape_validation)
share("C04", "C04.R5", flag_liveness_and_overrides)

JSON_NATIVE = "(dict, int, float, str, bool)"


@rule("C04.R1")
def encoder_return_shapes(ctx: Ctx) -> None:
    """Every return of DictEncoder.encode is None, a list/dict, a recursive encode, a JSON-native value, or a converter string."""
    fi = ctx.repo.func(f"{SER}:DictEncoder.encode")
    g = build_cfg(fi.node)
    rets = g.returns()
    ctx.floor("returns of DictEncoder.encode", len(rets), 8)
    for r in rets:
        v = r.ast.value
        txt = unparse(v)
        kind = None
        if isinstance(v, ast.Constant) and v.value is None:
            kind = "None"
        elif isinstance(v, ast.Call):
            f = unparse(v.func)
            if f == "list":
                kind = "list"
            elif f == "self.dict_factory":
                kind = "dict"
            elif f == "self.encode":
                kind = "recursive"
            elif f == "type(value)":
                kind = "array of encoded items" if any("self.encode" in unparse(a) for a in v.args) else None
            elif f == "converter.serialize":
                kind = "converter string" if unparse(kwarg(v, "format") or ast.Constant(0)) == "var.format" else None
        elif isinstance(v, ast.Name) and v.id == "value":
            tests = [t for t in g.nodes if t.kind == "test" and isinstance(t.ast, ast.Call) and unparse(t.ast.func) == "isinstance" and unparse(t.ast.args[0]) == "value"
                     and unparse(t.ast.args[1]) == JSON_NATIVE]
            kind = "json-native value" if tests and g.only_if(r.id, tests[0].id, True) else None
        ctx.ob(f"encode returns a JSON-native shape: {txt[:60]}", kind is not None, at=fi, node=r.ast, construct=f"return {txt[:60]}",
               msg="this return can hand an arbitrary Python object (Enum, Decimal, QName, date ...) to the JSON dumper")
    # enums are unwrapped to their value before conversion
    en = [t for t in g.nodes if t.kind == "test" and A(unparse(t.ast)) == A("isinstance(value, Enum)")]
    rr = [r for r in rets if isinstance(r.ast.value, ast.Call) and unparse(r.ast.value.func) == "self.encode" and unparse(r.ast.value.args[0]) == "value.value"]
    ctx.ob("enum members are encoded through their value", bool(en) and bool(rr) and g.only_if(rr[0].id, en[0].id, True), at=fi, construct="enum unwrap", msg="enum members reach the dumper")
    # models are walked through next_value with the configured dict factory
    md = [r for r in rets if unparse(r.ast.value) == "self.dict_factory(self.next_value(value))"]
    ctx.ob("models are encoded as dict_factory(next_value(model))", len(md) >= 2, at=fi, construct="model encoding", msg="model encoding changed")
    fn = ctx.repo.func(f"{SER}:filter_none")
    ctx.ob("filter_none drops exactly the None values", A("return{_:_for_,_in_if_isnotNone}") in asrc(fn), at=fn, construct="filter_none", msg="the None-filtering factory drops or keeps other values")
    js = ctx.repo.func("xsdata.formats.dataclass.serializers.json:JsonSerializer.write")
    ctx.ob("JsonSerializer.write dumps encode(obj)", A("self.dump_factory(self.encode(_),_,indent=self.config.indent)") in asrc(js), at=js, construct="json dump", msg="json output not the encoded form")


@rule("C04.R2")
def key_agreement(ctx: Ctx) -> None:
    """The names the encoder emits (wrapper, then local_name) are the ones the decoder matches keys against."""
    nv = ctx.repo.func(f"{SER}:DictEncoder.next_value")
    ys = [y.value for y in walk_no_nested(nv.node) if isinstance(y, ast.Yield) and isinstance(y.value, ast.Tuple)]
    keys = sorted(unparse(y.elts[0]) for y in ys)
    ctx.ob("next_value names a value by var.wrapper or else var.local_name", keys == ["var.local_name", "var.wrapper"], at=nv, construct="encoder keys", msg=f"encoder keys are {keys}")
    g = build_cfg(nv.node)
    wt = [t for t in g.nodes if t.kind == "test" and unparse(t.ast) == "var.wrapper"]
    for y in ys:
        n = g.node_of(y)
        if unparse(y.elts[0]) == "var.wrapper":
            ctx.ob("the wrapper key is used exactly when the field has a wrapper", bool(wt) and n is not None and g.only_if(n.id, wt[0].id, True), at=nv, node=y, msg="wrapper key unguarded")
        ctx.ob(f"the value under {unparse(y.elts[0])} is encode(value, var)", unparse(y.elts[1]) == "self.encode(value, var)", at=nv, node=y, msg="value encoded without its field metadata")
    ctx.ob("next_value walks meta.get_all_vars() of the object's class", A("for_in_.get_all_vars():") in asrc(nv) and A("_=getattr(_,_.name)") in asrc(nv), at=nv, construct="all vars", msg="a kind of field is not encoded")
    enc = ctx.repo.func(f"{SER}:DictEncoder.encode")
    ctx.ob("a wrapped value is nested under var.local_name", A("returnself.dict_factory(((_.local_name,self.encode(_,_,True)),))") in asrc(enc), at=enc, construct="wrapper nesting", msg="wrapper nesting changed")
    fv = ctx.repo.func(f"{PAR}:DictDecoder.find_var")
    a = asrc(fv)
    ctx.ob("find_var matches a key against var.local_name, or against var.wrapper with var.local_name nested inside", A("if_.local_name==_:") in a and A("elif_.wrapper==_:") in a and A("ifisinstance(_,dict)and_.local_namein_:") in a
           and A("_=_[_.local_name]") in a, at=fv, construct="decoder keys", msg="decoder matches other attributes than the encoder emits")
    ctx.ob("find_var requires list-ness of the value to agree with the field (list_element or tokens)", a.count(A("_=_.list_elementor_.tokens")) >= 2 and a.count(A("if_==_:;return_")) >= 2, at=fv, construct="list agreement",
           msg="a scalar could be bound to a list field or vice versa")
    bd = ctx.repo.func(f"{PAR}:DictDecoder.bind_dataclass")
    ctx.ob("bind_dataclass unwraps value[var.local_name] for wrapped fields before binding", A("if_.wrapperand_==_.wrapper:;_=_[_.local_name]") in asrc(bd), at=bd, construct="decoder unwrap", msg="wrapped values bound with their wrapper dict")
    ctx.ob("bind_dataclass looks keys up in meta.get_all_vars()", A("_=_.get_all_vars()") in asrc(bd), at=bd, construct="decoder vars", msg="decoder consults another var list than the encoder")


@rule("C04.R3")
def generic_key_sets(ctx: Ctx) -> None:
    """The key sets that identify generic / derived elements come from the generic classes' own fields on both sides."""
    ct = ctx.repo.cls("xsdata.formats.dataclass.compat:ClassType")
    for name, attr in (("any_keys", "any_element"), ("derived_keys", "derived_element")):
        m = ct.methods.get(name)
        ok = m is not None and A(f"return{{_.namefor_inself.get_fields(self.{attr})}}") in asrc(m)
        ctx.ob(f"ClassType.{name} = field names of self.{attr}", ok, at=m or ct.methods["score_object"], construct=name, msg="a literal key list can drift from the class the encoder walks")
    bv = ctx.repo.func(f"{PAR}:DictDecoder.bind_value")
    a = asrc(bv)
    ctx.ob("bind_value recognises generic / derived elements by comparing the key set with class_type.any_keys / derived_keys", A("if_==self.context.class_type.any_keys:") in a and A("if_==self.context.class_type.derived_keys:") in a,
           at=bv, construct="generic detection", msg="generic detection changed")
    bd = ctx.repo.func(f"{PAR}:DictDecoder.bind_dataclass")
    ctx.ob("bind_dataclass recognises a derived wrapper by its exact key set", A("ifset(_.keys())==self.context.class_type.derived_keys:") in asrc(bd), at=bd, construct="derived detection", msg="derived detection changed")
    for q in (f"{PAR}:DictDecoder.bind_derived_value", f"{PAR}:DictDecoder.bind_derived_dataclass"):
        fi = ctx.repo.func(q)
        a = asrc(fi)
        ok = all(A(f"_=_['{k}']") in a for k in ("qname", "type", "value"))
        gen = [c for c in calls_in(fi.node) if isinstance(c.func, ast.Name) and c.func.id == "generic"]
        kws = {k.arg for c in gen for k in c.keywords}
        ctx.ob(f"{q.split(':')[1]} reads and rebuilds exactly the DerivedElement fields", ok and kws == {"qname", "type", "value"}, at=fi, construct="derived fields", msg=f"keywords {sorted(kws)}")


@rule("C04.R6")
def exact_type_choice_lookup(ctx: Ctx) -> None:
    """Choice lookup by value compares exact types (type(value) in element.types), never isinstance / issubclass for primitives."""
    fp = ctx.repo.func(f"{EL}:XmlVar.find_primitive_choice")
    bad = [c for c in calls_in(fp.node) if isinstance(c.func, ast.Name) and c.func.id in ("isinstance", "issubclass")]
    ctx.ob("find_primitive_choice uses no isinstance / issubclass (bool is an int, an IntEnum is an int ...)", not bad, at=fp, node=bad[0] if bad else None, construct="primitive exact type",
           msg="a bool value matches an int choice declared first: JSON true decodes as the string 'true' with a warning instead of True")
    a = asrc(fp)
    ctx.ob("find_primitive_choice matches type(value) (or of the first token) against element.types exactly", A("_=type(_)ifnot_elsetype(_[0])") in a and A("if_in_.types:;return_") in a, at=fp,
           construct="primitive type membership", msg="exact type shortcut changed")
    ctx.ob("find_primitive_choice skips any-type / model / token-mismatched choices and falls back to converter.test", A("if(_.any_typeor_.clazz)or_.tokens!=_:;continue") in a and "converter.test(" in a, at=fp,
           construct="primitive fallback", msg="choice filtering changed")
    fc = ctx.repo.func(f"{EL}:XmlVar.find_clazz_choice")
    a = asrc(fc)
    ctx.ob("find_clazz_choice prefers the exact class and only then the first choice the class derives from", A("if_in_.types:;return_") in a and A("if_isNoneandany((issubclass(_,_)for_in_.types)):;_=_") in a and a.rstrip().endswith("return_"),
           at=fc, construct="clazz choice", msg="a subclass instance could be bound to a base-class choice although its own class is a choice")
    fv = ctx.repo.func(f"{EL}:XmlVar.find_value_choice")
    a = asrc(fv)
    ctx.ob("find_value_choice dispatches None/empty -> nillable choice, models -> clazz choice, else primitive choice", A("returnself.find_nillable_choice(_)") in a and A("returnself.find_clazz_choice(type(_))") in a
           and A("returnself.find_primitive_choice(_,_)") in a, at=fv, construct="value choice dispatch", msg="dispatch changed")
    bt = ctx.repo.func(f"{PAR}:DictDecoder.bind_text")
    ctx.ob("DictDecoder.bind_text resolves compound fields through find_value_choice(value, is_model(value))", A("_=self.context.class_type.is_model(_);_=_.find_value_choice(_,_)") in asrc(bt), at=bt, construct="decoder choice lookup",
           msg="compound values decoded against another choice than the one the encoder used")


share("C03", "C03.R12", exact_type_choice_lookup)  # which element name / xsi:type marker a compound value is written with


@rule("C04.R7")
def nillable_choice_only_for_none_or_empty_tokens(ctx: Ctx) -> None:
    """find_value_choice sends a value to the nillable-choice lookup only if it is None, or an empty token list - never because it is merely falsy."""
    fv = ctx.repo.func(f"{EL}:XmlVar.find_value_choice")
    g = build_cfg(fv.node)
    nil = [n for n in g.stmts() if any(unparse(c.func) == "self.find_nillable_choice" for c in node_calls(n))]
    none_t = [t for t in g.nodes if t.kind == "test" and A(unparse(t.ast)) == A("value is None")]
    tok_t = [t for t in g.nodes if t.kind == "test" and unparse(t.ast) == "is_tokens"]
    ok = len(nil) == 1 and len(none_t) == 1 and bool(tok_t)
    if ok:
        blocked = [(none_t[0].id, m, lab) for m, lab in g.succ[none_t[0].id] if lab == "true"] + [(t.id, m, lab) for t in tok_t for m, lab in g.succ[t.id] if lab == "true"]
        ok = nil[0].id not in g.reachable([g.entry], blocked_edges=blocked)
    ctx.ob("find_value_choice: the nillable lookup is unreachable for a value that is neither None nor a token list", ok, at=fv, construct="nillable dispatch",
           msg="falsy primitives (0, 0.0, False, '') are sent to the nillable choice: JSON 0 in a compound field fails to bind or is bound to another choice")
    tk = [st for st, tgt, v in stores(fv.node) if unparse(tgt) == "is_tokens"]
    ctx.ob("is_tokens = collections.is_array(value)", len(tk) == 1 and A(unparse(tk[0].value)) == A("collections.is_array(value)"), at=fv, construct="is_tokens", msg="token test changed")


@rule("C04.R8")
def derived_type_entry_takes_precedence(ctx: Ctx) -> None:
    """bind_derived_value honours the derived element's explicit `type` entry before guessing the class structurally from the field's class."""
    fi = ctx.repo.func(f"{PAR}:DictDecoder.bind_derived_value")
    g = build_cfg(fi.node)
    xt = [t for t in g.nodes if t.kind == "test" and unparse(t.ast) == "xsi_type"]
    guess = [n for n in g.stmts() if any(unparse(c.func) in ("self.bind_complex_type", "self.bind_best_dataclass") for c in node_calls(n))]
    exact = [n for n in g.stmts() if any(unparse(c.func) == "self.context.find_type" for c in node_calls(n))]
    ok = len(xt) == 1 and bool(guess) and bool(exact) and all(g.only_if(n.id, xt[0].id, False) for n in guess) and all(g.only_if(n.id, xt[0].id, True) for n in exact)
    ctx.ob("bind_derived_value: structural guessing (bind_complex_type / bind_best_dataclass) happens only when the derived element carries no type", ok, at=fi, construct="derived type precedence",
           msg="the explicit type of a DerivedElement is ignored when the field has a model class: a sibling class with a compatible key set wins and the decoded object is unequal")
    nd = [t for t in g.nodes if t.kind == "test" and A(unparse(t.ast)) == A("isinstance(params, dict)")]
    txt = [n for n in g.stmts() if any(unparse(c.func) == "self.bind_text" for c in node_calls(n))]
    ctx.ob("bind_derived_value: non-dict values are bound as text before any class lookup", len(nd) == 1 and bool(txt) and all(g.only_if(n.id, nd[0].id, False) for n in txt), at=fi, construct="derived text first", msg="dispatch order changed")
