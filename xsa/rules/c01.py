"""C01 - XML round-trip (writer/reader agreement clauses)."""

from __future__ import annotations

import ast

from ..cfg import build_cfg, calls_in, node_calls
from ..core import Ctx, property_info, rule, share
from ..model import AnalysisError, FuncInfo, walk_no_nested
from ..q import X, A, Dispatch, L, family, passes, value_texts, call_param, leaf_conditions, arg_forms, asrc, call_name_of, flows, func_text, leaves_at, names_from_calls, node_containing, raw_forms, reach_table, cmp_atom, return_values, bound_arg, enum_members, is_self_attr, kwarg, stores, unparse
from .c03 import declare_before_use, event_grammar, writer_typestate

M = "xsdata.formats.dataclass.models"
SER = "xsdata.formats.dataclass.serializers.mixins"
PAR = "xsdata.formats.dataclass.parsers"

property_info(
    "C01",
    explanation="Decides writer/reader agreement, a necessary condition of any round trip: every field kind has a builder, a metadata bucket, "
    "a serializer iteration and a parser lookup; both directions pass the same conversion parameters (format, ns_map, types, tokens factory, "
    "default); the event stream is balanced; xsi:nil / xsi:type markers written are exactly those read; wrapper elements are bracketed by the "
    "attribute the reader indexes.",
    decides="kind totality over XmlType, conversion-parameter agreement, marker and wrapper symmetry, event grammar",
    not_decided="equality of the reparsed object for all models x instances x configurations (depends on converter values and XML libraries)",
)

share("C01", "C01.R3", event_grammar)
share("C01", "C01.R6", declare_before_use)
share("C01", "C01.R9", writer_typestate)  # text / tail state machine of the writer: mixed content cannot round-trip if tail state leaks between elements  # a QName value whose prefix is declared too late cannot be read back


def _true_flag_stores(nodes) -> set[str]:
    out: set[str] = set()
    for n in nodes:
        st = n.ast
        if n.kind == "stmt" and isinstance(st, ast.Assign) and isinstance(st.value, ast.Constant) and st.value.value is True:
            out |= {t.attr for t in st.targets if is_self_attr(t)}
    return out


def _kind_chain(ctx: Ctx) -> tuple[dict[str, str], str | None]:
    """XmlVar.__init__ partially evaluated per xml_type constant: constant -> the kind flag set to True; flag of the default.

    Conditions that do not test xml_type (a field typed with a model is always an element) stay open, so the flag they select is reachable
    under every constant; a flag reachable under several constants is discounted wherever a constant also selects a flag of its own."""
    init = ctx.repo.func(f"{M}.elements:XmlVar.__init__")
    d = Dispatch(init.node, is_subject=lambda e: unparse(e) == "xml_type")
    def computed(key) -> set[str]:
        """Flags stored from a boolean expression (`self.is_attribute = not is_node and xml_type == XmlType.ATTRIBUTE`) that is true under
        the key when no side condition holds."""
        out = set()
        for n in d.g.stmts():
            st = n.ast
            if n.kind == "stmt" and isinstance(st, ast.Assign) and not isinstance(st.value, ast.Constant):
                for t in st.targets:
                    if is_self_attr(t) and t.attr.startswith("is_") and d.truth_under(init, key, n, st.value, depth=8, unknown=False) is True:
                        out.add(t.attr)
        return out

    fl = {key: _true_flag_stores(d.under(key)) | computed(key) for key in sorted(d.keys) if key.startswith("XmlType.")}
    ef = _true_flag_stores(d.under(None)) | computed(None)
    every = [ef, *fl.values()]
    common = {f for f in set().union(*every) if sum(1 for x in every if f in x) > 1}

    def pick(flags: set[str]) -> str | None:
        own = flags - common
        if len(own) == 1:
            return next(iter(own))
        if not own and len(flags) == 1:
            return next(iter(flags))
        return None

    out = {key.split(".", 1)[1]: pick(flags) or "?" for key, flags in fl.items()}
    return out, pick(ef)


def _meta_keyword_names(build: FuncInfo) -> dict[str, str]:
    """Local container name -> the XmlMeta(...) keyword it is passed as (through temporaries, tuple packing / unpacking, inlined helpers)."""
    meta_kw: dict[str, str] = {}
    gb_ = build_cfg(build.node)
    for c in calls_in(build.node):
        if unparse(c.func) == "XmlMeta":
            cn = node_containing(gb_, c)
            for k in c.keywords:
                for leaf, chain in (flows(build, cn, k.value) if cn is not None else []):
                    if isinstance(leaf, ast.Name):
                        meta_kw[leaf.id] = k.arg
                    for dn in chain:
                        st_ = dn.ast
                        tg_ = st_.targets if isinstance(st_, ast.Assign) else ([st_.target] if isinstance(st_, ast.AnnAssign) else [])
                        for t_ in tg_:
                            if isinstance(t_, ast.Name):
                                meta_kw.setdefault(t_.id, k.arg)
                meta_kw.setdefault(unparse(k.value), k.arg)
    return meta_kw


def _meta_keywords_family(ctx: Ctx, build: FuncInfo) -> dict[str, str]:
    """``_meta_keyword_names`` plus keywords handed over as ``**mapping``: a dict display ``{"attributes": attributes, ...}`` written in place
    or returned by a helper of the family (the classification moved into a helper that returns the keyword arguments)."""
    out = dict(_meta_keyword_names(build))
    fam = family(ctx.repo, build)
    gb_ = build_cfg(build.node)
    for c in calls_in(build.node):
        if unparse(c.func) != "XmlMeta":
            continue
        for k in c.keywords:
            if k.arg is not None:
                continue
            sources: list[tuple[FuncInfo, ast.AST, ast.expr]] = []
            for leaf in leaves_at(build, c, k.value):
                if isinstance(leaf, ast.Dict):
                    sources.append((build, c, leaf))
                elif isinstance(leaf, ast.Call):
                    for h in fam:
                        if h is not build and h.name == call_name_of(leaf):
                            gh = build_cfg(h.node)
                            for r in gh.returns():
                                for l2 in leaves_at(h, r, r.ast.value) if r.ast.value is not None else []:
                                    if isinstance(l2, ast.Dict):
                                        sources.append((h, r, l2))
            for h, where, d in sources:
                for dk, dv in zip(d.keys, d.values):
                    if isinstance(dk, ast.Constant) and isinstance(dk.value, str):
                        gh = build_cfg(h.node)
                        wn = where if not isinstance(where, ast.AST) else node_containing(gh, where)
                        for leaf, chain in (flows(h, wn, dv) if wn is not None else []):
                            if isinstance(leaf, ast.Name):
                                out[leaf.id] = dk.value
                            for dn in chain:
                                st_ = dn.ast
                                for t_ in (st_.targets if isinstance(st_, ast.Assign) else ([st_.target] if isinstance(st_, ast.AnnAssign) else [])):
                                    if isinstance(t_, ast.Name):
                                        out.setdefault(t_.id, dk.value)
                        out.setdefault(unparse(dv), dk.value)
    return out


@rule("C01.R1")
def kind_totality(ctx: Ctx) -> None:
    """Every XmlType constant has an evaluation, a flag, a metadata bucket, a serializer iteration and a parser lookup."""
    xt = ctx.repo.cls(f"{M}.elements:XmlType")
    kinds = set(enum_members(xt.node)) - {"IGNORE"}
    ctx.floor("XmlType kinds", len(kinds), 6)
    bmod = ctx.repo.module(f"{M}.builders")
    ev = bmod.globals.get("evaluations")
    if not isinstance(ev, ast.Dict):
        raise AnalysisError("C01.R1: builders.evaluations is not a dict literal")
    ev_keys = {k.attr for k in ev.keys if isinstance(k, ast.Attribute)}
    chain, else_flag = _kind_chain(ctx)
    flags = dict(chain)
    init_ = ctx.repo.func(f"{M}.elements:XmlVar.__init__")
    # the kind is decided on a local derived from xml_type (`kind = xml_type; if ...: kind = XmlType.ELEMENT; match kind`): the per-constant
    # partial evaluation on xml_type does not see through it
    derived = sorted({x.id for t in walk_no_nested(init_.node) if isinstance(t, ast.Compare) and len(t.ops) == 1 and isinstance(t.ops[0], (ast.Eq, ast.NotEq, ast.Is, ast.IsNot))
                      for a, b in ((t.left, t.comparators[0]), (t.comparators[0], t.left)) if unparse(a).startswith("XmlType.") for x in [b] if isinstance(x, ast.Name) and x.id != "xml_type"})
    if not derived and any(isinstance(c.func, ast.Name) and c.func.id == "setattr" and len(c.args) == 3 and unparse(c.args[0]) == "self" and not isinstance(c.args[1], ast.Constant)
                           for c in calls_in(init_.node)):
        derived = ["<flag name computed: setattr(self, flag, ...)>"]
    if derived:
        ctx.abstain(f"kind flags of XmlVar.__init__ (decided on the derived local {derived[0]})", at=init_)
    for k in sorted(kinds):
        ctx.ob(f"XmlType.{k} has an annotation evaluator", k in ev_keys, at=bmod, node=ev, construct=f"evaluations {k}", msg="KeyError at metadata build time")
        if derived:
            continue
        ctx.ob(f"XmlType.{k} selects exactly one kind flag in XmlVar.__init__", k in flags or (k == "TEXT" and else_flag == "is_text"), at=ctx.repo.func(f"{M}.elements:XmlVar.__init__"),
               construct=f"kind flag {k}", msg="field kind falls through to Text")
    if "TEXT" not in flags and else_flag:
        flags["TEXT"] = else_flag
    # bucket chain in XmlMetaBuilder.build
    build0 = ctx.repo.func(f"{M}.builders:XmlMetaBuilder.build")
    # the function that classifies the vars by kind flag: build itself, or the helper the loop was moved into
    def _nflags(f: FuncInfo) -> int:
        return len({x.attr for x in walk_no_nested(f.node) if isinstance(x, ast.Attribute) and x.attr.startswith("is_") and isinstance(x.value, ast.Name)})

    build = max(family(ctx.repo, build0), key=_nflags)
    buckets: dict[str, str] = {}

    def flag_of(t: ast.AST):
        if isinstance(t, ast.Attribute) and t.attr.startswith("is_") and L(build, t.value) == "_":
            return frozenset([t.attr]), True
        return None

    item_names = {x.id for lp in walk_no_nested(build.node) if isinstance(lp, ast.For) for x in ast.walk(lp.target) if isinstance(x, ast.Name)}

    def bucket_targets(nodes, key=None) -> set[str]:
        tg: set[str] = set()

        def resolve(n, base: ast.expr) -> set[str]:
            """The container a store / append goes into: the name itself, or - for a local that was bound to one of several containers
            (`bucket = choices`) - what it is bound to under this key."""
            if isinstance(base, ast.Name):
                vals = {v.id for v, _d in bd._defs_under(build, key, n, base) if isinstance(v, ast.Name)}  # one step: the container, not its initial value
                return vals or {base.id}
            return {unparse(base)}

        for n in nodes:
            if n.kind != "stmt" or n.ast is None:
                continue
            st = n.ast
            if isinstance(st, ast.Assign):
                t0 = st.targets[0]
                if isinstance(t0, ast.Subscript) and isinstance(st.value, ast.Name):
                    tg |= resolve(n, t0.value)
                elif isinstance(t0, ast.Name) and isinstance(st.value, ast.Name) and st.value.id in item_names:
                    tg.add(t0.id)  # `text = var`: the single-valued bucket
            for sub in ast.walk(st):
                if isinstance(sub, ast.Call) and isinstance(sub.func, ast.Attribute) and sub.func.attr == "append":
                    base = sub.func.value
                    tg |= resolve(n, base.value if isinstance(base, ast.Subscript) else base)
        return tg

    bd = Dispatch(build.node, classify=flag_of)
    common = bucket_targets(bd.under("is_none_of_them"), "is_none_of_them") & bucket_targets(bd.under(sorted(bd.keys)[0] if bd.keys else None), sorted(bd.keys)[0] if bd.keys else None)
    for flag in sorted(bd.keys):
        tg = bucket_targets(bd.under(flag), flag) - common
        buckets[flag] = next(iter(tg)) if len(tg) == 1 else (sorted(tg)[0] if tg else "?")
    else_t = bucket_targets(bd.under(None), None) - common
    if else_t:
        buckets.setdefault("is_text", sorted(else_t)[0])
    # keyword the bucket is passed as to XmlMeta(...)
    meta_kw = _meta_keywords_family(ctx, build0)
    for c in []:
        if unparse(c.func) == "XmlMeta":
            for k in c.keywords:
                # the container(s) that can flow into this keyword (through temporaries, tuple packing / unpacking, inlined helpers)
                gb_ = build_cfg(build.node)
                cn = node_containing(gb_, c)
                for leaf, chain in (flows(build, cn, k.value) if cn is not None else []):
                    if isinstance(leaf, ast.Name):
                        meta_kw[leaf.id] = k.arg
                    for dn in chain:  # every local the value passed through names the same container
                        st_ = dn.ast
                        tg_ = st_.targets if isinstance(st_, ast.Assign) else ([st_.target] if isinstance(st_, ast.AnnAssign) else [])
                        for t_ in tg_:
                            if isinstance(t_, ast.Name):
                                meta_kw.setdefault(t_.id, k.arg)
                meta_kw.setdefault(unparse(k.value), k.arg)
    meta = ctx.repo.cls(f"{M}.elements:XmlMeta")
    gev = unparse(meta.methods["get_element_vars"].node)
    gav = unparse(meta.methods["get_attribute_vars"].node)
    lookups = {
        "elements": ("find_children", "self.elements.get"), "choices": ("find_children", "self.choices"), "wildcards": ("find_wildcard", "self.wildcards"),
        "attributes": ("find_attribute", "self.attributes.get"), "any_attributes": ("find_any_attributes", "self.any_attributes"), "text": (None, None),
    }
    # `getattr(var, flag)` with the flag name taken from a table: the classification is data-driven, not readable from the control flow
    dynamic = [c for c in calls_in(build.node) if isinstance(c.func, ast.Name) and c.func.id == "getattr" and len(c.args) >= 2 and not isinstance(c.args[1], ast.Constant)
               and isinstance(c.args[0], ast.Name) and c.args[0].id in item_names]
    # ... or through a table of getters: (attrgetter("is_elements"), choices), ...
    dynamic += [c for c in calls_in(build.node) if unparse(c.func) in ("attrgetter", "operator.attrgetter") and c.args and isinstance(c.args[0], ast.Constant)
                and str(c.args[0].value).startswith("is_")]
    if dynamic:
        ctx.abstain(f"kind buckets of {build.qual.split(':')[1]}", at=build, why="kind flags are read with getattr(var, <name from a table>) / a table of attrgetter(...) callables")
    for k in sorted(kinds):
        flag = flags.get(k)
        if derived and (flag is None or flag == "?"):
            continue
        if dynamic:
            continue
        b = buckets.get(flag)
        attr = meta_kw.get(b)
        ctx.ob(f"{k}: flag {flag} fills a bucket that is passed to XmlMeta", bool(b) and bool(attr), at=build, construct=f"bucket {k}",
               msg=f"flag {flag} -> bucket {b} -> XmlMeta keyword {attr}: fields of this kind are dropped from the metadata")
        if not attr:
            continue
        in_ser = f"self.{attr}" in gev or f"self.{attr}" in gav
        ctx.ob(f"{k}: XmlMeta.{attr} is iterated by the serializer (get_element_vars / get_attribute_vars)", in_ser, at=meta.methods["get_element_vars"],
               construct=f"serializer iterates {attr}", msg=f"values of {k} fields are never written")
        meth, frag = lookups.get(attr, (None, None))
        if meth:
            m = meta.methods.get(meth)
            ok = m is not None and frag in unparse(m.node)
            ctx.ob(f"{k}: XmlMeta.{attr} is consulted by {meth}()", ok, at=m or build, construct=f"parser lookup {attr}", msg=f"{k} fields can never be bound when parsing")
    # find_children covers elements, choices and wildcards in this order (elements first so typed fields win over wildcards)
    fc = meta.methods["find_children"]
    src = unparse(fc.node)
    order = [src.find("self.elements.get"), src.find("self.choices"), src.find("self.find_wildcard")]
    ctx.ob("find_children consults elements, then choices, then wildcards", all(o >= 0 for o in order) and order == sorted(order), at=fc, construct="find_children order",
           msg="lookup order changed: a wildcard may capture an element that has a typed field")
    # the element node uses these lookups
    en = ctx.repo.cls(f"{PAR}.nodes.element:ElementNode")
    used = {c.func.attr for m in en.methods.values() for c in calls_in(m.node) if isinstance(c.func, ast.Attribute) and unparse(c.func.value) == "self.meta"}
    for need in ("find_children", "find_attribute", "find_any_attributes", "find_any_wildcard"):
        ctx.ob(f"ElementNode consults meta.{need}()", need in used, at=en.methods["bind"], construct=f"ElementNode uses {need}", msg="lookup not used by the parser")
    ctx.ob("ElementNode binds meta.text", any("self.meta.text" in unparse(m.node) for m in en.methods.values()), at=en.methods["bind_text"], construct="ElementNode uses text", msg="text never bound")
    # both vars lists are sorted by field index so that document order == declaration order
    for name in ("get_element_vars", "get_attribute_vars", "get_all_vars"):
        m = meta.methods[name]
        rv = return_values(m.node)
        ctx.ob(f"XmlMeta.{name} sorts by field index", bool(rv) and all(isinstance(v, ast.Call) and call_name_of(v) == "sorted" and unparse(kwarg(v, "key") or ast.Constant(0)) == "get_index" for v in rv), at=m, construct=f"{name} sorted",
               msg="fields emitted out of declaration order")


def _override_else_field(fi: FuncInfo, call: ast.Call, e: ast.expr | None, param: str, field: str) -> bool:
    """The argument is the caller's override when given, else the field's own value: `param or var.field` in any spelling (conditional
    expression, if/else temporary) - the override first."""
    g = build_cfg(fi.node)
    n = node_containing(g, call)
    if e is None or n is None:
        return False
    got: dict[str, set] = {}
    for leaf, chain in flows(fi, n, e):
        got.setdefault(unparse(leaf), set()).update(leaf_conditions(fi, n, leaf, chain))
    return set(got) == {param, field} and ("_", False) in got[field] and ("_", False) not in got[param]


@rule("C01.R2")
def conversion_parameters(ctx: Ctx) -> None:
    """Serializer and parser hand the same conversion parameters (format, ns_map, types, tokens, default) to the converter."""
    P = lambda fi, c, param, *texts: passes(ctx, fi, c, param, *texts)  # noqa: E731
    ep = ctx.repo.func(f"{SER}:EventGenerator.encode_primitive")
    sers = [c for c in calls_in(ep.node) if func_text(ep, c) == "converter.serialize"]
    ctx.ob("encode_primitive: converter.serialize(value, format=var.format)", bool(sers) and all(P(ep, c, "format", "var.format") for c in sers),
           at=ep, construct="serialize format", msg="the field's format is not applied when writing (dates/bytes cannot be read back)")
    # enums and arrays are unwrapped recursively with the same var
    rec = [c for c in calls_in(ep.node) if func_text(ep, c) in ("cls.encode_primitive", "self.encode_primitive")]
    ctx.ob("encode_primitive recursion keeps the same var", len(rec) >= 1 and all(P(ep, c, "var", "var") for c in rec), at=ep, construct="recursive var", msg="format lost for list/enum members")
    ed = ctx.repo.func(f"{SER}:EventHandler.encode_data")
    sers = [c for c in calls_in(ed.node) if func_text(ed, c) == "converter.serialize"]
    ctx.ob("encode_data: converter.serialize(data, ns_map=self.ns_map)", bool(sers) and all(P(ed, c, "ns_map", "self.ns_map") for c in sers),
           at=ed, construct="serialize ns_map", msg="QName values are written without the in-scope prefixes")
    pv = ctx.repo.func(f"{PAR}.utils:ParserUtils.parse_value")
    des = [c for c in calls_in(pv.node) if func_text(pv, c) == "converter.deserialize"]
    ctx.floor("converter.deserialize calls in parse_value", len(des), 2)
    for c in des:
        ok = P(pv, c, "ns_map", "ns_map") and P(pv, c, "format", "format") and P(pv, c, "types", "types")
        ctx.ob("parse_value: converter.deserialize(<value>, types, ns_map=ns_map, format=format)", ok, at=pv, node=c, msg="a conversion parameter is not forwarded when reading")
    pvar = ctx.repo.func(f"{PAR}.utils:ParserUtils.parse_var")
    calls = [c for c in calls_in(pvar.node) if func_text(pvar, c) in ("cls.parse_value", "self.parse_value")]
    for c in calls:
        for k in ("value", "ns_map"):
            ctx.ob(f"parse_var forwards {k}={k}", P(pvar, c, k, k), at=pvar, node=c, construct=f"parse_var {k}", msg=f"{k} is not forwarded")
        for k in ("types", "default", "tokens_factory", "format"):
            ctx.ob(f"parse_var forwards {k}={k} or var.{k}", _override_else_field(pvar, c, call_param(ctx, pvar, c, k), k, f"var.{k}"), at=pvar, node=c, construct=f"parse_var {k}",
                   msg=f"the field's own {k} no longer applies (or no longer yields to the caller's override)")
    if not calls:
        raise AnalysisError("C01.R2: parse_var does not call parse_value")
    # every node that converts text passes its in-scope ns_map
    n = 0
    for cq in ("nodes.element:ElementNode", "nodes.primitive:PrimitiveNode", "nodes.standard:StandardNode", "nodes.union:UnionNode"):
        ci = ctx.repo.cls(f"{PAR}.{cq}")
        for m in ci.methods.values():
            for c in calls_in(m.node):
                if func_text(m, c) == "ParserUtils.parse_var":
                    n += 1
                    ctx.ob(f"{ci.name}.{m.name}: parse_var(ns_map=self.ns_map)", P(m, c, "ns_map", "self.ns_map"), at=m, node=c,
                           msg="QName / xsi values resolved without the element's in-scope prefixes")
                    cfg_arg = call_param(ctx, m, c, "config")
                    cfg_ok = cfg_arg is not None and (any("self.config" in t for t in value_texts(m, c, cfg_arg)) or all(isinstance(x, ast.Name) and x.id in {a.arg for a in m.params} for x in leaves_at(m, c, cfg_arg)))
                    ctx.ob(f"{ci.name}.{m.name}: parse_var(meta=self.meta, var=..., config=self.config|config)", P(m, c, "meta", "self.meta") and cfg_ok, at=m, node=c, construct=f"{m.name} meta/config", msg="wrong meta/config passed")
    ctx.floor("parse_var call sites in nodes", n, 5)
    # StandardNode uses the xsi:type datatype's own type and format on both sides
    sb = ctx.repo.func(f"{PAR}.nodes.standard:StandardNode.bind")
    for c in calls_in(sb.node):
        if func_text(sb, c) == "ParserUtils.parse_var":
            ok = P(sb, c, "types", "[self.datatype.type]") and P(sb, c, "format", "self.datatype.format")
            ctx.ob("StandardNode.bind converts with the xsi:type datatype's type and format", ok, at=sb, node=c, construct="standard datatype params", msg="xsi:type'd value converted with the wrong type/format")
    fx = ctx.repo.func(f"{PAR}.utils:ParserUtils.validate_fixed_value")
    sers = [c for c in calls_in(fx.node) if func_text(fx, c) == "converter.serialize"]
    ctx.ob("validate_fixed_value serialises the default with the field's format", bool(sers) and all(P(fx, c, "format", "var.format") for c in sers), at=fx,
           construct="fixed value format", msg="fixed values of formatted fields never match")


def _yields_of(fi: FuncInfo, marker: str) -> list[tuple[ast.Yield, list[ast.expr]]]:
    """Yields of tuples one of whose items is (flows from) the named constant ``marker``: (yield, items after the marker)."""
    out = []
    for y in walk_no_nested(fi.node):
        if isinstance(y, ast.Yield) and isinstance(y.value, ast.Tuple):
            for k, e in enumerate(y.value.elts):
                if any(unparse(leaf) == marker for leaf in leaves_at(fi, y, e)):
                    out.append((y, y.value.elts[k + 1:]))
                    break
    return out


def _lookup_keys(fi: FuncInfo, mapping: str) -> list[ast.expr]:
    """Keys under which the parameter ``mapping`` is consulted: m.get(K), m[K], K in m, m.pop(K)."""
    keys: list[ast.expr] = []
    for n in walk_no_nested(fi.node):
        if isinstance(n, ast.Call) and isinstance(n.func, ast.Attribute) and n.func.attr in ("get", "pop") and unparse(n.func.value) == mapping and n.args:
            keys.append(n.args[0])
        elif isinstance(n, ast.Subscript) and unparse(n.value) == mapping:
            keys.append(n.slice)
        elif isinstance(n, ast.Compare) and len(n.ops) == 1 and isinstance(n.ops[0], (ast.In, ast.NotIn)) and unparse(n.comparators[0]) == mapping:
            keys.append(n.left)
    return keys


def _table_ob(ctx: Ctx, what: str, fi: FuncInfo, target: ast.AST, atoms: list[dict[str, bool]], want, msg: str, construct: str) -> None:
    """One obligation from a reach_table; an unrecognisable condition form is noted, not reported."""
    tab = reach_table(fi, target, atoms, raw=True)
    if tab is None:
        ctx.abstain(what, at=fi)
        return
    ctx.ob(what, all(tab[k] == want(*k) for k in tab), at=fi, node=target, construct=construct, msg=f"{msg}: executes under {sorted(k for k, v in tab.items() if v)}")


@rule("C01.R4")
def marker_agreement(ctx: Ctx) -> None:
    """The xsi:nil / xsi:type attribute names and literals the writer emits are the ones the reader looks up."""
    nx = ctx.repo.func(f"{SER}:EventGenerator.next_attribute")
    nil_w = _yields_of(nx, "QNames.XSI_NIL")
    type_w = _yields_of(nx, "QNames.XSI_TYPE")
    if not nil_w and not type_w:
        ctx.abstain("marker yields of next_attribute", at=nx, why="no yield names QNames.XSI_NIL / QNames.XSI_TYPE directly: the markers are emitted through a table")
    for y, rest in nil_w:
        vals = [leaf for e in rest[:1] for leaf in leaves_at(nx, y, e)]
        ctx.ob("writer emits QNames.XSI_NIL = 'true' for nillable elements", bool(vals) and all(isinstance(v, ast.Constant) and v.value == "true" for v in vals), at=nx, node=y, construct="nil written",
               msg="xsi:nil literal changed")
        _table_ob(ctx, "next_attribute: QNames.XSI_NIL only if nillable", nx, y, [{"nillable": True}], lambda a: a, "marker emitted regardless of the flag", "nil marker guard")
    for y, rest in type_w:
        vals = [leaf for e in rest[:1] for leaf in leaves_at(nx, y, e)]
        ok = bool(vals) and all(isinstance(v, ast.Call) and unparse(v.func) == "QName" and len(v.args) == 1 and any(unparse(x) == "xsi_type" for x in leaves_at(nx, y, v.args[0])) for v in vals)
        ctx.ob("writer emits QNames.XSI_TYPE as QName(xsi_type)", ok, at=nx, node=y, construct="type written", msg="xsi:type written differently")
        _table_ob(ctx, "next_attribute: QNames.XSI_TYPE only if xsi_type", nx, y, [{"xsi_type": True, "xsi_type is not None": True, "xsi_type is None": False}], lambda a: a,
                  "marker emitted regardless of the value", "type marker guard")
    pn = ctx.repo.func(f"{PAR}.utils:ParserUtils.xsi_nil")
    pt = ctx.repo.func(f"{PAR}.utils:ParserUtils.xsi_type")
    keys = _lookup_keys(pn, "attrs")
    ctx.ob("reader looks xsi:nil up under QNames.XSI_NIL", bool(keys) and all(any(unparse(l) == "QNames.XSI_NIL" for l in leaves_at(pn, k, k)) for k in keys), at=pn, construct="nil read",
           msg="reader and writer disagree on the nil attribute")
    cmps = [n for n in walk_no_nested(pn.node) if isinstance(n, ast.Compare) and len(n.ops) == 1 and isinstance(n.ops[0], (ast.Eq, ast.NotEq))]
    lits = {unparse(l) for c in cmps for e in (c.left, c.comparators[0]) for l in leaves_at(pn, c, e)}
    ctx.ob("reader compares the xsi:nil value with constants.XML_TRUE", "constants.XML_TRUE" in lits or "'true'" in lits, at=pn, construct="nil literal read", msg="reader and writer disagree on the nil literal")
    cmod = ctx.repo.module("xsdata.utils.constants")
    xt = cmod.globals.get("XML_TRUE")
    ctx.ob("constants.XML_TRUE is the literal the writer emits", isinstance(xt, ast.Call) and "'true'" in unparse(xt) or (isinstance(xt, ast.Constant) and xt.value == "true"), at=cmod, node=xt, construct="XML_TRUE",
           msg="XML_TRUE differs from the written literal 'true'")
    keys = _lookup_keys(pt, "attrs")
    ctx.ob("reader looks xsi:type up under QNames.XSI_TYPE", bool(keys) and all(any(unparse(l) == "QNames.XSI_TYPE" for l in leaves_at(pt, k, k)) for k in keys), at=pt, construct="type read",
           msg="reader and writer disagree on the type attribute")
    res = [c for c in calls_in(pt.node) if unparse(c.func) == "QNameConverter.resolve"]
    ctx.ob("reader resolves xsi:type through the element's in-scope map", bool(res) and all(len(c.args) > 1 and any(unparse(l) == "ns_map" for l in leaves_at(pt, c, c.args[1])) for c in res),
           at=pt, construct="type resolved", msg="xsi:type not resolved with the element's prefixes")
    # convert_element: nil marker for empty nillable values, and the writer drops it when content follows
    ce = ctx.repo.func(f"{SER}:EventGenerator.convert_element")
    nil_y = _yields_of(ce, "QNames.XSI_NIL")
    ctx.ob("convert_element writes an xsi:nil marker", bool(nil_y), at=ce, construct="nil marker", msg="nillable elements never carry xsi:nil")
    for y, _ in nil_y:
        _table_ob(ctx, "convert_element: xsi:nil only for nillable fields with an empty value", ce, y, [{"var.nillable": True}, {"value": True}], lambda a, b: a and not b,
                  "nil marker on non-nillable or non-empty elements", "nil guard")
    fl = ctx.repo.func(f"{SER}:EventHandler.flush_start")
    pops = [c for c in calls_in(fl.node) if isinstance(c.func, ast.Attribute) and c.func.attr == "pop" and unparse(c.func.value) == "self.attrs" and c.args
            and any(unparse(l) == "XSI_NIL" for l in leaves_at(fl, c, c.args[0]))]
    if pops or "XSI_NIL" not in ast.unparse(fl.node):
        ctx.ob("flush_start drops the pending xsi:nil attribute", bool(pops), at=fl, construct="nil pop present", msg="nil attribute kept on non-empty elements")
    for c in pops:
        _table_ob(ctx, "flush_start drops xsi:nil exactly when the element has content", fl, c, [{"is_nil": True}], lambda a: not a, "nil attribute dropped / kept in the wrong case", "nil pop")
    smod = ctx.repo.module(SER)
    xn = smod.globals.get("XSI_NIL")
    ctx.ob("serializer XSI_NIL tuple is (XSI namespace, 'nil')", isinstance(xn, ast.Tuple) and len(xn.elts) == 2 and unparse(xn.elts[0]) == "Namespace.XSI.uri" and isinstance(xn.elts[1], ast.Constant)
           and xn.elts[1].value == "nil", at=smod, node=xn, construct="XSI_NIL tuple", msg="popped key differs from the stored key")
    # ElementNode honours nil: no object unless the class is nillable
    eb = ctx.repo.func(f"{PAR}.nodes.element:ElementNode.bind")
    cf = [c for c in calls_in(eb.node) if func_text(eb, c).endswith("class_factory")]
    ctx.floor("class_factory calls of ElementNode.bind", len(cf), 1)
    for c in cf:
        _table_ob(ctx, "ElementNode.bind builds an object unless xsi:nil is set on a non-nillable class", eb, c, [{"self.xsi_nil": True}, {"self.meta.nillable": True}], lambda a, b: not (a and not b),
                  "nil handling changed", "nil bind")


def wrapper_filter_exact(ctx: Ctx) -> None:
    """ElementNode.child / bind_object consider a field for an element seen inside a wrapper exactly when the field's wrapper_qname is that
    wrapper: the code that uses the field (build_node / bind_var / bind_wild_var) runs iff not (wrapper and var.wrapper_qname != wrapper)."""
    for name, users in (("child", ("build_node",)), ("bind_object", ("bind_var", "bind_wild_var"))):
        fi = ctx.repo.func(f"{PAR}.nodes.element:ElementNode.{name}")
        uses = [c for c in calls_in(fi.node) if call_name_of(c) in users]
        ctx.ob(f"{name}: candidate fields are handed to {' / '.join(users)}", bool(uses), at=fi, construct=f"{name} uses var", msg="field lookup changed")
        # the names that play the roles: the field = target of the loop over meta.find_children(...); the wrapper = the parameter of that
        # name or the local taken from pop_wrapper()
        vars_ = {lp.target.id for lp in walk_no_nested(fi.node) if isinstance(lp, ast.For) and isinstance(lp.target, ast.Name) and any(call_name_of(x) == "find_children" for x in calls_in(lp.iter))}
        wraps = ({"wrapper"} & {a.arg for a in fi.params}) | names_from_calls(fi.node, ("pop_wrapper",))
        if len(vars_) != 1 or len(wraps) != 1:
            ctx.abstain(f"wrapper filter of {name}: roles {sorted(vars_)} / {sorted(wraps)}", at=fi)
            continue
        v_, w_ = next(iter(vars_)), next(iter(wraps))
        for c in uses:
            tab = reach_table(fi, c, [{w_: True, f"{w_} is not None": True, f"{w_} is None": False}, cmp_atom(f"{v_}.wrapper_qname", "!=", w_)], raw=True)
            if tab is None:
                ctx.abstain(f"wrapper filter of {name}", at=fi)
                continue
            bad = sorted(k_ for k_, v in tab.items() if v != (not (k_[0] and k_[1])))
            ctx.ob(f"{name}: a var is skipped exactly when a wrapper was seen and its wrapper_qname differs", not bad, at=fi, node=c, construct=f"{name} wrapper filter",
                   msg=f"items bound to (or accepted for) a field with another wrapper - or an unwrapped field: (wrapper seen, wrapper_qname differs) rows that differ: {bad}")


@rule("C01.R5")
def wrapper_symmetry(ctx: Ctx) -> None:
    """The writer brackets wrapped values with var.wrapper_qname; the reader indexes wrappers by the same attribute."""
    cd = ctx.repo.func(f"{SER}:EventGenerator.convert_dataclass")
    ys = [y.value for y in walk_no_nested(cd.node) if isinstance(y, ast.Yield) and isinstance(y.value, ast.Tuple)]
    s = [y for y in ys if unparse(y.elts[0]).endswith("START") and X(cd, y.elts[1]) == "_.wrapper_qname"]
    e = [y for y in ys if unparse(y.elts[0]).endswith("END") and X(cd, y.elts[1]) == "_.wrapper_qname"]
    ctx.ob("writer emits START/END var.wrapper_qname around wrapped values", len(s) == 1 and len(e) == 1, at=cd, construct="wrapper bracket", msg="wrapper element not written symmetrically")
    b0 = ctx.repo.func(f"{M}.builders:XmlMetaBuilder.build")
    names = {n for n, kw in _meta_keywords_family(ctx, b0).items() if kw == "wrappers"}
    ok = any(isinstance(tgt, ast.Subscript) and isinstance(tgt.value, ast.Name) and tgt.value.id in names and "_.wrapper_qname" in arg_forms(b, st, tgt.slice) and val is not None and "_.qname" in arg_forms(b, st, val)
             for b in family(ctx.repo, b0) for st, tgt, val in stores(b.node))
    b = b0
    ctx.ob("reader's wrappers map is keyed by var.wrapper_qname -> var.qname", ok, at=b, construct="wrappers map", msg="wrapper map built from another attribute than the one written")
    st = ctx.repo.func(f"{PAR}.bases:NodeParser.start")
    wcalls = [c for c in calls_in(st.node) if call_name_of(c) == "WrapperNode"]
    ctx.ob("NodeParser.start creates WrapperNode(parent, qname, ns_map) for wrapper elements", any({k.arg for k in c.keywords} >= {"parent", "qname", "ns_map"} for c in wcalls), at=st,
           construct="wrapper dispatch", msg="wrapper elements treated as unknown children")
    for c in wcalls:
        tab = reach_table(st, c, [{"_ in _.meta.wrappers": True, "_ not in _.meta.wrappers": False}])
        if tab is not None:
            ctx.ob("NodeParser.start creates the WrapperNode exactly for names in meta.wrappers", tab == {(True,): True, (False,): False}, at=st, node=c, construct="wrapper dispatch guard",
                   msg=f"wrapper node created under {tab}")
    wn = ctx.repo.func(f"{PAR}.nodes.wrapper:WrapperNode.child")
    ctx.ob("WrapperNode.child delegates to the parent with wrapper=self.qname", any(func_text(wn, c) == "self.parent.child" and "self.qname" in raw_forms(wn, c, kwarg(c, "wrapper")) for c in calls_in(wn.node)), at=wn, construct="wrapper child",
           msg="wrapped items lose their wrapper association")
    wrapper_filter_exact(ctx)
    # DictEncoder / DictDecoder (JSON) nest under var.wrapper then var.local_name - covered by C04.R2


@rule("C01.R8")
def any_type_marker_guard(ctx: Ctx) -> None:
    """convert_element writes the xsi:type of an xs:anyType value for every value except None and the empty string (0 / False / 0.0 included)."""
    ce = ctx.repo.func(f"{SER}:EventGenerator.convert_element")
    ys = _yields_of(ce, "QNames.XSI_TYPE")
    if not ys:
        raise AnalysisError("C01.R8: xsi:type yield of convert_element not found")
    for y, _ in ys:
        atoms = [
            {"value is not None": True, "value is None": False},
            {"value != ''": True, "value == ''": False, "'' != value": True, "'' == value": False},
            {"var.any_type": True},
            {"value": True},
        ]
        tab = reach_table(ce, y, atoms, raw=True)
        if tab is None:
            ctx.abstain("any_type marker guard", at=ce)
        else:
            bad = sorted(k for k, v in tab.items() if v != (k[0] and k[1] and k[2]))
            ctx.ob("convert_element: the xsi:type marker is written exactly when `value is not None`, `value != \"\"` and var.any_type hold - never depending on the truthiness of the value", not bad,
                   at=ce, node=y, construct="any_type marker guard",
                   msg=f"a truthiness test drops the marker for 0, False, 0.0, Decimal(0) (the value is written without xsi:type and parses back as the string '0' / 'false'), or the guard changed: "
                       f"(not None, not '', any_type, truthy) rows that differ: {bad[:4]}")
        tab = reach_table(ce, y, [{"re:.+!=DataType\\.STRING": True, "re:.+==DataType\\.STRING": False, "re:DataType\\.STRING!=.+": True, "re:DataType\\.STRING==.+": False,
                                   "re:.+isnotDataType\\.STRING": True, "re:.+isDataType\\.STRING": False}], raw=True)
        if tab is not None and "DataType.STRING" in ast.unparse(ce.node):
            ctx.ob("convert_element: strings are the only datatype written without a marker", tab == {(True,): True, (False,): False}, at=ce, node=y, construct="string exempt", msg=f"marker exemption changed: {tab}")


from .c04 import exact_type_choice_lookup  # noqa: E402

share("C01", "C01.R10", exact_type_choice_lookup)

from .c03 import per_field_metadata_is_independent  # noqa: E402

share("C01", "C01.R11", per_field_metadata_is_independent)  # metadata fidelity: the writer and the reader bind a field with the namespace of the class that declares it

from .c08 import unprefixed_attribute_values_stay_plain  # noqa: E402

share("C01", "C01.R12", unprefixed_attribute_values_stay_plain)  # wildcard attribute values must come back as written

from .c11 import single_wildcard_container  # noqa: E402

share("C01", "C01.R13", single_wildcard_container)  # a nameless container written as its children must be read back as that container, not as its first child
