"""C01 - XML round-trip (writer/reader agreement clauses)."""

from __future__ import annotations

import ast

from ..cfg import build_cfg, calls_in, node_calls
from ..core import Ctx, property_info, rule, share
from ..model import AnalysisError, FuncInfo, walk_no_nested
from ..q import A, Dispatch, L, arg_forms, asrc, call_name_of, flows, func_text, leaves_at, node_containing, raw_forms, return_values, bound_arg, enum_members, is_self_attr, kwarg, stores, unparse
from .c03 import declare_before_use, event_grammar, writer_typestate

M = "xsdata.formats.dataclass.models"
SER = "xsdata.formats.dataclass.serializers.mixins"
PAR = "xsdata.formats.dataclass.parsers"

property_info(
    "C01",
    explanation="Decides writer/reader agreement, a necessary condition of any round trip: every field kind has a builder, a metadata bucket, "
    "a serializer iteration and a parser lookup; both directions pass the same conversion parameters (format, ns_map, types, tokens factory, "
    "default); the event stream is balanced; xsi:nil / xsi:type markers written are exactly those read; wrapper elements are bracketed by the "
    "attribute the reader indexes.",
    decides="kind totality over XmlType, conversion-parameter agreement, marker and wrapper symmetry, event grammar",
    not_decided="equality of the reparsed object for all models x instances x configurations (depends on converter values and XML libraries)",
)

share("C01", "C01.R3", event_grammar)
share("C01", "C01.R6", declare_before_use)
share("C01", "C01.R9", writer_typestate)  # text / tail state machine of the writer: mixed content cannot round-trip if tail state leaks between elements  # a QName value whose prefix is declared too late cannot be read back


def _true_flag_stores(nodes) -> set[str]:
    out: set[str] = set()
    for n in nodes:
        st = n.ast
        if n.kind == "stmt" and isinstance(st, ast.Assign) and isinstance(st.value, ast.Constant) and st.value.value is True:
            out |= {t.attr for t in st.targets if is_self_attr(t)}
    return out


def _kind_chain(ctx: Ctx) -> tuple[dict[str, str], str | None]:
    """XmlVar.__init__ partially evaluated per xml_type constant: constant -> the kind flag set to True; flag of the default."""
    init = ctx.repo.func(f"{M}.elements:XmlVar.__init__")
    # `or self.clazz` (a field typed with a model is always an element) is the one non-key condition of the dispatch
    d = Dispatch(init.node, is_subject=lambda e: unparse(e) == "xml_type", extra=lambda t: False if unparse(t) == "self.clazz" else None)
    out: dict[str, str] = {}
    for key in sorted(d.keys):
        if key.startswith("XmlType."):
            flags = _true_flag_stores(d.under(key))
            out[key.split(".", 1)[1]] = next(iter(flags)) if len(flags) == 1 else "?"
    ef = _true_flag_stores(d.under(None))
    return out, (next(iter(ef)) if len(ef) == 1 else None)


def _meta_keyword_names(build: FuncInfo) -> dict[str, str]:
    """Local container name -> the XmlMeta(...) keyword it is passed as (through temporaries, tuple packing / unpacking, inlined helpers)."""
    meta_kw: dict[str, str] = {}
    gb_ = build_cfg(build.node)
    for c in calls_in(build.node):
        if unparse(c.func) == "XmlMeta":
            cn = node_containing(gb_, c)
            for k in c.keywords:
                for leaf, chain in (flows(build, cn, k.value) if cn is not None else []):
                    if isinstance(leaf, ast.Name):
                        meta_kw[leaf.id] = k.arg
                    for dn in chain:
                        st_ = dn.ast
                        tg_ = st_.targets if isinstance(st_, ast.Assign) else ([st_.target] if isinstance(st_, ast.AnnAssign) else [])
                        for t_ in tg_:
                            if isinstance(t_, ast.Name):
                                meta_kw.setdefault(t_.id, k.arg)
                meta_kw.setdefault(unparse(k.value), k.arg)
    return meta_kw


@rule("C01.R1")
def kind_totality(ctx: Ctx) -> None:
    """Every XmlType constant has an evaluation, a flag, a metadata bucket, a serializer iteration and a parser lookup."""
    xt = ctx.repo.cls(f"{M}.elements:XmlType")
    kinds = set(enum_members(xt.node)) - {"IGNORE"}
    ctx.floor("XmlType kinds", len(kinds), 6)
    bmod = ctx.repo.module(f"{M}.builders")
    ev = bmod.globals.get("evaluations")
    if not isinstance(ev, ast.Dict):
        raise AnalysisError("C01.R1: builders.evaluations is not a dict literal")
    ev_keys = {k.attr for k in ev.keys if isinstance(k, ast.Attribute)}
    chain, else_flag = _kind_chain(ctx)
    flags = dict(chain)
    for k in sorted(kinds):
        ctx.ob(f"XmlType.{k} has an annotation evaluator", k in ev_keys, at=bmod, node=ev, construct=f"evaluations {k}", msg="KeyError at metadata build time")
        ctx.ob(f"XmlType.{k} selects exactly one kind flag in XmlVar.__init__", k in flags or (k == "TEXT" and else_flag == "is_text"), at=ctx.repo.func(f"{M}.elements:XmlVar.__init__"),
               construct=f"kind flag {k}", msg="field kind falls through to Text")
    if "TEXT" not in flags and else_flag:
        flags["TEXT"] = else_flag
    # bucket chain in XmlMetaBuilder.build
    build = ctx.repo.func(f"{M}.builders:XmlMetaBuilder.build")
    buckets: dict[str, str] = {}

    def flag_of(t: ast.AST):
        if isinstance(t, ast.Attribute) and t.attr.startswith("is_") and L(build, t.value) == "_":
            return frozenset([t.attr]), True
        return None

    def bucket_targets(nodes) -> set[str]:
        tg: set[str] = set()
        for n in nodes:
            if n.kind != "stmt" or n.ast is None:
                continue
            st = n.ast
            if isinstance(st, ast.Assign):
                t0 = st.targets[0]
                if isinstance(t0, ast.Subscript) and isinstance(st.value, ast.Name):
                    tg.add(unparse(t0.value))
                elif isinstance(t0, ast.Name) and isinstance(st.value, ast.Name) and L(build, st.value) == "_":
                    tg.add(t0.id)
            for sub in ast.walk(st):
                if isinstance(sub, ast.Call) and isinstance(sub.func, ast.Attribute) and sub.func.attr == "append":
                    base = sub.func.value
                    tg.add(unparse(base.value if isinstance(base, ast.Subscript) else base))
        return tg

    bd = Dispatch(build.node, classify=flag_of)
    common = bucket_targets(bd.under("is_none_of_them")) & bucket_targets(bd.under(sorted(bd.keys)[0] if bd.keys else None))
    for flag in sorted(bd.keys):
        tg = bucket_targets(bd.under(flag)) - common
        buckets[flag] = next(iter(tg)) if len(tg) == 1 else (sorted(tg)[0] if tg else "?")
    else_t = bucket_targets(bd.under(None)) - common
    if else_t:
        buckets.setdefault("is_text", sorted(else_t)[0])
    # keyword the bucket is passed as to XmlMeta(...)
    meta_kw = _meta_keyword_names(build)
    for c in []:
        if unparse(c.func) == "XmlMeta":
            for k in c.keywords:
                # the container(s) that can flow into this keyword (through temporaries, tuple packing / unpacking, inlined helpers)
                gb_ = build_cfg(build.node)
                cn = node_containing(gb_, c)
                for leaf, chain in (flows(build, cn, k.value) if cn is not None else []):
                    if isinstance(leaf, ast.Name):
                        meta_kw[leaf.id] = k.arg
                    for dn in chain:  # every local the value passed through names the same container
                        st_ = dn.ast
                        tg_ = st_.targets if isinstance(st_, ast.Assign) else ([st_.target] if isinstance(st_, ast.AnnAssign) else [])
                        for t_ in tg_:
                            if isinstance(t_, ast.Name):
                                meta_kw.setdefault(t_.id, k.arg)
                meta_kw.setdefault(unparse(k.value), k.arg)
    meta = ctx.repo.cls(f"{M}.elements:XmlMeta")
    gev = unparse(meta.methods["get_element_vars"].node)
    gav = unparse(meta.methods["get_attribute_vars"].node)
    lookups = {
        "elements": ("find_children", "self.elements.get"), "choices": ("find_children", "self.choices"), "wildcards": ("find_wildcard", "self.wildcards"),
        "attributes": ("find_attribute", "self.attributes.get"), "any_attributes": ("find_any_attributes", "self.any_attributes"), "text": (None, None),
    }
    for k in sorted(kinds):
        flag = flags.get(k)
        b = buckets.get(flag)
        attr = meta_kw.get(b)
        ctx.ob(f"{k}: flag {flag} fills a bucket that is passed to XmlMeta", bool(b) and bool(attr), at=build, construct=f"bucket {k}",
               msg=f"flag {flag} -> bucket {b} -> XmlMeta keyword {attr}: fields of this kind are dropped from the metadata")
        if not attr:
            continue
        in_ser = f"self.{attr}" in gev or f"self.{attr}" in gav
        ctx.ob(f"{k}: XmlMeta.{attr} is iterated by the serializer (get_element_vars / get_attribute_vars)", in_ser, at=meta.methods["get_element_vars"],
               construct=f"serializer iterates {attr}", msg=f"values of {k} fields are never written")
        meth, frag = lookups.get(attr, (None, None))
        if meth:
            m = meta.methods.get(meth)
            ok = m is not None and frag in unparse(m.node)
            ctx.ob(f"{k}: XmlMeta.{attr} is consulted by {meth}()", ok, at=m or build, construct=f"parser lookup {attr}", msg=f"{k} fields can never be bound when parsing")
    # find_children covers elements, choices and wildcards in this order (elements first so typed fields win over wildcards)
    fc = meta.methods["find_children"]
    src = unparse(fc.node)
    order = [src.find("self.elements.get"), src.find("self.choices"), src.find("self.find_wildcard")]
    ctx.ob("find_children consults elements, then choices, then wildcards", all(o >= 0 for o in order) and order == sorted(order), at=fc, construct="find_children order",
           msg="lookup order changed: a wildcard may capture an element that has a typed field")
    # the element node uses these lookups
    en = ctx.repo.cls(f"{PAR}.nodes.element:ElementNode")
    used = {c.func.attr for m in en.methods.values() for c in calls_in(m.node) if isinstance(c.func, ast.Attribute) and unparse(c.func.value) == "self.meta"}
    for need in ("find_children", "find_attribute", "find_any_attributes", "find_any_wildcard"):
        ctx.ob(f"ElementNode consults meta.{need}()", need in used, at=en.methods["bind"], construct=f"ElementNode uses {need}", msg="lookup not used by the parser")
    ctx.ob("ElementNode binds meta.text", any("self.meta.text" in unparse(m.node) for m in en.methods.values()), at=en.methods["bind_text"], construct="ElementNode uses text", msg="text never bound")
    # both vars lists are sorted by field index so that document order == declaration order
    for name in ("get_element_vars", "get_attribute_vars", "get_all_vars"):
        m = meta.methods[name]
        rv = return_values(m.node)
        ctx.ob(f"XmlMeta.{name} sorts by field index", bool(rv) and all(isinstance(v, ast.Call) and call_name_of(v) == "sorted" and unparse(kwarg(v, "key") or ast.Constant(0)) == "get_index" for v in rv), at=m, construct=f"{name} sorted",
               msg="fields emitted out of declaration order")


@rule("C01.R2")
def conversion_parameters(ctx: Ctx) -> None:
    """Serializer and parser hand the same conversion parameters (format, ns_map, types, tokens, default) to the converter."""
    ep = ctx.repo.func(f"{SER}:EventGenerator.encode_primitive")
    sers = [c for c in calls_in(ep.node) if unparse(c.func) == "converter.serialize"]
    ctx.ob("encode_primitive: converter.serialize(value, format=var.format)", bool(sers) and all(kwarg(c, "format") is not None and unparse(kwarg(c, "format")) == "var.format" for c in sers),
           at=ep, construct="serialize format", msg="the field's format is not applied when writing (dates/bytes cannot be read back)")
    # enums and arrays are unwrapped recursively with the same var
    rec = [c for c in calls_in(ep.node) if unparse(c.func) == "cls.encode_primitive"]
    ctx.ob("encode_primitive recursion keeps the same var", len(rec) >= 2 and all(len(c.args) == 2 and unparse(c.args[1]) == "var" for c in rec), at=ep, construct="recursive var", msg="format lost for list/enum members")
    ed = ctx.repo.func(f"{SER}:EventHandler.encode_data")
    sers = [c for c in calls_in(ed.node) if unparse(c.func) == "converter.serialize"]
    ctx.ob("encode_data: converter.serialize(data, ns_map=self.ns_map)", bool(sers) and all(kwarg(c, "ns_map") is not None and unparse(kwarg(c, "ns_map")) == "self.ns_map" for c in sers),
           at=ed, construct="serialize ns_map", msg="QName values are written without the in-scope prefixes")
    pv = ctx.repo.func(f"{PAR}.utils:ParserUtils.parse_value")
    des = [c for c in calls_in(pv.node) if unparse(c.func) == "converter.deserialize"]
    ctx.floor("converter.deserialize calls in parse_value", len(des), 2)
    for c in des:
        ok = all(kwarg(c, k) is not None and unparse(kwarg(c, k)) == k for k in ("ns_map", "format")) and len(c.args) >= 2 and unparse(c.args[1]) == "types"
        ctx.ob(f"parse_value: converter.deserialize({unparse(c.args[0])}, types, ns_map=ns_map, format=format)", ok, at=pv, node=c, msg="a conversion parameter is not forwarded when reading")
    pvar = ctx.repo.func(f"{PAR}.utils:ParserUtils.parse_var")
    calls = [c for c in calls_in(pvar.node) if unparse(c.func) == "cls.parse_value"]
    want = {"value": "value", "types": "types or var.types", "default": "default or var.default", "ns_map": "ns_map", "tokens_factory": "tokens_factory or var.tokens_factory", "format": "format or var.format"}
    for c in calls:
        got = {k.arg: unparse(k.value) for k in c.keywords}
        for k, v in want.items():
            ctx.ob(f"parse_var forwards {k}={v}", got.get(k) == v, at=pvar, node=c, construct=f"parse_var {k}", msg=f"{k} is {got.get(k)!r}: the field's own {k} no longer applies")
    if not calls:
        raise AnalysisError("C01.R2: parse_var does not call parse_value")
    # every node that converts text passes its in-scope ns_map
    n = 0
    for cq in ("nodes.element:ElementNode", "nodes.primitive:PrimitiveNode", "nodes.standard:StandardNode", "nodes.union:UnionNode"):
        ci = ctx.repo.cls(f"{PAR}.{cq}")
        for m in ci.methods.values():
            for c in calls_in(m.node):
                if unparse(c.func) == "ParserUtils.parse_var":
                    n += 1
                    ctx.ob(f"{ci.name}.{m.name}: parse_var(ns_map=self.ns_map)", kwarg(c, "ns_map") is not None and unparse(kwarg(c, "ns_map")) == "self.ns_map", at=m, node=c,
                           msg="QName / xsi values resolved without the element's in-scope prefixes")
                    ctx.ob(f"{ci.name}.{m.name}: parse_var(meta=self.meta, var=..., config=self.config|config)", unparse(kwarg(c, "meta") or ast.Constant(0)) == "self.meta"
                           and L(m, kwarg(c, "config") or ast.Constant(0)) in ("self.config", "_"), at=m, node=c, construct=f"{m.name} meta/config", msg="wrong meta/config passed")
    ctx.floor("parse_var call sites in nodes", n, 5)
    # StandardNode uses the xsi:type datatype's own type and format on both sides
    sb = ctx.repo.func(f"{PAR}.nodes.standard:StandardNode.bind")
    for c in calls_in(sb.node):
        if unparse(c.func) == "ParserUtils.parse_var":
            ok = "[self.datatype.type]" in raw_forms(sb, c, kwarg(c, "types")) and "self.datatype.format" in raw_forms(sb, c, kwarg(c, "format"))
            ctx.ob("StandardNode.bind converts with the xsi:type datatype's type and format", ok, at=sb, node=c, construct="standard datatype params", msg="xsi:type'd value converted with the wrong type/format")
    fx = ctx.repo.func(f"{PAR}.utils:ParserUtils.validate_fixed_value")
    sers = [c for c in calls_in(fx.node) if unparse(c.func) == "converter.serialize"]
    ctx.ob("validate_fixed_value serialises the default with the field's format", bool(sers) and all(unparse(kwarg(c, "format") or ast.Constant(0)) == "var.format" for c in sers), at=fx,
           construct="fixed value format", msg="fixed values of formatted fields never match")


@rule("C01.R4")
def marker_agreement(ctx: Ctx) -> None:
    """The xsi:nil / xsi:type attribute names and literals the writer emits are the ones the reader looks up."""
    enums = ctx.repo.cls("xsdata.models.enums:QNames")
    na = next((t for t in ctx.repo.cls(f"{SER}:EventGenerator").methods["next_attribute"].node.body), None)
    nx = ctx.repo.func(f"{SER}:EventGenerator.next_attribute")
    ys = [y.value for y in walk_no_nested(nx.node) if isinstance(y, ast.Yield) and isinstance(y.value, ast.Tuple)]
    nil_w = [y for y in ys if unparse(y.elts[0]) == "QNames.XSI_NIL"]
    type_w = [y for y in ys if unparse(y.elts[0]) == "QNames.XSI_TYPE"]
    ctx.ob("writer emits QNames.XSI_NIL = 'true' for nillable elements", bool(nil_w) and all(isinstance(y.elts[1], ast.Constant) and y.elts[1].value == "true" for y in nil_w), at=nx, construct="nil written",
           msg="xsi:nil literal changed")
    ctx.ob("writer emits QNames.XSI_TYPE as QName(xsi_type)", bool(type_w) and all(unparse(y.elts[1]) == "QName(xsi_type)" for y in type_w), at=nx, construct="type written", msg="xsi:type written differently")
    g = build_cfg(nx.node)
    for y, flag in ((nil_w, "nillable"), (type_w, "xsi_type")):
        for item in y:
            node = g.node_of(item)
            tests = [t for t in g.nodes if t.kind == "test" and unparse(t.ast) == flag]
            ctx.ob(f"next_attribute: {unparse(item.elts[0])} only if {flag}", bool(tests) and node is not None and g.only_if(node.id, tests[0].id, True), at=nx, node=item, msg="marker emitted unconditionally")
    pn = ctx.repo.func(f"{PAR}.utils:ParserUtils.xsi_nil")
    pt = ctx.repo.func(f"{PAR}.utils:ParserUtils.xsi_type")
    ctx.ob("reader looks xsi:nil up under QNames.XSI_NIL and compares with constants.XML_TRUE", A("_.get(QNames.XSI_NIL)") in asrc(pn) and A("_ == constants.XML_TRUE") in asrc(pn), at=pn, construct="nil read",
           msg="reader and writer disagree on the nil attribute")
    cmod = ctx.repo.module("xsdata.utils.constants")
    xt = cmod.globals.get("XML_TRUE")
    ctx.ob("constants.XML_TRUE is the literal the writer emits", isinstance(xt, ast.Call) and "'true'" in unparse(xt) or (isinstance(xt, ast.Constant) and xt.value == "true"), at=cmod, node=xt, construct="XML_TRUE",
           msg="XML_TRUE differs from the written literal 'true'")
    ctx.ob("reader looks xsi:type up under QNames.XSI_TYPE and resolves it through the in-scope map", A("_.get(QNames.XSI_TYPE)") in asrc(pt) and A("QNameConverter.resolve(_, _)") in asrc(pt),
           at=pt, construct="type read", msg="xsi:type not resolved with the element's prefixes")
    # convert_element: nil marker for empty nillable values, and the writer drops it when content follows
    ce = ctx.repo.func(f"{SER}:EventGenerator.convert_element")
    g = build_cfg(ce.node)
    nil_y = [n for n in g.stmts() if "QNames.XSI_NIL" in unparse(n.ast) and n.kind == "stmt"]
    t1 = [t for t in g.nodes if t.kind == "test" and unparse(t.ast) == "var.nillable"]
    t2 = [t for t in g.nodes if t.kind == "test" and unparse(t.ast) == "value"]
    ok = bool(nil_y) and bool(t1) and bool(t2) and all(g.only_if(n.id, t1[0].id, True) and g.only_if(n.id, t2[0].id, False) for n in nil_y)
    ctx.ob("convert_element: xsi:nil only for nillable fields with an empty value", ok, at=ce, construct="nil guard", msg="nil marker on non-nillable or non-empty elements")
    fl = ctx.repo.func(f"{SER}:EventHandler.flush_start")
    g = build_cfg(fl.node)
    pops = [n for n in g.stmts() if "self.attrs.pop(XSI_NIL" in unparse(n.ast)]
    t = [x for x in g.nodes if x.kind == "test" and unparse(x.ast) == "is_nil"]
    ctx.ob("flush_start drops xsi:nil exactly when the element has content", bool(pops) and bool(t) and all(g.only_if(p.id, t[0].id, False) for p in pops), at=fl, construct="nil pop", msg="nil attribute kept on non-empty elements")
    smod = ctx.repo.module(SER)
    xn = smod.globals.get("XSI_NIL")
    ctx.ob("serializer XSI_NIL tuple is (XSI namespace, 'nil')", xn is not None and unparse(xn).replace(" ", "") == "(Namespace.XSI.uri,'nil')", at=smod, node=xn, construct="XSI_NIL tuple", msg="popped key differs from the stored key")
    # ElementNode honours nil: no object unless the class is nillable
    eb = ctx.repo.func(f"{PAR}.nodes.element:ElementNode.bind")
    g = build_cfg(eb.node)
    cf = [n for n in g.stmts() if "class_factory" in unparse(n.ast) and n.kind == "stmt"]
    ts = [x for x in g.nodes if x.kind == "test" and unparse(x.ast) in ("self.xsi_nil", "self.meta.nillable")]
    ctx.ob("ElementNode.bind builds an object unless xsi:nil is set on a non-nillable class", bool(cf) and len(ts) == 2, at=eb, construct="nil bind", msg="nil handling changed")


@rule("C01.R5")
def wrapper_symmetry(ctx: Ctx) -> None:
    """The writer brackets wrapped values with var.wrapper_qname; the reader indexes wrappers by the same attribute."""
    cd = ctx.repo.func(f"{SER}:EventGenerator.convert_dataclass")
    ys = [y.value for y in walk_no_nested(cd.node) if isinstance(y, ast.Yield) and isinstance(y.value, ast.Tuple)]
    s = [y for y in ys if unparse(y.elts[0]).endswith("START") and L(cd, y.elts[1]) == "_.wrapper_qname"]
    e = [y for y in ys if unparse(y.elts[0]).endswith("END") and L(cd, y.elts[1]) == "_.wrapper_qname"]
    ctx.ob("writer emits START/END var.wrapper_qname around wrapped values", len(s) == 1 and len(e) == 1, at=cd, construct="wrapper bracket", msg="wrapper element not written symmetrically")
    b = ctx.repo.func(f"{M}.builders:XmlMetaBuilder.build")
    names = {n for n, kw in _meta_keyword_names(b).items() if kw == "wrappers"}
    ok = any(isinstance(tgt, ast.Subscript) and isinstance(tgt.value, ast.Name) and tgt.value.id in names and "_.wrapper_qname" in arg_forms(b, st, tgt.slice) and val is not None and "_.qname" in arg_forms(b, st, val)
             for st, tgt, val in stores(b.node))
    ctx.ob("reader's wrappers map is keyed by var.wrapper_qname -> var.qname", ok, at=b, construct="wrappers map", msg="wrapper map built from another attribute than the one written")
    st = ctx.repo.func(f"{PAR}.bases:NodeParser.start")
    ctx.ob("NodeParser.start consults meta.wrappers before delegating to child()", A("_ in _.meta.wrappers") in asrc(st) and any(call_name_of(c) == "WrapperNode" and {k.arg for k in c.keywords} >= {"parent", "qname", "ns_map"} for c in calls_in(st.node)), at=st,
           construct="wrapper dispatch", msg="wrapper elements treated as unknown children")
    wn = ctx.repo.func(f"{PAR}.nodes.wrapper:WrapperNode.child")
    ctx.ob("WrapperNode.child delegates to the parent with wrapper=self.qname", any(func_text(wn, c) == "self.parent.child" and "self.qname" in raw_forms(wn, c, kwarg(c, "wrapper")) for c in calls_in(wn.node)), at=wn, construct="wrapper child",
           msg="wrapped items lose their wrapper association")
    ec = ctx.repo.func(f"{PAR}.nodes.element:ElementNode.child")
    bo = ctx.repo.func(f"{PAR}.nodes.element:ElementNode.bind_object")
    for fi in (ec, bo):
        cmp_ = [x for x in walk_no_nested(fi.node) if isinstance(x, ast.Compare) and len(x.ops) == 1 and isinstance(x.ops[0], (ast.NotEq, ast.Eq)) and any(isinstance(y, ast.Attribute) and y.attr == "wrapper_qname" for y in (x.left, x.comparators[0]))]
        ctx.ob(f"{fi.name}: a var is skipped when its wrapper_qname differs from the wrapper seen", bool(cmp_), at=fi, construct=f"{fi.name} wrapper filter",
               msg="items bound to a field with another wrapper")
    # DictEncoder / DictDecoder (JSON) nest under var.wrapper then var.local_name - covered by C04.R2


@rule("C01.R8")
def any_type_marker_guard(ctx: Ctx) -> None:
    """convert_element writes the xsi:type of an xs:anyType value for every value except None and the empty string (0 / False / 0.0 included)."""
    ce = ctx.repo.func(f"{SER}:EventGenerator.convert_element")
    g = build_cfg(ce.node)
    ys = [n for n in g.stmts() if n.kind == "stmt" and "QNames.XSI_TYPE" in unparse(n.ast)]
    if len(ys) != 1:
        raise AnalysisError("C01.R8: xsi:type yield of convert_element not found")
    y = ys[0]
    deps_true = [t for t in g.nodes if t.kind == "test" and g.only_if(y.id, t.id, True)]
    deps_false = [t for t in g.nodes if t.kind == "test" and g.only_if(y.id, t.id, False)]
    texts_t = [A(unparse(t.ast)) for t in deps_true]
    bare = [t for t in deps_true + deps_false if isinstance(t.ast, ast.Name) and t.ast.id == "value"]  # `value` and `var` are parameters
    ok = A("value is not None") in texts_t and A("value != ''") in texts_t and A("var.any_type") in texts_t and not bare
    ctx.ob("convert_element: the xsi:type marker depends on `value is not None`, `value != \"\"` and var.any_type - never on the truthiness of the value", ok, at=ce, node=y.ast, construct="any_type marker guard",
           msg="a truthiness test drops the marker for 0, False, 0.0, Decimal(0): the value is written without xsi:type and parses back as the string '0' / 'false'")
    ds = [t for t in deps_true if L(ce, t.ast) == A("_ != DataType.STRING")]
    ctx.ob("convert_element: strings are the only datatype written without a marker", len(ds) == 1, at=ce, construct="string exempt", msg="marker exemption changed")


from .c04 import exact_type_choice_lookup  # noqa: E402

share("C01", "C01.R10", exact_type_choice_lookup)
