"""The code generator's processing schedule, read from ClassContainer in whatever way it is written.

``processor_table``: (step, processor class) pairs in execution order - from the dict display assigned to ``self.processors``, from item
stores ``self.processors[K] = [...]``, through temporaries and helpers that were inlined.  ``step_sequence``: the steps process() runs, in
order (a loop over a literal is unrolled by the normalised view).  ``designators``: handler classes run by designate_classes, in run order."""

from __future__ import annotations

import ast

from ..cfg import build_cfg, calls_in
from ..core import Ctx
from ..model import FuncInfo, ordered_stmts, walk_no_nested
from ..q import is_self_attr, leaves_at, node_containing, unparse

CONTAINER = "xsdata.codegen.container:ClassContainer"


def step_values(ctx: Ctx) -> dict[str, int]:
    steps = ctx.repo.cls("xsdata.codegen.container:Steps")
    return {f"Steps.{k}": v.value for k, v in steps.attrs.items() if isinstance(v, ast.Constant) and isinstance(v.value, int)}


def _class_names(fi: FuncInfo, where: ast.AST, value: ast.expr) -> list[str] | None:
    """Classes instantiated by a list-valued expression, in order; None when the form is not recognised."""
    out: list[str] = []
    for leaf in leaves_at(fi, where, value):
        if isinstance(leaf, (ast.List, ast.Tuple)):
            for e in leaf.elts:
                got = None
                for x in leaves_at(fi, where, e):
                    if isinstance(x, ast.Call) and isinstance(x.func, ast.Name):
                        got = x.func.id
                if got is None:
                    return None
                out.append(got)
        elif isinstance(leaf, ast.ListComp) and len(leaf.generators) == 1 and isinstance(leaf.elt, ast.Call) and isinstance(leaf.elt.func, ast.Name) \
                and isinstance(leaf.generators[0].target, ast.Name) and leaf.elt.func.id == leaf.generators[0].target.id and not leaf.generators[0].ifs:
            for src in leaves_at(fi, where, leaf.generators[0].iter):
                if not isinstance(src, (ast.List, ast.Tuple)) or not all(isinstance(e, ast.Name) for e in src.elts):
                    return None
                out += [e.id for e in src.elts]
        else:
            return None
    return out


def processor_table(ctx: Ctx) -> tuple[FuncInfo, list[tuple[str, str]] | None]:
    """((__init__), [(step text, processor class name) ...] ordered by step value then position) - None if some entry has an unknown form."""
    init = ctx.repo.func(f"{CONTAINER}.__init__")
    entries: list[tuple[ast.AST, ast.expr, ast.expr]] = []  # (statement, key, value)
    recognised = True
    for st in ordered_stmts(init.node):
        tgts: list[ast.expr] = []
        val = None
        if isinstance(st, ast.Assign):
            tgts, val = st.targets, st.value
        elif isinstance(st, ast.AnnAssign) and st.value is not None:
            tgts, val = [st.target], st.value
        for t in tgts:
            if is_self_attr(t, "processors"):
                for leaf in leaves_at(init, st, val):
                    if isinstance(leaf, ast.Dict):
                        for k, v in zip(leaf.keys, leaf.values):
                            if k is None:
                                recognised = False
                            else:
                                entries.append((st, k, v))
                    elif isinstance(leaf, ast.Call) and unparse(leaf.func) in ("dict", "defaultdict") and not leaf.keywords and len(leaf.args) <= 1:
                        pass
                    else:
                        recognised = False
            elif isinstance(t, ast.Subscript) and is_self_attr(t.value, "processors"):
                entries.append((st, t.slice, val))
        if isinstance(st, ast.Expr) and isinstance(st.value, ast.Call) and isinstance(st.value.func, ast.Attribute) and (
                is_self_attr(st.value.func.value, "processors") or (isinstance(st.value.func.value, ast.Subscript) and is_self_attr(st.value.func.value.value, "processors"))):
            recognised = False  # update / setdefault / append on the table: a form this reader does not follow
    vals = step_values(ctx)
    rows: list[tuple[int, int, str, str]] = []
    for i, (st, k, v) in enumerate(entries):
        keys = {unparse(x) for x in leaves_at(init, st, k)}
        names = _class_names(init, st, v)
        if len(keys) != 1 or names is None or next(iter(keys)) not in vals:
            recognised = False
            continue
        key = next(iter(keys))
        rows += [(vals[key], i * 100 + j, key, n) for j, n in enumerate(names)]
    if not recognised or not rows:
        return init, None
    return init, [(k, n) for _, _, k, n in sorted(rows)]


def step_sequence(ctx: Ctx) -> tuple[FuncInfo, list[str] | None]:
    """Steps passed to process_classes by ClassContainer.process, in statement order (None: an argument of unknown form)."""
    pr = ctx.repo.func(f"{CONTAINER}.process")
    seq: list[str] = []
    for st in ordered_stmts(pr.node):
        if isinstance(st, (ast.If, ast.For, ast.While, ast.Try, ast.With)):
            continue
        for c in calls_in(st):
            if unparse(c.func) == "self.process_classes" and c.args:
                texts = {unparse(x) for x in leaves_at(pr, c, c.args[0])}
                if len(texts) != 1:
                    return pr, None
                seq.append(next(iter(texts)))
    return pr, seq


def designators(ctx: Ctx) -> tuple[FuncInfo, list[str] | None]:
    """Classes whose instances designate_classes runs (``x.run()``), in run order."""
    dc = ctx.repo.func(f"{CONTAINER}.designate_classes")
    order: list[str] = []
    for st in ordered_stmts(dc.node):
        if isinstance(st, (ast.If, ast.For, ast.While, ast.Try, ast.With)):
            continue
        for c in calls_in(st):
            if isinstance(c.func, ast.Attribute) and c.func.attr == "run" and not c.args:
                names = {x.func.id for x in leaves_at(dc, c, c.func.value) if isinstance(x, ast.Call) and isinstance(x.func, ast.Name)}
                if len(names) != 1:
                    return dc, None
                order.append(next(iter(names)))
    return dc, order or None  # no direct x.run() statement: the handlers are run through a table / callback, a form this reader does not follow
