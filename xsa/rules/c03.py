"""C03 - serialized XML is well-formed and says what the metadata says (structural clauses)."""

from __future__ import annotations

import ast

from ..cfg import build_cfg, call_name, calls_in, node_calls
from ..core import Ctx, property_info, rule
from ..events import check_function, is_event_generator, node_events
from ..model import AnalysisError, FuncInfo, norm_text, walk_no_nested
from ..q import (
    A, MUTATORS, control_deps, flows, family, reach_table, value_texts, node_containing, call_name_of, expand, leaves_at, raw_forms, attr_method_calls, is_call_to_self, is_self_attr, kwarg, names_in, root_name, self_attr_stores, stores,
    unparse,
)

MIXINS = "xsdata.formats.dataclass.serializers.mixins"
NSMOD = "xsdata.utils.namespaces"
EH = f"{MIXINS}:EventHandler"
EG = f"{MIXINS}:EventGenerator"

property_info(
    "C03",
    explanation="Decides the writer-side mechanism C03 rests on: the event generator emits a balanced "
    "START/ATTR/DATA/END word on every CFG path; the EventHandler typestate (pending_tag, ns_context, "
    "pending_prefixes) is paired on every path; every prefix binding precedes the flush that uses it; no store "
    "rebinds a bound prefix; user prefix maps pass a validity gate; only documented error classes are raised.",
    decides="event grammar, writer typestate pairing, declare-before-use ordering, prefix-map write discipline, "
    "dispatch totality, explicit raise family, user-prefix validity gate",
    not_decided="that names, namespaces and order equal an independent reading of the metadata for every model/instance; "
    "behaviour of XMLGenerator / lxml themselves",
)


def _event_generators(ctx: Ctx) -> list[FuncInfo]:
    """Methods of EventGenerator that yield events directly or (transitively) delegate to one that does."""
    eg = ctx.repo.cls(EG)
    gens = {m.qual: m for m in eg.methods.values() if is_event_generator(m)}
    changed = True
    while changed:
        changed = False
        for m in eg.methods.values():
            if m.qual in gens:
                continue
            for n in walk_no_nested(m.node):
                if isinstance(n, ast.YieldFrom) and isinstance(n.value, ast.Call):
                    r = ctx.res.resolve_call(m, n.value)
                    if any(f.qual in gens for f in r.funcs):
                        gens[m.qual] = m
                        changed = True
                        break
    return list(gens.values())


# the one function whose ATTR events may attach to the caller's pending element
UNOPENED_ATTR_OK = {"convert_any_element": "a name-less generic element carries attributes of its parent element; "
                    "if no start is pending the writer raises XmlWriterError, which C03 allows"}


@rule("C03.R1")
def event_grammar(ctx: Ctx) -> None:
    """Every CFG path of every event-generator method spells a balanced START/ATTR/DATA/END word."""
    gens = _event_generators(ctx)
    ctx.floor("event generator methods", len(gens), 12)
    gen_set = {g.qual for g in gens}
    total_paths = total_events = 0
    for fi in sorted(gens, key=lambda f: f.node.lineno):
        problems, stats = check_function(fi, allow_unopened_attr=fi.name in UNOPENED_ATTR_OK)
        total_paths += stats["paths"]
        total_events += stats["events"]
        ctx.ob(f"{fi.name}: all {stats['paths']} paths balanced", not problems, at=fi,
               construct=f"event-grammar:{fi.name}",
               msg="; ".join(f"{p.what} (line {getattr(p.node, 'lineno', '?')}; path {' '.join(p.path[-6:])})" for p in problems),
               witness=[p.path for p in problems])
        # every `yield from` must delegate to a generator that is itself checked
        for n in walk_no_nested(fi.node):
            if isinstance(n, ast.YieldFrom):
                if isinstance(n.value, ast.Call):
                    r = ctx.res.resolve_call(fi, n.value)
                    targets = {f.qual for f in r.funcs}
                    ok = bool(targets) and targets <= gen_set and not r.unresolved and not r.by_name
                    ctx.ob(f"{fi.name}: yield from {unparse(n.value.func)} delegates to checked generators", ok, at=fi, node=n,
                           msg=f"resolves to {sorted(targets) or 'nothing'}; not all are checked event generators")
                else:
                    ctx.ob(f"{fi.name}: yield from non-call", False, at=fi, node=n, msg="yield from of an arbitrary iterable cannot be shown balanced")
    ctx.note("C03.R1", {"generators": len(gens), "paths": total_paths, "events": total_events})


@rule("C03.R2")
def writer_typestate(ctx: Ctx) -> None:
    """ns_context / pending_prefixes / pending_tag are paired on every path of the EventHandler."""
    eh = ctx.repo.cls(EH)
    start_tag = ctx.repo.method(EH, "start_tag")
    end_tag = ctx.repo.method(EH, "end_tag")
    flush = ctx.repo.method(EH, "flush_start")
    start_ns = ctx.repo.method(EH, "start_namespaces")

    # (a) who pushes / pops ns_context and pending_prefixes
    family = [eh, *eh.all_subclasses()]
    pushes_ctx, pops_ctx, pushes_pp, pops_pp = [], [], [], []
    for c in family:
        for m in c.methods.values():
            for call in attr_method_calls(m.node, "ns_context"):
                if call.func.attr == "append":
                    pushes_ctx.append((m, call))
                elif call.func.attr in MUTATORS:
                    pops_ctx.append((m, call))
            for call in attr_method_calls(m.node, "pending_prefixes"):
                if call.func.attr == "append":
                    pushes_pp.append((m, call))
                elif call.func.attr in MUTATORS:
                    pops_pp.append((m, call))
            if m.name != "__init__":
                for st, tgt, _ in self_attr_stores(m.node):
                    if tgt.attr in ("ns_context", "pending_prefixes"):
                        ctx.ob(f"{m.name}: no rebinding of {tgt.attr}", False, at=m, node=st, msg="stack attribute replaced outside __init__")
    ctx.ob("ns_context pushed only in start_tag", [m.qual for m, _ in pushes_ctx] == [start_tag.qual], at=start_tag,
           construct="ns_context.append sites", msg=f"append sites: {[m.qual for m, _ in pushes_ctx]}")
    ctx.ob("ns_context popped only in end_tag (once, .pop())",
           [(m.qual, c.func.attr, len(c.args)) for m, c in pops_ctx] == [(end_tag.qual, "pop", 0)], at=end_tag,
           construct="ns_context.pop sites", msg=f"mutation sites: {[(m.qual, c.func.attr) for m, c in pops_ctx]}")
    ctx.ob("pending_prefixes pushed only in start_namespaces", [m.qual for m, _ in pushes_pp] == [start_ns.qual], at=start_ns,
           construct="pending_prefixes.append sites", msg=f"append sites: {[m.qual for m, _ in pushes_pp]}")
    ctx.ob("pending_prefixes popped only in end_tag (once, .pop())",
           [(m.qual, c.func.attr, len(c.args)) for m, c in pops_pp] == [(end_tag.qual, "pop", 0)], at=end_tag,
           construct="pending_prefixes.pop sites", msg=f"mutation sites: {[(m.qual, c.func.attr) for m, c in pops_pp]}")

    # (b) pushes and pops are unconditional (on every normal path of their function) and outside loops
    for m, call, what in [(start_tag, pushes_ctx[0][1] if pushes_ctx else None, "ns_context.append"),
                          (end_tag, pops_ctx[0][1] if pops_ctx else None, "ns_context.pop"),
                          (end_tag, pops_pp[0][1] if pops_pp else None, "pending_prefixes.pop")]:
        if call is None:
            continue
        g = build_cfg(m.node)
        n = g.node_of(call)
        ok = n is not None and g.must_pass(g.entry, g.exit, {n.id})
        in_loop_body = n is not None and n.kind != "for" and _in_loop_body(m.node, call)
        ctx.ob(f"{m.name}: {what} on every path, exactly once", ok and not in_loop_body, at=m, node=call,
               msg="a path reaches the end of the function without it" if not ok else "executed inside a loop body")
    # start_namespaces appends before any exit, unconditionally
    if pushes_pp:
        g = build_cfg(start_ns.node)
        n = g.node_of(pushes_pp[0][1])
        ctx.ob("start_namespaces: pending_prefixes.append on every path", n is not None and g.must_pass(g.entry, g.exit, {n.id}),
               at=start_ns, node=pushes_pp[0][1], msg="a path through start_namespaces records no prefix list")
        # the appended list is the one start_prefix_mapping-ed prefixes are recorded in
        lst = pushes_pp[0][1].args[0] if pushes_pp[0][1].args else None
        lst_name = lst.id if isinstance(lst, ast.Name) else None
        for call in calls_in(start_ns.node):
            if is_call_to_self(call, "start_prefix_mapping"):
                gnode = g.node_of(call)
                p = unparse(call.args[0]) if call.args else ""
                rec = [c for c in calls_in(start_ns.node) if isinstance(c.func, ast.Attribute) and c.func.attr == "append"
                       and isinstance(c.func.value, ast.Name) and c.func.value.id == lst_name and c.args and unparse(c.args[0]) == p]
                ok = bool(rec) and all(g.must_pass(g.entry, gnode.id, {g.node_of(r).id}) or g.must_pass(gnode.id, g.exit, {g.node_of(r).id}) for r in rec[:1])
                # same block: recorded on every path that maps the prefix
                ctx.ob("every prefix passed to start_prefix_mapping is recorded for end_prefix_mapping", ok, at=start_ns, node=call,
                       msg=f"prefix {p} is declared but not appended to the list pushed on pending_prefixes")
    # end_tag drains exactly the popped list into end_prefix_mapping
    drained = False
    for n in walk_no_nested(end_tag.node):
        it = expand(end_tag.node, n.iter) if isinstance(n, ast.For) else None
        if isinstance(n, ast.For) and isinstance(it, ast.Call) and isinstance(it.func, ast.Attribute) \
                and is_self_attr(it.func.value, "pending_prefixes") and it.func.attr == "pop":
            tgt = unparse(n.target)
            drained = any(is_call_to_self(c, "end_prefix_mapping") and c.args and unparse(c.args[0]) == tgt for c in calls_in(n))
    ctx.ob("end_tag: each popped prefix goes to end_prefix_mapping", drained, at=end_tag, construct="drain loop",
           msg="the list popped from pending_prefixes is not drained into end_prefix_mapping")

    # (c) pending_tag typestate
    nonnull, null = [], []
    for c in family:
        for m in c.methods.values():
            for st, tgt, val in self_attr_stores(m.node, "pending_tag"):
                if m.name == "__init__" and c is eh:
                    continue
                if isinstance(val, ast.Constant) and val.value is None:
                    null.append((m, st))
                else:
                    nonnull.append((m, st))
    ctx.ob("pending_tag set (non-None) only in start_tag", [m.qual for m, _ in nonnull] == [start_tag.qual], at=start_tag,
           construct="pending_tag non-None stores", msg=f"stores: {[m.qual for m, _ in nonnull]}")
    ctx.ob("pending_tag cleared only in flush_start", [m.qual for m, _ in null] == [flush.qual], at=flush,
           construct="pending_tag None stores", msg=f"stores: {[m.qual for m, _ in null]}")
    if null and null[0][0].qual == flush.qual:
        g = build_cfg(flush.node)
        clr = g.node_of(null[0][1])
        for name in ("start_namespaces", "start_element"):
            nodes = [n.id for n in g.stmts() if any(is_call_to_self(c, name) for c in node_calls(n))]
            ctx.ob(f"flush_start: {name}() dominates clearing pending_tag", bool(nodes) and clr is not None and g.must_pass(g.entry, clr.id, nodes),
                   at=flush, construct=f"{name} dominates clear", msg=f"pending_tag can be cleared without {name}() having run")
    # start_tag and end_tag begin with flush_start dominating everything else
    for m in (start_tag, end_tag):
        g = build_cfg(m.node)
        fl = [n.id for n in g.stmts() if any(is_call_to_self(c, "flush_start") for c in node_calls(n))]
        others = [n for n in g.stmts() if n.id not in fl and n.kind in ("stmt", "for", "with") and n.ast is not None
                  and not _is_docstring(n.ast)]
        bad = [n for n in others if not g.must_pass(g.entry, n.id, fl)]
        ctx.ob(f"{m.name}: flush_start() dominates every other statement", bool(fl) and not bad, at=m, construct="flush_start first",
               msg=f"statement at line {bad[0].lineno if bad else '?'} can run before the pending start is flushed")
    # start_element only from flush_start; end_element only from end_tag (within the handler family)
    for callee, owner in (("start_element", flush), ("end_element", end_tag), ("start_namespaces", flush)):
        callers = sorted({m.qual for c in family for m in c.methods.values() for call in calls_in(m.node) if is_call_to_self(call, callee)})
        ctx.ob(f"{callee} is called only from {owner.name}", callers == [owner.qual], at=owner, construct=f"callers of {callee}",
               msg=f"callers: {callers}")
    # set_data flushes the pending start before characters are written
    sd = ctx.repo.method(EH, "set_data")
    g = build_cfg(sd.node)
    fl = [n.id for n in g.stmts() if any(is_call_to_self(c, "flush_start") for c in node_calls(n))]
    for n in g.stmts():
        for c in node_calls(n):
            if is_call_to_self(c, "set_characters"):
                ctx.ob("set_data: flush_start dominates set_characters", g.must_pass(g.entry, n.id, fl), at=sd, node=c,
                       msg="characters can be written while the start tag is still pending")
    # end_tag: end_element before tail characters, and tail reset
    g = build_cfg(end_tag.node)
    ee = [n.id for n in g.stmts() if any(is_call_to_self(c, "end_element") for c in node_calls(n))]
    ctx.ob("end_tag: end_element on every path", bool(ee) and g.must_pass(g.entry, g.exit, ee), at=end_tag, construct="end_element on all paths",
           msg="a path through end_tag never ends the element")
    for n in g.stmts():
        for c in node_calls(n):
            if is_call_to_self(c, "set_characters"):
                ctx.ob("end_tag: tail characters only after end_element", g.must_pass(g.entry, n.id, ee), at=end_tag, node=c,
                       msg="tail text can be written before the element is closed")
    resets = [g.node_of(st) for st, tgt, val in self_attr_stores(end_tag.node, "tail") if isinstance(val, ast.Constant) and val.value is None]
    ctx.ob("end_tag: tail is reset on every path", bool(resets) and g.must_pass(g.entry, g.exit, [r.id for r in resets if r]), at=end_tag,
           construct="tail reset", msg="a stale tail would be written after a later element")


def _is_docstring(st: ast.AST) -> bool:
    return isinstance(st, ast.Expr) and isinstance(st.value, ast.Constant) and isinstance(st.value.value, str)


def _in_loop_body(fn: ast.AST, target: ast.AST) -> bool:
    for n in walk_no_nested(fn):
        if isinstance(n, (ast.For, ast.While)):
            for st in n.body + n.orelse:
                for sub in [st, *walk_no_nested(st)]:
                    if sub is target:
                        return True
    return False


def _may_bind_prefix(ctx: Ctx, fi: FuncInfo, call: ast.Call, binders: set[str]) -> bool:
    r = ctx.res.resolve_call(fi, call)
    return any(f.qual in binders for f in r.funcs)


def _ns_map_mutators(ctx: Ctx) -> dict[str, str]:
    """Functions that (transitively, inside the handler family + namespaces utils) may bind a prefix."""
    repo = ctx.repo
    eh = repo.cls(EH)
    base = {f"{NSMOD}:generate_prefix": "stores ns_map[prefix]", f"{NSMOD}:load_prefix": "calls generate_prefix"}
    # direct stores into self.ns_map[...] within the handler family
    cands = [m for c in [eh, *eh.all_subclasses()] for m in c.methods.values()]
    conv = repo.cls("xsdata.formats.converter:QNameConverter")
    cands += list(conv.methods.values())
    cands += [repo.func("xsdata.formats.converter:ConverterFactory.serialize")]
    for c in repo.cls("xsdata.formats.converter:Converter").all_subclasses():
        if "serialize" in c.methods:
            cands.append(c.methods["serialize"])
    out = dict(base)
    for m in cands:
        for st, tgt, _ in stores(m.node):
            if isinstance(tgt, ast.Subscript) and (is_self_attr(tgt.value, "ns_map")):
                out[m.qual] = "stores self.ns_map[...]"
    changed = True
    while changed:
        changed = False
        for m in cands:
            if m.qual in out:
                continue
            for call in calls_in(m.node):
                r = ctx.res.resolve_call(m, call)
                if r.by_name:
                    continue
                hit = [f.qual for f in r.funcs if f.qual in out]
                if hit:
                    out[m.qual] = f"calls {hit[0].split(':')[1]}"
                    changed = True
                    break
    return out


def _declared_per_prefix_binding(ctx: Ctx) -> None:
    """start_namespaces decides per PREFIX whether a binding must be declared on this element: whatever skips start_prefix_mapping(prefix, uri)
    consults the parent's map under that prefix - knowing that the URI is in scope under some other prefix is not enough, the names of this
    element use this prefix."""
    sn = ctx.repo.method(EH, "start_namespaces")
    g = build_cfg(sn.node)
    for n in g.stmts():
        for c in node_calls(n):
            if not (is_call_to_self(c, "start_prefix_mapping") and c.args):
                continue
            pnames = {x.id for x in leaves_at(sn, n, c.args[0]) if isinstance(x, ast.Name)}
            if not pnames:
                ctx.abstain("prefix argument of start_prefix_mapping", at=sn)
                continue
            deps = {t.id: t for _, _, t in control_deps(sn, n)}
            if not deps:
                ctx.ob("start_namespaces: start_prefix_mapping(prefix, uri) is unconditional or keyed by the prefix", True, at=sn, node=c, construct="declaration keyed by prefix")
                continue

            def keyed(t) -> bool:
                # the test itself, the values of the locals it reads, and the tests those values were chosen under
                exprs: list[ast.AST] = [t.ast]
                for nm in [x for x in ast.walk(t.ast) if isinstance(x, ast.Name) and isinstance(x.ctx, ast.Load)]:
                    for leaf, chain in flows(sn, t, nm):
                        exprs.append(leaf)
                        for dn in chain:
                            exprs += [tt.ast for _, _, tt in control_deps(sn, dn)]
                return any(_keyed_expr(e) for e in exprs)

            def _keyed_expr(e: ast.AST) -> bool:
                for x in ast.walk(e):
                    if isinstance(x, ast.Call) and isinstance(x.func, ast.Attribute) and x.func.attr in ("get", "__contains__") and x.args and isinstance(x.args[0], ast.Name) and x.args[0].id in pnames:
                        return True
                    if isinstance(x, ast.Subscript) and isinstance(x.slice, ast.Name) and x.slice.id in pnames:
                        return True
                    if isinstance(x, ast.Compare) and len(x.ops) == 1 and isinstance(x.ops[0], (ast.In, ast.NotIn)) and (
                            (isinstance(x.left, ast.Name) and x.left.id in pnames) or (isinstance(x.left, ast.Tuple) and x.left.elts and isinstance(x.left.elts[0], ast.Name) and x.left.elts[0].id in pnames)):
                        return True
                return False

            ctx.ob("start_namespaces: a binding is skipped only after looking the PREFIX up in the parent's map", any(keyed(t) for t in deps.values()), at=sn, node=c, construct="declaration keyed by prefix",
                   msg="the declaration is skipped when the URI is already in scope under another prefix: a qualified attribute in the default namespace gets a generated prefix that is never declared "
                       "(the native writer then writes it unprefixed; lxml declares it itself - the two writers disagree)")


def _attr_namespace_registrations(flush: FuncInfo) -> list[tuple[object, set[str]]]:
    """Where flush_start hands the pending attributes' namespaces to a method of the handler: (CFG node, handler methods referenced) - a loop
    over self.attrs that calls self.<m>(...), or a statement that maps / applies self.<m> over something derived from self.attrs."""
    g = build_cfg(flush.node)
    out: list[tuple[object, set[str]]] = []
    for n in g.nodes:
        if n.ast is None:
            continue
        if n.kind == "for" and any("self.attrs" in t for t in value_texts(flush, n, n.ast.iter)):
            ms = {c.func.attr for b in n.ast.body for c in calls_in(b) if is_self_attr(c.func, None)}
            if ms:
                out.append((n, ms))
        elif n.kind == "stmt" and not isinstance(n.ast, (ast.For, ast.If, ast.While, ast.Try, ast.With)):
            refs = {x.attr for x in ast.walk(n.ast) if is_self_attr(x, None) and isinstance(x.ctx, ast.Load)}
            names = [x for x in ast.walk(n.ast) if isinstance(x, (ast.Name, ast.Attribute)) and isinstance(getattr(x, "ctx", None), ast.Load)]
            if any("self.attrs" in t for x in names for t in value_texts(flush, n, x)) and any(isinstance(c, ast.Call) for c in ast.walk(n.ast)):
                ms = {r for r in refs if r not in ("attrs",)}
                if ms and not isinstance(n.ast, ast.Assign):
                    out.append((n, ms))
    return out


@rule("C03.R3")
def declare_before_use(ctx: Ctx) -> None:
    """Every call that may bind a prefix dominates start_namespaces(), which dominates start_element()."""
    binders = _ns_map_mutators(ctx)
    ctx.note("C03.R3 prefix binders", binders)
    for need in (f"{MIXINS}:EventHandler.add_namespace", f"{MIXINS}:EventHandler.encode_data",
                 f"{MIXINS}:EventHandler.reset_default_namespace", f"{NSMOD}:generate_prefix"):
        if need not in binders:
            raise AnalysisError(f"C03.R3: expected prefix binder not discovered: {need}")
    _declared_per_prefix_binding(ctx)
    flush = ctx.repo.method(EH, "flush_start")
    g = build_cfg(flush.node)
    sn = [n for n in g.stmts() if any(is_call_to_self(c, "start_namespaces") for c in node_calls(n))]
    se = [n for n in g.stmts() if any(is_call_to_self(c, "start_element") for c in node_calls(n))]
    ctx.ob("flush_start: start_namespaces() dominates start_element()", bool(sn) and bool(se) and all(g.must_pass(g.entry, e.id, [s.id for s in sn]) for e in se),
           at=flush, construct="start_namespaces before start_element", msg="an element can be started before its namespace declarations are sent")
    count = 0
    for n in g.stmts():
        for c in node_calls(n):
            if any(is_call_to_self(c, x) for x in ("start_namespaces", "start_element")):
                continue
            if _may_bind_prefix(ctx, flush, c, set(binders)):
                count += 1
                # must not be reachable after start_namespaces: i.e. no path start_namespaces -> this call
                after = any(n.id in g.reachable([s.id]) and n.id != s.id for s in sn)
                ctx.ob(f"flush_start: {unparse(c.func)}() cannot run after start_namespaces()", not after, at=flush, node=c,
                       msg="a prefix may be bound after the element's declarations were already sent (prefix used but undeclared)")
    ctx.floor("prefix-binding calls in flush_start", count, 2)
    # the loop over attrs registering their namespaces precedes start_namespaces on every path
    regs = _attr_namespace_registrations(flush)
    attr_ns = [n for n, _ in regs]
    binder_names = {b.split(".")[-1] for b in binders}
    ctx.ob("flush_start: attribute namespaces are registered before start_namespaces()", bool(attr_ns) and all(
        g.must_pass(g.entry, s.id, [a.id for a in attr_ns]) for s in sn) and any(m in binder_names for _, ms in regs for m in ms), at=flush, construct="attrs namespace loop",
        msg="attribute namespaces are not all given a prefix before declarations are sent")
    rd = [n for n in g.stmts() if any(is_call_to_self(c, "reset_default_namespace") for c in node_calls(n))]
    ctx.ob("flush_start: reset_default_namespace() on every path to start_namespaces()", bool(rd) and all(g.must_pass(g.entry, s.id, [r.id for r in rd]) for s in sn),
           at=flush, construct="reset_default_namespace before start_namespaces", msg="an unqualified element may inherit a default namespace")
    # set_data: value encoded before the flush
    sd = ctx.repo.method(EH, "set_data")
    g2 = build_cfg(sd.node)
    enc = [n.id for n in g2.stmts() if any(is_call_to_self(c, "encode_data") for c in node_calls(n))]
    fl = [n for n in g2.stmts() if any(is_call_to_self(c, "flush_start") for c in node_calls(n))]
    ctx.ob("set_data: encode_data(data) dominates flush_start()", bool(enc) and bool(fl) and all(g2.must_pass(g2.entry, f.id, enc) for f in fl), at=sd,
           construct="encode before flush", msg="a QName in text could get its prefix after the start tag was written")
    for f in fl:
        later = [e for e in enc if e in g2.reachable([f.id]) and e != f.id]
        ctx.ob("set_data: no encode_data after flush_start", not later, at=sd, construct="no encode after flush", msg="encode_data reachable after the flush")
    # add_attribute: the stored value is the encoded one; key from split_qname
    aa = ctx.repo.method(EH, "add_attribute")
    st_ok = False
    for st, tgt, val in stores(aa.node):
        if isinstance(tgt, ast.Subscript) and is_self_attr(tgt.value, "attrs"):
            lv = leaves_at(aa, st, val) if val is not None else []
            st_ok = bool(lv) and all(isinstance(v, ast.Call) and is_call_to_self(v, "encode_data") for v in lv)
            ctx.ob("add_attribute: stored value is encode_data(value)", st_ok, at=aa, node=st, msg="attribute value stored without prefix-aware encoding")
    if not st_ok:
        ctx.ob("add_attribute: stores into self.attrs", False, at=aa, construct="attrs store", msg="no store self.attrs[...] = self.encode_data(...) found")
    # start_tag registers the element namespace while the tag is pending
    stg = ctx.repo.method(EH, "start_tag")
    g3 = build_cfg(stg.node)
    an = [n.id for n in g3.stmts() if any(is_call_to_self(c, "add_namespace") for c in node_calls(n))]
    ctx.ob("start_tag: add_namespace(element uri) on every path", bool(an) and g3.must_pass(g3.entry, g3.exit, an), at=stg, construct="element namespace registered",
           msg="the element's own namespace may never get a prefix")
    # copy-on-push: the context pushed is a copy, and ns_map is rebound to it
    push = [c for c in attr_method_calls(stg.node, "ns_context", "append")]
    COPIES = {"self.ns_map.copy()", "dict(self.ns_map)", "{**self.ns_map}"}
    ok = bool(push) and push[0].args and bool({x.replace(" ", "") for x in raw_forms(stg, push[0], push[0].args[0])} & COPIES)
    ctx.ob("start_tag: pushes a copy of the in-scope map", ok, at=stg, node=push[0] if push else None, construct=None if push else "push copy",
           msg="child bindings would leak into the parent's scope")
    pushed = unparse(push[0].args[0]) if push and push[0].args else ""
    rebind = [st for st, tgt, val in self_attr_stores(stg.node, "ns_map") if val is not None and ("ns_context[-1]" in unparse(val) or (isinstance(val, ast.Name) and unparse(val) == pushed))]
    ctx.ob("start_tag: self.ns_map rebound to the pushed copy", bool(rebind), at=stg, construct="ns_map rebinding", msg="bindings would go to the parent's map")
    et = ctx.repo.method(EH, "end_tag")
    restore = [st for st, tgt, val in self_attr_stores(et.node, "ns_map") if val is not None and "ns_context[-1]" in unparse(val)]
    g4 = build_cfg(et.node)
    pop = [g4.node_of(c) for c in attr_method_calls(et.node, "ns_context", "pop")]
    ok = bool(restore) and bool(pop) and all(g4.must_pass(g4.entry, g4.node_of(r).id, [p.id for p in pop if p]) for r in restore)
    ctx.ob("end_tag: self.ns_map restored to the parent scope after the pop", ok, at=et, construct="ns_map restore", msg="sibling elements would see the closed element's prefixes")


@rule("C03.R4")
def no_prefix_rebinding(ctx: Ctx) -> None:
    """Every store m[p] = uri into a namespace map is fresh, the default reset, or guarded by 'p not bound'."""
    sites = 0
    funcs = list(ctx.repo.funcs_in(NSMOD)) + [m for c in [ctx.repo.cls(EH), *ctx.repo.cls(EH).all_subclasses()] for m in c.methods.values()]
    for fi in funcs:
        g = None
        fresh = {t.id for st, t, v in stores(fi.node) if isinstance(t, ast.Name) and isinstance(v, (ast.Dict, ast.DictComp))}
        for st, tgt, val in stores(fi.node):
            if not isinstance(tgt, ast.Subscript) or isinstance(st, ast.Delete):
                continue
            m = tgt.value
            is_map = (isinstance(m, ast.Name) and ("ns_map" in m.id or m.id in fresh or m.id == "result")) or is_self_attr(m, "ns_map")
            if not is_map:
                continue
            sites += 1
            key = tgt.slice
            ktxt, mtxt = unparse(key), unparse(m)
            if isinstance(m, ast.Name) and m.id in fresh:
                # fresh dict: still require a freshness guard if stored in a loop (first binding wins)
                g = g or build_cfg(fi.node)
                n = g.node_of(st)
                guards = [t for t in g.nodes if t.kind == "test" and unparse(t.ast).replace(" ", "") in (f"{ktxt}notin{mtxt}", f"{ktxt}in{mtxt}")]
                ok = any(g.only_if(n.id, t.id, "notin" in unparse(t.ast).replace(" ", "")) for t in guards)
                ctx.ob(f"{fi.name}: {mtxt}[{ktxt}] (fresh dict) keeps the first binding", ok, at=fi, node=st,
                       msg="a duplicate prefix in the input would silently rebind")
                continue
            if isinstance(key, ast.Constant) and key.value is None and isinstance(val, ast.Constant) and val.value == "":
                ctx.ob(f"{fi.name}: {mtxt}[None] = '' is the designated default reset", True, at=fi, node=st)
                continue
            g = g or build_cfg(fi.node)
            n = g.node_of(st)
            ok = False
            for t in g.nodes:
                if t.kind != "test":
                    continue
                tt = unparse(t.ast).replace(" ", "")
                if tt == f"{ktxt}notin{mtxt}" and g.only_if(n.id, t.id, True):
                    ok = True
                if tt == f"{ktxt}in{mtxt}" and g.only_if(n.id, t.id, False):
                    ok = True
            # or the key was produced by a loop that searches for an unbound prefix
            ctx.ob(f"{fi.name}: {mtxt}[{ktxt}] = ... only when {ktxt} is not bound", ok, at=fi, node=st,
                   msg=f"prefix {ktxt} is stored without a test that it is unbound in {mtxt}: an existing (user or inherited) "
                       "binding is overwritten, leaving names already resolved against it pointing at another namespace")
    ctx.floor("namespace-map store sites", sites, 3)


@rule("C03.R5")
def who_may_write_map(ctx: Ctx) -> None:
    """Only the designated functions mutate a prefix map reachable from a writer; the user map is copied."""
    allowed = {f"{NSMOD}:generate_prefix", f"{MIXINS}:EventHandler.reset_default_namespace"}
    eh = ctx.repo.cls(EH)
    funcs = list(ctx.repo.funcs_in(NSMOD, "xsdata.formats.dataclass.serializers", "xsdata.formats.converter"))
    n_sites = 0
    for fi in funcs:
        for st, tgt, val in stores(fi.node):
            if isinstance(tgt, ast.Subscript) and (is_self_attr(tgt.value, "ns_map") or (isinstance(tgt.value, ast.Name) and tgt.value.id == "ns_map")):
                n_sites += 1
                ctx.ob(f"{fi.qual.split(':')[1]}: subscript store into ns_map is by a designated writer", fi.qual in allowed, at=fi, node=st,
                       msg="only generate_prefix and reset_default_namespace may write a prefix map")
        for c in calls_in(fi.node):
            f = c.func
            if isinstance(f, ast.Attribute) and f.attr in MUTATORS and (is_self_attr(f.value, "ns_map") or (isinstance(f.value, ast.Name) and f.value.id == "ns_map")):
                n_sites += 1
                ctx.ob(f"{fi.qual.split(':')[1]}: ns_map.{f.attr}() is by a designated writer", fi.qual in allowed, at=fi, node=c,
                       msg="prefix map mutated outside the designated writers")
    ctx.floor("ns_map write sites", n_sites, 2)
    # user ns_map goes through clean_prefixes (returns a new dict) on the way into every writer/builder
    for cls_q, meth in (("xsdata.formats.dataclass.serializers.xml:XmlSerializer", "write"), ("xsdata.formats.dataclass.serializers.tree:TreeSerializer", "render")):
        fi = ctx.repo.method(cls_q, meth)
        ok = False
        sites = [(c, leaves_at(fi, c, k)) for c in calls_in(fi.node) if (k := kwarg(c, "ns_map")) is not None]
        # the user map is used at all: some writer construction receives clean_prefixes(...) (the constructions may be one per branch)
        used = any(isinstance(x, ast.Call) and call_name_of(x) == "clean_prefixes" for _, leaves in sites for x in leaves)
        for c, leaves in sites:
            # every value that can reach the writer is clean_prefixes(<user map>) (a fresh dict) or an empty dict - never the caller's own object
            ok = bool(leaves) and all((isinstance(x, ast.Call) and call_name_of(x) == "clean_prefixes") or (isinstance(x, ast.Dict) and not x.keys) or (isinstance(x, ast.Call) and unparse(x.func) == "dict" and not x.args) for x in leaves) \
                and used
            ctx.ob(f"{fi.qual.split(':')[1]}: user ns_map reaches the writer only through clean_prefixes()", ok, at=fi, node=c,
                   msg="the caller's dict would be shared with (and mutated by) the writer")
        if not ok:
            ctx.ob(f"{fi.qual.split(':')[1]}: writer constructed with ns_map=clean_prefixes(...)", False, at=fi, construct="writer ns_map kw", msg="no writer construction with ns_map= found")
    cp = ctx.repo.func(f"{NSMOD}:clean_prefixes")
    rets = [n for n in walk_no_nested(cp.node) if isinstance(n, ast.Return)]
    fresh = {t.id for st, t, v in stores(cp.node) if isinstance(t, ast.Name) and isinstance(v, (ast.Dict, ast.DictComp))}
    ctx.ob("clean_prefixes returns a new dict", bool(rets) and all(isinstance(r.value, ast.Name) and r.value.id in fresh for r in rets), at=cp, construct="returns fresh dict",
           msg="clean_prefixes may return its argument")
    mut_param = [st for st, tgt, v in stores(cp.node) if isinstance(tgt, ast.Subscript) and root_name(tgt) == "ns_map"] + [
        c for c in calls_in(cp.node) if isinstance(c.func, ast.Attribute) and c.func.attr in MUTATORS and root_name(c.func.value) == "ns_map"]
    ctx.ob("clean_prefixes does not mutate its argument", not mut_param, at=cp, construct="argument untouched", msg="user map mutated")
    # start_tag copy is covered in R3; __init__ stores the given map
    init = ctx.repo.method(EH, "__init__")
    ctx.ob("EventHandler.__init__ takes ownership of the (already copied) map", any(unparse(v) == "ns_map" for _, t, v in self_attr_stores(init.node, "ns_map") if v is not None),
           at=init, construct="self.ns_map = ns_map")


@rule("C03.R6")
def dispatch_totality(ctx: Ctx) -> None:
    """EventHandler.write handles every XmlWriterEvent constant and raises XmlWriterError otherwise."""
    from ..q import enum_members

    ev = ctx.repo.cls(f"{MIXINS}:XmlWriterEvent")
    members = set(enum_members(ev.node))
    w = ctx.repo.method(EH, "write")
    from ..q import Dispatch

    handled: dict[str, str] = {}
    d = Dispatch(w.node, is_subject=lambda e: isinstance(e, ast.Name))
    for key in sorted(d.keys):
        if not key.startswith("XmlWriterEvent."):
            continue
        calls = [c.func.attr for n in d.specific(key) if n.kind != "test" for c in node_calls(n) if is_self_attr(c.func, None)]
        handled[key.split(".", 1)[1]] = calls[0] if len(set(calls)) == 1 else ",".join(sorted(set(calls)))
    else_raises = any(n.kind == "stmt" and isinstance(n.ast, ast.Raise) and n.ast.exc is not None and "XmlWriterError" in unparse(n.ast.exc) for n in d.specific(None))
    if not handled:
        # data-driven form: a table of (XmlWriterEvent.X, self.<receiver>) pairs (tuple / list of pairs, or a dict) that the loop looks the event up in
        for x in walk_no_nested(w.node):
            pairs = []
            if isinstance(x, (ast.Tuple, ast.List)) and x.elts and all(isinstance(e, ast.Tuple) and len(e.elts) == 2 for e in x.elts):
                pairs = [(e.elts[0], e.elts[1]) for e in x.elts]
            elif isinstance(x, ast.Dict) and x.keys and all(k is not None for k in x.keys):
                pairs = list(zip(x.keys, x.values))
            if pairs and all(unparse(k).startswith("XmlWriterEvent.") and is_self_attr(v, None) for k, v in pairs):
                handled = {unparse(k).split(".", 1)[1]: v.attr for k, v in pairs}
                else_raises = any(isinstance(r, ast.Raise) and r.exc is not None and "XmlWriterError" in unparse(r.exc) for r in walk_no_nested(w.node))
        if not handled:
            ctx.abstain("event dispatch of EventHandler.write", at=w)
            handled = None  # type: ignore[assignment]
    expect = {"START": "start_tag", "END": "end_tag", "ATTR": "add_attribute", "DATA": "set_data"}
    if handled is None:
        members = set()
        else_raises = True
        handled = {}
    for m in sorted(members):
        ctx.ob(f"write dispatches {m} to {expect.get(m, '?')}", handled.get(m) == expect.get(m, handled.get(m)) and m in handled, at=w, construct=f"dispatch {m}",
               msg=f"event {m} is dispatched to {handled.get(m)!r}")
    ctx.ob("write: unknown event raises XmlWriterError", else_raises, at=w, construct="else raises", msg="unknown events are silently ignored")
    g = build_cfg(w.node)
    sd = [n.id for n in g.stmts() if any(is_call_to_self(c, "start_document") for c in node_calls(n))]
    ed = [n.id for n in g.stmts() if any(is_call_to_self(c, "end_document") for c in node_calls(n))]
    ctx.ob("write: start_document first, end_document on every normal path", bool(sd) and bool(ed) and g.must_pass(g.entry, g.exit, ed) and all(g.must_pass(g.entry, e, sd) for e in ed),
           at=w, construct="document bracketing", msg="document start/end not on every path")


ALLOWED_RAISE = {"SerializerError", "XmlWriterError", "XmlContextError", "ConverterError"}


@rule("C03.R7")
def error_family(ctx: Ctx) -> None:
    """Explicit raise sites reachable from XmlSerializer.render raise only the documented serializer errors."""
    from ..exc import explicit_raises

    root = ctx.repo.method("xsdata.formats.dataclass.serializers.xml:XmlSerializer", "render")
    roots = [root, ctx.repo.method("xsdata.formats.dataclass.serializers.tree:TreeSerializer", "render")]
    # the writers are constructed through a class-valued field: add the handler family explicitly
    eh = ctx.repo.cls(EH)
    for c in [eh, *eh.all_subclasses()]:
        roots += [m for m in c.methods.values()]
    eg = ctx.repo.cls(EG)
    roots += list(eg.methods.values())
    reach = ctx.res.reachable_funcs(roots, include_by_name=False)
    n = 0
    for fi in sorted(reach, key=lambda f: f.qual):
        if fi.module.name.startswith("xsdata.codegen") or fi.module.name in ("xsdata.utils.testing",):
            continue
        for r in explicit_raises(ctx, fi):
            if r.caught_locally or r.abstract:
                continue
            n += 1
            if fi.module.name in ("xsdata.formats.dataclass.models.builders", "xsdata.formats.dataclass.typing", "xsdata.formats.dataclass.context",
                                  "xsdata.formats.dataclass.compat", "xsdata.formats.dataclass.models.elements"):
                # metadata construction: XmlContextError family, plus typing's internal TypeError caught by the builder
                ok = r.exc_name in ALLOWED_RAISE or r.exc_name in ("TypeError",) and fi.module.name.endswith("typing")
            elif fi.module.name == "xsdata.utils.namespaces" and fi.name == "build_qname":
                ok = True  # infeasible-raise table: callers pass a non-empty local name
            else:
                ok = r.exc_name in ALLOWED_RAISE or r.reraise
            ctx.ob(f"{fi.qual.split(':')[1]} raises {r.exc_name}", ok, at=fi, node=r.node,
                   msg=f"{r.exc_name} is outside the documented serializer error family {sorted(ALLOWED_RAISE)}")
    ctx.floor("explicit raise sites reachable from render", n, 8)


@rule("C03.R9")
def user_prefix_gate(ctx: Ctx) -> None:
    """Keys of the caller's ns_map are tested (NCName, reserved prefixes) on the way into the writer."""
    cp = ctx.repo.func(f"{NSMOD}:clean_prefixes")
    g = build_cfg(cp.node)
    fresh = {t.id for st, t, v in stores(cp.node) if isinstance(t, ast.Name) and isinstance(v, (ast.Dict, ast.DictComp))}
    sts = [(st, tgt) for st, tgt, v in stores(cp.node) if isinstance(tgt, ast.Subscript) and isinstance(tgt.value, ast.Name) and tgt.value.id in fresh and not isinstance(st, ast.Delete)]
    if not sts:
        ctx.ob("clean_prefixes copies entries into a fresh dict", False, at=cp, construct="result store", msg="no store into the result dict found")
        return
    for st, tgt in sts:
        n = g.node_of(st)
        key = unparse(tgt.slice)
        # gating tests: atomic tests that must be true for the store to run
        gates = [t for t in g.nodes if t.kind == "test" and g.only_if(n.id, t.id, True)]
        # the set of functions consulted by the gates (transitively, within utils.namespaces) and the constants they compare with
        consulted: set[str] = set()
        consts: set[str] = set()
        attrs: set[str] = set()
        work = []
        for t in gates:
            for sub in ast.walk(t.ast):
                if isinstance(sub, ast.Call) and any(key in unparse(a) for a in sub.args):
                    r = ctx.res.resolve_call(cp, sub)
                    work += [f for f in r.funcs]
                if isinstance(sub, ast.Constant) and isinstance(sub.value, str):
                    consts.add(sub.value)
        seen = set()
        while work:
            f = work.pop()
            if f.qual in seen:
                continue
            seen.add(f.qual)
            consulted.add(f.qual.split(":")[1])
            for sub in walk_no_nested(f.node):
                if isinstance(sub, ast.Constant) and isinstance(sub.value, str):
                    consts.add(sub.value)
                if isinstance(sub, ast.Attribute):
                    attrs.add(unparse(sub))
                if isinstance(sub, ast.Call):
                    r = ctx.res.resolve_call(f, sub)
                    work += [x for x in r.funcs if x.module.name == NSMOD]
        ctx.ob(f"clean_prefixes: result[{key}] stored only if the prefix passed is_ncname", "is_ncname" in consulted, at=cp, node=st,
               construct="prefix NCName gate",
               msg="a user prefix that is not an NCName (e.g. '1x', 'a b') is written as-is: the native writer emits a document no parser accepts, "
                   "lxml raises a bare ValueError")
        reserved = "xmlns" in consts and ("xml" in consts or any(a.startswith("Namespace.XML") for a in attrs))
        ctx.ob(f"clean_prefixes: result[{key}] stored only if the reserved prefixes xml / xmlns were tested", reserved, at=cp, node=st,
               construct="reserved prefix gate",
               msg="ns_map={'xmlns': uri} or {'xml': other-uri} produces a namespace-ill-formed document")
        ctx.note("C03.R9 gate", {"gates": [unparse(t.ast) for t in gates], "consulted": sorted(consulted)})


@rule("C03.R10")
def meta_is_never_inherited(ctx: Ctx) -> None:
    """The binding metadata reads a class's Meta only when the class defines it itself ('Meta' in cls.__dict__)."""
    b = ctx.repo.cls("xsdata.formats.dataclass.models.builders:XmlMetaBuilder")
    n = 0
    for m in b.methods.values():
        g = None
        # (a) attribute reads  X.Meta
        for node in walk_no_nested(m.node):
            if isinstance(node, ast.Attribute) and node.attr == "Meta" and isinstance(node.ctx, ast.Load):
                n += 1
                g = g or build_cfg(m.node)
                owner = unparse(node.value)
                cn = g.node_of(node)
                guards = [t for t in g.nodes if t.kind == "test" and isinstance(t.ast, ast.Compare) and isinstance(t.ast.ops[0], (ast.In, ast.NotIn)) and isinstance(t.ast.left, ast.Constant)
                          and t.ast.left.value == "Meta" and unparse(t.ast.comparators[0]) == f"{owner}.__dict__"]
                ok = cn is not None and any(g.only_if(cn.id, t.id, isinstance(t.ast.ops[0], ast.In)) for t in guards)
                # conditional expression form:  X.Meta if "Meta" in X.__dict__ else None
                if not ok:
                    for ife in walk_no_nested(m.node):
                        if isinstance(ife, ast.IfExp) and any(sub is node for sub in ast.walk(ife.body)) and A(unparse(ife.test)) == A(f"'Meta' in {owner}.__dict__"):
                            ok = True
                ctx.ob(f"{m.name}: {owner}.Meta is read only if 'Meta' in {owner}.__dict__", ok, at=m, node=node,
                       msg="Meta would be inherited from a base class: a subclass without its own Meta silently takes the base's name / namespace, so names and namespaces no longer follow the documented metadata")
            # (b) getattr(X, "Meta", ...) follows inheritance
            if isinstance(node, ast.Call) and isinstance(node.func, ast.Name) and node.func.id == "getattr" and len(node.args) >= 2 and isinstance(node.args[1], ast.Constant) and node.args[1].value == "Meta":
                n += 1
                ctx.ob(f"{m.name}: Meta is not looked up with getattr (which follows inheritance)", False, at=m, node=node, msg="getattr(cls, 'Meta') returns an inherited Meta")
    ctx.floor("Meta reads in the metadata builder", n, 2)


@rule("C03.R8")
def character_guard(ctx: Ctx) -> None:
    """Text and attribute values pass a check of the XML 1.0 Char production before they reach the content handler."""
    eh = ctx.repo.cls(EH)
    family = [eh, *eh.all_subclasses()]
    sinks = []
    for c in family:
        for m in c.methods.values():
            for call in calls_in(m.node):
                if unparse(call.func) in ("self.handler.characters", "self.handler.startElementNS"):
                    sinks.append((m, call))
    if len(sinks) < 2:
        raise AnalysisError("C03.R8: content handler sinks not found")
    # a guard is any function on the way (set_data / add_attribute / set_characters / start_element / encode_data) that applies a regex or
    # a character-range test to the value and raises a serializer / writer error
    guards = []
    for c in family:
        for m in c.methods.values():
            if m.name not in ("set_data", "add_attribute", "set_characters", "start_element", "encode_data", "flush_start"):
                continue
            has_test = any(isinstance(x, ast.Call) and isinstance(x.func, ast.Attribute) and x.func.attr in ("search", "match", "fullmatch", "isprintable", "translate") for x in walk_no_nested(m.node))
            raises = any(isinstance(x, ast.Raise) and x.exc is not None and any(e in unparse(x.exc) for e in ("XmlWriterError", "SerializerError")) for x in walk_no_nested(m.node))
            if has_test and raises:
                guards.append(m.qual)
    for m, call in sinks:
        what = "character data" if "characters" in unparse(call.func) else "attribute values"
        ctx.ob(f"{m.cls.name}.{m.name}: {what} are checked against the XML Char production before {unparse(call.func)}", bool(guards), at=m, node=call, construct=f"char guard {m.name}",
               msg="a value containing e.g. \\x01 is handed to the backend unchecked: the native writer emits a document no parser accepts, the lxml writer raises a bare ValueError")
    ctx.note("C03.R8 guards", guards)


@rule("C03.R11")
def default_namespace_never_qualifies_attributes_or_values(ctx: Ctx) -> None:
    """Attribute namespaces get a named prefix (the default namespace does not apply to attributes); QName values do not rely on a default that may be reset."""
    flush = ctx.repo.method(EH, "flush_start")
    regs = _attr_namespace_registrations(flush)
    loops = [n.ast for n, _ in regs]
    callee = None
    for _, ms in regs:
        for m in sorted(ms):
            cand = ctx.repo.cls(EH).find_method(m)
            if cand is not None and "namespace" in m:
                callee = cand
    ok = False
    if callee is not None:
        # the guard that skips prefix generation must not accept a default-namespace binding: no `prefix_exists(uri, map)` / `uri in map.values()` test
        from ..q import family

        fam = family(ctx.repo, callee)
        gen = any(call_name_of(c) == "generate_prefix" for f in fam for c in calls_in(f.node))
        contraband = [c for f in fam for c in calls_in(f.node) if call_name_of(c) == "prefix_exists"] + [
            n for f in fam for n in walk_no_nested(f.node) if isinstance(n, ast.Compare) and isinstance(n.ops[0], (ast.In, ast.NotIn)) and isinstance(n.comparators[0], ast.Call)
            and call_name_of(n.comparators[0]) == "values"]
        ok = gen and not contraband
    ctx.ob("flush_start: every attribute namespace is given a NAMED prefix (a default-namespace binding does not count)", ok, at=flush, node=loops[0] if loops else None, construct="attribute prefix",
           msg="with ns_map={None: uri} a qualified attribute in that namespace is written without a prefix by the native writer, i.e. as an unqualified attribute")
    qs = ctx.repo.func("xsdata.formats.converter:QNameConverter.serialize")
    resets = [m.qual for c in [ctx.repo.cls(EH), *ctx.repo.cls(EH).all_subclasses()] for m in c.methods.values()
              for st, tgt, v in stores(m.node) if isinstance(tgt, ast.Subscript) and isinstance(tgt.slice, ast.Constant) and tgt.slice.value is None and is_self_attr(tgt.value, "ns_map")]
    from ..q import control_deps
    from ..cfg import build_cfg as _bc

    gq = _bc(qs.node)
    # a return of the bare local name on the path where a namespace exists but load_prefix() found no (named) prefix for it
    unprefixed = any(isinstance(r.ast.value, ast.Name) and any("load_prefix" in t and not pol for t, pol, _ in control_deps(qs, r)) for r in gq.returns())
    ctx.ob("QName values are not written unprefixed through a default namespace that the writer may reset on the same element", not (unprefixed and resets), at=qs, construct="qname default prefix",
           msg="QNameConverter.serialize returns the bare local name when the namespace is bound as default; reset_default_namespace then emits xmlns=\"\" on an unqualified element and the value denotes another QName")


@rule("C03.R13")
def per_field_metadata_is_independent(ctx: Ctx) -> None:
    """What the metadata builders pass on for one field (namespace, type hints, globals ...) does not depend on the fields visited before it:
    no local that is conditionally overwritten inside the per-field loop reaches the builder call of a later iteration."""
    from ..q import loop_carried_defs, _def_nodes

    n = 0
    for q in ("XmlMetaBuilder.build_vars", "XmlVarBuilder.build_choices"):
        for fi in family(ctx.repo, ctx.repo.func(f"xsdata.formats.dataclass.models.builders:{q}")):
            g = build_cfg(fi.node)
            defs = _def_nodes(g)
            for node in g.stmts():
                for c in node_calls(node):
                    if call_name_of(c) not in ("build", "XmlVar"):
                        continue
                    for a in [*c.args, *[k.value for k in c.keywords]]:
                        for x in ast.walk(a):
                            if not (isinstance(x, ast.Name) and isinstance(x.ctx, ast.Load)):
                                continue
                            carried = loop_carried_defs(g, node.id, x.id)
                            # a counter / accumulator (x = x + 1) is meant to be carried; a value that is only overwritten for some items is not
                            carried = {d for d in carried if defs[x.id].get(d) is None or not any(isinstance(y, ast.Name) and y.id == x.id for y in ast.walk(defs[x.id][d]))}
                            n += 1
                            ctx.ob(f"{q}: `{x.id}` passed to {call_name_of(c)}() is set afresh for every item", not carried, at=fi, node=c, construct=f"per-item {x.id}",
                                   msg=f"`{x.id}` keeps the value assigned for an earlier item (definition at line {sorted(g.nodes[d].lineno for d in carried)}): "
                                       "e.g. the namespace of a base class with its own Meta leaks into the fields declared after it")
    ctx.floor("arguments of per-field builder calls", n, 8)


@rule("C03.R14")
def end_tag_leaves_tail_state(ctx: Ctx) -> None:
    """EventHandler.end_tag: when an element closes the writer is back in the text state of its parent - every normal path through end_tag
    resets self.in_tail (and forgets the pending tail), so the parent's following text is written in place, not parked as a tail."""
    fi = ctx.repo.method(EH, "end_tag")
    g = build_cfg(fi.node)
    resets = [g.node_of(st) for st, tgt, v in stores(fi.node) if is_self_attr(tgt, "in_tail") and isinstance(v, ast.Constant) and v.value is False]
    resets = [n for n in resets if n is not None]
    if not resets:
        # the reset may be delegated to a helper the rule does not follow; a direct store of another value is a different decision
        other = [st for st, tgt, v in stores(fi.node) if is_self_attr(tgt, "in_tail")]
        delegated = [c for c in calls_in(fi.node) if isinstance(c.func, ast.Attribute) and unparse(c.func.value) == "self" and c.func.attr not in ("flush_start", "end_element", "set_characters", "end_prefix_mapping")]
        if other or not delegated:
            ctx.ob("end_tag resets the tail state (self.in_tail = False) on every path", False, at=fi, construct="end_tag tail reset",
                   msg="after a child element with character data closes, the parent's following text is parked as a tail and written after the parent's end tag (<p>a<b>b</b></p>c)")
        else:
            ctx.abstain("tail-state reset of end_tag", at=fi, why=f"no `self.in_tail = False` store; possibly delegated to {sorted({c.func.attr for c in delegated})}")
        return
    reach = g.reachable([g.entry], blocked=[n.id for n in resets], labels=lambda lab: lab != "exc")
    ctx.ob("end_tag resets the tail state (self.in_tail = False) on every path", g.exit not in reach, at=fi, construct="end_tag tail reset",
           msg="after a child element with character data closes, the parent's following text is parked as a tail and written after the parent's end tag (<p>a<b>b</b></p>c)")
